//! Own strict RFC 8259 parser (independent of serde_json's reader) and the
//! comparison "body parses back to exactly the value": numbers are kept as
//! their text and compared exactly (integers as integers, floats by bit pattern
//! after Rust's correctly rounded `str::parse::<f64>`).

use serde_json::Value;

#[derive(Debug, Clone, PartialEq)]
pub enum J {
    Null,
    Bool(bool),
    /// the number's text as it appeared
    Num(String),
    Str(String),
    Arr(Vec<J>),
    /// members in document order (duplicates preserved)
    Obj(Vec<(String, J)>),
}

pub fn parse(b: &[u8]) -> Result<J, String> {
    let mut p = P { b, i: 0, depth: 0 };
    p.ws();
    let v = p.value()?;
    p.ws();
    if p.i != b.len() {
        return Err(format!("trailing bytes at offset {}", p.i));
    }
    Ok(v)
}

struct P<'a> {
    b: &'a [u8],
    i: usize,
    depth: u32,
}

impl P<'_> {
    fn ws(&mut self) {
        while self.i < self.b.len() && matches!(self.b[self.i], b' ' | b'\t' | b'\n' | b'\r') {
            self.i += 1;
        }
    }
    fn peek(&self) -> Option<u8> {
        self.b.get(self.i).copied()
    }
    fn lit(&mut self, s: &[u8], v: J) -> Result<J, String> {
        if self.b[self.i..].starts_with(s) {
            self.i += s.len();
            Ok(v)
        } else {
            Err(format!("bad literal at offset {}", self.i))
        }
    }
    fn value(&mut self) -> Result<J, String> {
        self.depth += 1;
        if self.depth > 200 {
            return Err("nesting too deep".into());
        }
        let r = match self.peek() {
            None => Err("unexpected end".to_string()),
            Some(b'n') => self.lit(b"null", J::Null),
            Some(b't') => self.lit(b"true", J::Bool(true)),
            Some(b'f') => self.lit(b"false", J::Bool(false)),
            Some(b'"') => self.string().map(J::Str),
            Some(b'[') => {
                self.i += 1;
                let mut out = vec![];
                self.ws();
                if self.peek() == Some(b']') {
                    self.i += 1;
                } else {
                    loop {
                        self.ws();
                        out.push(self.value()?);
                        self.ws();
                        match self.peek() {
                            Some(b',') => self.i += 1,
                            Some(b']') => {
                                self.i += 1;
                                break;
                            }
                            _ => return Err(format!("expected , or ] at offset {}", self.i)),
                        }
                    }
                }
                Ok(J::Arr(out))
            }
            Some(b'{') => {
                self.i += 1;
                let mut out = vec![];
                self.ws();
                if self.peek() == Some(b'}') {
                    self.i += 1;
                } else {
                    loop {
                        self.ws();
                        if self.peek() != Some(b'"') {
                            return Err(format!("expected member name at offset {}", self.i));
                        }
                        let k = self.string()?;
                        self.ws();
                        if self.peek() != Some(b':') {
                            return Err(format!("expected : at offset {}", self.i));
                        }
                        self.i += 1;
                        self.ws();
                        let v = self.value()?;
                        out.push((k, v));
                        self.ws();
                        match self.peek() {
                            Some(b',') => self.i += 1,
                            Some(b'}') => {
                                self.i += 1;
                                break;
                            }
                            _ => return Err(format!("expected , or }} at offset {}", self.i)),
                        }
                    }
                }
                Ok(J::Obj(out))
            }
            Some(b'-' | b'0'..=b'9') => self.number(),
            Some(c) => Err(format!("unexpected byte 0x{c:02x} at offset {}", self.i)),
        };
        self.depth -= 1;
        r
    }
    fn number(&mut self) -> Result<J, String> {
        let s = self.i;
        if self.peek() == Some(b'-') {
            self.i += 1;
        }
        match self.peek() {
            Some(b'0') => self.i += 1,
            Some(b'1'..=b'9') => {
                while matches!(self.peek(), Some(b'0'..=b'9')) {
                    self.i += 1;
                }
            }
            _ => return Err(format!("bad number at offset {s}")),
        }
        if self.peek() == Some(b'.') {
            self.i += 1;
            if !matches!(self.peek(), Some(b'0'..=b'9')) {
                return Err(format!("bad fraction at offset {s}"));
            }
            while matches!(self.peek(), Some(b'0'..=b'9')) {
                self.i += 1;
            }
        }
        if matches!(self.peek(), Some(b'e' | b'E')) {
            self.i += 1;
            if matches!(self.peek(), Some(b'+' | b'-')) {
                self.i += 1;
            }
            if !matches!(self.peek(), Some(b'0'..=b'9')) {
                return Err(format!("bad exponent at offset {s}"));
            }
            while matches!(self.peek(), Some(b'0'..=b'9')) {
                self.i += 1;
            }
        }
        Ok(J::Num(String::from_utf8_lossy(&self.b[s..self.i]).to_string()))
    }
    fn hex4(&mut self) -> Result<u32, String> {
        if self.i + 4 > self.b.len() {
            return Err("short \\u escape".into());
        }
        let h = std::str::from_utf8(&self.b[self.i..self.i + 4]).map_err(|_| "bad \\u escape")?;
        if !h.bytes().all(|c| c.is_ascii_hexdigit()) {
            return Err("bad \\u escape".into());
        }
        self.i += 4;
        Ok(u32::from_str_radix(h, 16).unwrap())
    }
    fn string(&mut self) -> Result<String, String> {
        debug_assert_eq!(self.peek(), Some(b'"'));
        self.i += 1;
        let mut out: Vec<u8> = vec![];
        loop {
            let Some(c) = self.peek() else {
                return Err("unterminated string".into());
            };
            self.i += 1;
            match c {
                b'"' => break,
                b'\\' => {
                    let Some(e) = self.peek() else {
                        return Err("unterminated escape".into());
                    };
                    self.i += 1;
                    let ch = match e {
                        b'"' => '"',
                        b'\\' => '\\',
                        b'/' => '/',
                        b'b' => '\u{8}',
                        b'f' => '\u{c}',
                        b'n' => '\n',
                        b'r' => '\r',
                        b't' => '\t',
                        b'u' => {
                            let u = self.hex4()?;
                            if (0xd800..0xdc00).contains(&u) {
                                if self.b[self.i..].starts_with(b"\\u") {
                                    self.i += 2;
                                    let l = self.hex4()?;
                                    if !(0xdc00..0xe000).contains(&l) {
                                        return Err("lone high surrogate".into());
                                    }
                                    char::from_u32(0x10000 + ((u - 0xd800) << 10) + (l - 0xdc00)).unwrap()
                                } else {
                                    return Err("lone high surrogate".into());
                                }
                            } else if (0xdc00..0xe000).contains(&u) {
                                return Err("lone low surrogate".into());
                            } else {
                                char::from_u32(u).unwrap()
                            }
                        }
                        _ => return Err(format!("bad escape \\{}", e as char)),
                    };
                    let mut buf = [0u8; 4];
                    out.extend_from_slice(ch.encode_utf8(&mut buf).as_bytes());
                }
                0..=0x1f => return Err(format!("raw control character 0x{c:02x} in string")),
                _ => out.push(c),
            }
        }
        String::from_utf8(out).map_err(|_| "string is not UTF-8".to_string())
    }
}

/// how a float leaf is compared
#[derive(Clone, Copy, PartialEq)]
pub enum FloatMode {
    /// bit pattern of the f64
    F64,
    /// the value was an f32 (serde_json prints the shortest f32 digits, while
    /// `to_value` widens to f64): compare after rounding both to f32
    F32,
}

/// Ok(()) when `got` (parsed body) is exactly `want`; otherwise the JSON-pointer
/// like path of the first difference and a reason
pub fn same(got: &J, want: &Value, fm: FloatMode) -> Result<(), String> {
    cmp(got, want, fm, &mut String::new())
}

fn cmp(got: &J, want: &Value, fm: FloatMode, path: &mut String) -> Result<(), String> {
    let fail = |path: &str, why: String| Err(format!("at {}: {why}", if path.is_empty() { "/" } else { path }));
    match (got, want) {
        (J::Null, Value::Null) => Ok(()),
        (J::Bool(a), Value::Bool(b)) if a == b => Ok(()),
        (J::Str(a), Value::String(b)) => {
            if a == b {
                Ok(())
            } else {
                fail(path, format!("string differs: got {:?} want {:?}", crate::gen::show(a), crate::gen::show(b)))
            }
        }
        (J::Num(t), Value::Number(n)) => {
            let ok = if let Some(u) = n.as_u64() {
                t.parse::<u64>().ok() == Some(u)
            } else if let Some(i) = n.as_i64() {
                t.parse::<i64>().ok() == Some(i)
            } else if let Some(f) = n.as_f64() {
                match t.parse::<f64>() {
                    Ok(g) => {
                        g.to_bits() == f.to_bits()
                            || (fm == FloatMode::F32 && (g as f32).to_bits() == (f as f32).to_bits())
                    }
                    Err(_) => false,
                }
            } else {
                false
            };
            if ok {
                Ok(())
            } else {
                fail(path, format!("number differs: got text {t} want {n}"))
            }
        }
        (J::Arr(a), Value::Array(b)) => {
            if a.len() != b.len() {
                return fail(path, format!("array length {} want {}", a.len(), b.len()));
            }
            for (i, (x, y)) in a.iter().zip(b).enumerate() {
                let l = path.len();
                path.push_str(&format!("/{i}"));
                cmp(x, y, fm, path)?;
                path.truncate(l);
            }
            Ok(())
        }
        (J::Obj(a), Value::Object(b)) => {
            let mut seen = std::collections::BTreeSet::new();
            for (k, _) in a {
                if !seen.insert(k.as_str()) {
                    return fail(path, format!("duplicate member {:?}", crate::gen::show(k)));
                }
            }
            if a.len() != b.len() {
                return fail(path, format!("object has {} members, want {}", a.len(), b.len()));
            }
            for (k, x) in a {
                let Some(y) = b.get(k) else {
                    return fail(path, format!("unexpected member {:?}", crate::gen::show(k)));
                };
                let l = path.len();
                path.push('/');
                path.push_str(&crate::gen::show(k));
                cmp(x, y, fm, path)?;
                path.truncate(l);
            }
            Ok(())
        }
        _ => fail(path, format!("type differs: got {} want {}", kind_j(got), kind_v(want))),
    }
}

fn kind_j(j: &J) -> &'static str {
    match j {
        J::Null => "null",
        J::Bool(_) => "bool",
        J::Num(_) => "number",
        J::Str(_) => "string",
        J::Arr(_) => "array",
        J::Obj(_) => "object",
    }
}
fn kind_v(j: &Value) -> &'static str {
    match j {
        Value::Null => "null",
        Value::Bool(_) => "bool",
        Value::Number(_) => "number",
        Value::String(_) => "string",
        Value::Array(_) => "array",
        Value::Object(_) => "object",
    }
}

/// Exact comparison of a parsed body with an expectation given as an own tree
/// (used where serde_json::Value cannot represent the value, e.g. integers
/// beyond 64 bits): numbers must have the identical text (the expectation
/// carries canonical decimal integers), objects are unordered, no duplicates.
pub fn same_exact(got: &J, want: &J) -> Result<(), String> {
    cmp_exact(got, want, &mut String::new())
}

fn cmp_exact(got: &J, want: &J, path: &mut String) -> Result<(), String> {
    let fail = |path: &str, why: String| Err(format!("at {}: {why}", if path.is_empty() { "/" } else { path }));
    match (got, want) {
        (J::Null, J::Null) => Ok(()),
        (J::Bool(a), J::Bool(b)) if a == b => Ok(()),
        (J::Str(a), J::Str(b)) => {
            if a == b {
                Ok(())
            } else {
                fail(path, format!("string differs: got {:?} want {:?}", crate::gen::show(a), crate::gen::show(b)))
            }
        }
        (J::Num(a), J::Num(b)) => {
            if a == b {
                Ok(())
            } else {
                fail(path, format!("number differs: got text {a} want {b}"))
            }
        }
        (J::Arr(a), J::Arr(b)) => {
            if a.len() != b.len() {
                return fail(path, format!("array length {} want {}", a.len(), b.len()));
            }
            for (i, (x, y)) in a.iter().zip(b).enumerate() {
                let l = path.len();
                path.push_str(&format!("/{i}"));
                cmp_exact(x, y, path)?;
                path.truncate(l);
            }
            Ok(())
        }
        (J::Obj(a), J::Obj(b)) => {
            let mut seen = std::collections::BTreeSet::new();
            for (k, _) in a {
                if !seen.insert(k.as_str()) {
                    return fail(path, format!("duplicate member {:?}", crate::gen::show(k)));
                }
            }
            if a.len() != b.len() {
                return fail(path, format!("object has {} members, want {}", a.len(), b.len()));
            }
            for (k, x) in a {
                let Some((_, y)) = b.iter().find(|(n, _)| n == k) else {
                    return fail(path, format!("unexpected member {:?}", crate::gen::show(k)));
                };
                let l = path.len();
                path.push('/');
                path.push_str(&crate::gen::show(k));
                cmp_exact(x, y, path)?;
                path.truncate(l);
            }
            Ok(())
        }
        _ => fail(path, format!("type differs: got {} want {}", kind_j(got), kind_j(want))),
    }
}

impl J {
    /// JSON text (for witnesses)
    pub fn text(&self) -> String {
        match self {
            J::Null => "null".into(),
            J::Bool(b) => b.to_string(),
            J::Num(t) => t.clone(),
            J::Str(s) => serde_json::to_string(s).unwrap_or_default(),
            J::Arr(a) => format!("[{}]", a.iter().map(|x| x.text()).collect::<Vec<_>>().join(",")),
            J::Obj(m) => format!(
                "{{{}}}",
                m.iter().map(|(k, v)| format!("{}:{}", serde_json::to_string(k).unwrap_or_default(), v.text())).collect::<Vec<_>>().join(",")
            ),
        }
    }
    pub fn get(&self, k: &str) -> Option<&J> {
        match self {
            J::Obj(m) => m.iter().find(|(n, _)| n == k).map(|(_, v)| v),
            _ => None,
        }
    }
    pub fn as_str(&self) -> Option<&str> {
        match self {
            J::Str(s) => Some(s),
            _ => None,
        }
    }
}
