//! Body types for C12 (each knows how to generate a value of itself together
//! with a value-class name) and the declared-header structs.

use crate::gen::*;
use crate::jsonp::FloatMode;
use schemars::JsonSchema;
use serde::{Deserialize, Serialize};
use std::collections::BTreeMap;
use vmon::rng::Rng;

pub trait BodyGen: Serialize + JsonSchema + Send + Sync + Sized + 'static {
    const NAME: &'static str;
    const FLOAT: FloatMode = FloatMode::F64;
    /// (value, value class)
    fn gen(rng: &mut Rng) -> (Self, String);
    /// The value as an own exact JSON tree, for types serde_json::Value cannot
    /// represent (integers beyond 64 bits): written from the value's fields,
    /// integers in canonical decimal.  None: serde_json::to_value is the reference.
    fn exact(&self) -> Option<crate::jsonp::J> {
        None
    }
}

impl BodyGen for () {
    const NAME: &'static str = "unit";
    fn gen(_: &mut Rng) -> (Self, String) {
        ((), "unit".into())
    }
}

impl BodyGen for bool {
    const NAME: &'static str = "bool";
    fn gen(rng: &mut Rng) -> (Self, String) {
        let b = rng.bool();
        (b, b.to_string())
    }
}

impl BodyGen for u64 {
    const NAME: &'static str = "u64";
    fn gen(rng: &mut Rng) -> (Self, String) {
        let v = extreme_u64(rng);
        let c = if v == u64::MAX {
            "max"
        } else if v > i64::MAX as u64 {
            "above-i64"
        } else if v > 1 << 53 {
            "above-2^53"
        } else {
            "small"
        };
        (v, c.into())
    }
}

impl BodyGen for i64 {
    const NAME: &'static str = "i64";
    fn gen(rng: &mut Rng) -> (Self, String) {
        let v = extreme_i64(rng);
        let c = if v == i64::MIN {
            "min"
        } else if v == i64::MAX {
            "max"
        } else if v < 0 {
            "negative"
        } else {
            "nonneg"
        };
        (v, c.into())
    }
}

impl BodyGen for f64 {
    const NAME: &'static str = "f64";
    fn gen(rng: &mut Rng) -> (Self, String) {
        let (f, c) = extreme_f64(rng);
        (f, c.into())
    }
}

impl BodyGen for String {
    const NAME: &'static str = "string";
    fn gen(rng: &mut Rng) -> (Self, String) {
        let (s, c) = any_string(rng);
        (s, c.into())
    }
}

impl BodyGen for Option<String> {
    const NAME: &'static str = "opt-string";
    fn gen(rng: &mut Rng) -> (Self, String) {
        if rng.chance(1, 3) {
            (None, "none".into())
        } else {
            let (s, c) = any_string(rng);
            (Some(s), format!("some-{c}"))
        }
    }
}

fn len_class(n: usize) -> &'static str {
    match n {
        0 => "empty",
        1 => "one",
        2..=9 => "few",
        _ => "many",
    }
}

fn vec_len(rng: &mut Rng) -> usize {
    match rng.below(6) {
        0 => 0,
        1 => 1,
        2..=4 => 2 + rng.usize(6),
        _ => 10 + rng.usize(200),
    }
}

impl BodyGen for Vec<i64> {
    const NAME: &'static str = "vec-i64";
    fn gen(rng: &mut Rng) -> (Self, String) {
        let n = vec_len(rng);
        ((0..n).map(|_| extreme_i64(rng)).collect(), len_class(n).into())
    }
}

impl BodyGen for Vec<String> {
    const NAME: &'static str = "vec-string";
    fn gen(rng: &mut Rng) -> (Self, String) {
        let n = vec_len(rng);
        ((0..n).map(|_| any_string(rng).0).collect(), len_class(n).into())
    }
}

impl BodyGen for Vec<Option<f64>> {
    const NAME: &'static str = "vec-opt-f64";
    fn gen(rng: &mut Rng) -> (Self, String) {
        let n = vec_len(rng);
        (
            (0..n).map(|_| if rng.chance(1, 4) { None } else { Some(extreme_f64(rng).0) }).collect(),
            len_class(n).into(),
        )
    }
}

impl BodyGen for BTreeMap<String, String> {
    const NAME: &'static str = "map-string";
    fn gen(rng: &mut Rng) -> (Self, String) {
        let n = vec_len(rng).min(40);
        let m: BTreeMap<String, String> = (0..n).map(|_| (any_string(rng).0, any_string(rng).0)).collect();
        let c = len_class(m.len());
        (m, c.into())
    }
}

impl BodyGen for BTreeMap<i32, Vec<u8>> {
    const NAME: &'static str = "map-intkey";
    fn gen(rng: &mut Rng) -> (Self, String) {
        let n = vec_len(rng).min(40);
        let m: BTreeMap<i32, Vec<u8>> = (0..n)
            .map(|_| {
                let k = *rng.pick(&[0, -1, i32::MIN, i32::MAX, 7, 42, 1000]) ^ (rng.below(4) as i32);
                let l = rng.usize(5);
                (k, rng.bytes(l))
            })
            .collect();
        let c = len_class(m.len());
        (m, c.into())
    }
}

#[derive(Serialize, Deserialize, JsonSchema, Debug, Clone, PartialEq)]
pub struct Inner {
    pub id: u64,
    pub neg: i64,
    pub small: u8,
    pub ratio: f64,
    pub name: String,
    pub ch: char,
    #[serde(rename = "weird key \u{2603} \"q\"")]
    pub weird: bool,
    #[serde(skip_serializing_if = "Option::is_none")]
    pub maybe: Option<i32>,
    pub nullable: Option<String>,
    pub pair: (i16, String),
}

pub fn gen_inner(rng: &mut Rng) -> Inner {
    Inner {
        id: extreme_u64(rng),
        neg: extreme_i64(rng),
        small: *rng.pick(&[0, 1, 127, 128, 255]),
        ratio: finite_f64(rng).0,
        name: any_string(rng).0,
        ch: *rng.pick(&['a', '\0', '"', '\\', '\n', '\u{7f}', '\u{e9}', '\u{2028}', '\u{ffff}', '\u{1f600}', '\u{10ffff}']),
        weird: rng.bool(),
        maybe: if rng.bool() { Some(rng.range(i32::MIN as i64, i32::MAX as i64) as i32) } else { None },
        nullable: if rng.bool() { Some(any_string(rng).0) } else { None },
        pair: (*rng.pick(&[i16::MIN, -1, 0, i16::MAX]), any_string(rng).0),
    }
}

#[derive(Serialize, Deserialize, JsonSchema, Debug, Clone, PartialEq)]
pub struct Wrapper(pub i64, pub String);

#[derive(Serialize, Deserialize, JsonSchema, Debug, Clone, PartialEq)]
pub struct Newtype(pub String);

#[derive(Serialize, Deserialize, JsonSchema, Debug, Clone, PartialEq)]
pub struct Nested {
    pub inner: Inner,
    pub list: Vec<Inner>,
    pub opt: Option<Inner>,
    pub map: BTreeMap<String, Inner>,
    pub tuple_struct: Wrapper,
    pub newtype: Newtype,
    pub unit: (),
    pub deep: Vec<Vec<Option<BTreeMap<String, Vec<u32>>>>>,
}

impl BodyGen for Nested {
    const NAME: &'static str = "nested-struct";
    fn gen(rng: &mut Rng) -> (Self, String) {
        let nl = rng.usize(4);
        let nm = rng.usize(4);
        let v = Nested {
            inner: gen_inner(rng),
            list: (0..nl).map(|_| gen_inner(rng)).collect(),
            opt: if rng.bool() { Some(gen_inner(rng)) } else { None },
            map: (0..nm).map(|_| (any_string(rng).0, gen_inner(rng))).collect(),
            tuple_struct: Wrapper(extreme_i64(rng), any_string(rng).0),
            newtype: Newtype(any_string(rng).0),
            unit: (),
            deep: (0..rng.usize(3))
                .map(|_| {
                    (0..rng.usize(3))
                        .map(|_| {
                            if rng.bool() {
                                None
                            } else {
                                Some((0..rng.usize(3)).map(|_| (any_string(rng).0, vec![0, u32::MAX, rng.next() as u32])).collect())
                            }
                        })
                        .collect()
                })
                .collect(),
        };
        let c = format!("list-{}|opt-{}|map-{}", len_class(nl), v.opt.is_some(), len_class(v.map.len()));
        (v, c)
    }
}

#[derive(Serialize, Deserialize, JsonSchema, Debug, Clone, PartialEq)]
pub enum ExtE {
    Unit,
    #[serde(rename = "re-named \u{e9}")]
    Renamed,
    Newtype(String),
    Tuple(i64, String),
    Struct { a: u64, b: Option<String> },
}

#[derive(Serialize, Deserialize, JsonSchema, Debug, Clone, PartialEq)]
#[serde(tag = "type", rename_all = "snake_case")]
pub enum IntE {
    PlainUnit,
    WithFields { x: f64, label: String },
}

#[derive(Serialize, Deserialize, JsonSchema, Debug, Clone, PartialEq)]
#[serde(tag = "t", content = "c")]
pub enum AdjE {
    A,
    B(Vec<String>),
    C { k: i64 },
}

#[derive(Serialize, Deserialize, JsonSchema, Debug, Clone, PartialEq)]
#[serde(untagged)]
pub enum UntE {
    Num(u64),
    Text(String),
    List(Vec<i64>),
    Obj { only: bool },
}

#[derive(Serialize, Deserialize, JsonSchema, Debug, Clone, PartialEq)]
pub struct Enums {
    pub ext: ExtE,
    pub int: IntE,
    pub adj: AdjE,
    pub unt: UntE,
    pub many: Vec<ExtE>,
}

pub fn gen_ext(rng: &mut Rng) -> (ExtE, &'static str) {
    match rng.below(5) {
        0 => (ExtE::Unit, "unit"),
        1 => (ExtE::Renamed, "renamed"),
        2 => (ExtE::Newtype(any_string(rng).0), "newtype"),
        3 => (ExtE::Tuple(extreme_i64(rng), any_string(rng).0), "tuple"),
        _ => (
            ExtE::Struct { a: extreme_u64(rng), b: if rng.bool() { Some(any_string(rng).0) } else { None } },
            "struct",
        ),
    }
}

impl BodyGen for Enums {
    const NAME: &'static str = "enums";
    fn gen(rng: &mut Rng) -> (Self, String) {
        let (ext, ec) = gen_ext(rng);
        let (int, ic) = if rng.bool() {
            (IntE::PlainUnit, "unit")
        } else {
            (IntE::WithFields { x: finite_f64(rng).0, label: any_string(rng).0 }, "fields")
        };
        let (adj, ac) = match rng.below(3) {
            0 => (AdjE::A, "a"),
            1 => (AdjE::B((0..rng.usize(3)).map(|_| any_string(rng).0).collect()), "b"),
            _ => (AdjE::C { k: extreme_i64(rng) }, "c"),
        };
        let (unt, uc) = match rng.below(4) {
            0 => (UntE::Num(extreme_u64(rng)), "num"),
            1 => (UntE::Text(any_string(rng).0), "text"),
            2 => (UntE::List((0..rng.usize(4)).map(|_| extreme_i64(rng)).collect()), "list"),
            _ => (UntE::Obj { only: rng.bool() }, "obj"),
        };
        let many = (0..rng.usize(4)).map(|_| gen_ext(rng).0).collect();
        (Enums { ext, int, adj, unt, many }, format!("{ec}|{ic}|{ac}|{uc}"))
    }
}

#[derive(Serialize, Deserialize, JsonSchema, Debug, Clone, PartialEq)]
pub struct F32s {
    pub a: f32,
    pub b: Vec<f32>,
}

impl BodyGen for F32s {
    const NAME: &'static str = "f32s";
    const FLOAT: FloatMode = FloatMode::F32;
    fn gen(rng: &mut Rng) -> (Self, String) {
        let one = |rng: &mut Rng| -> f32 {
            match rng.below(8) {
                0 => 0.1,
                1 => f32::MAX,
                2 => f32::MIN_POSITIVE,
                3 => -0.0,
                4 => f32::from_bits(1 + rng.below(100) as u32),
                5 => *rng.pick(&[f32::NAN, f32::INFINITY]),
                6 => rng.range(-100, 100) as f32 / 4.0,
                _ => {
                    let f = f32::from_bits(rng.next() as u32);
                    if f.is_finite() {
                        f
                    } else {
                        1.5
                    }
                }
            }
        };
        let a = one(rng);
        let n = rng.usize(5);
        let b = (0..n).map(|_| one(rng)).collect();
        (F32s { a, b }, (if a.is_finite() { "finite" } else { "nonfinite" }).into())
    }
}

impl BodyGen for serde_json::Value {
    const NAME: &'static str = "json-value";
    fn gen(rng: &mut Rng) -> (Self, String) {
        let v = json_tree(rng, 4);
        let c = match &v {
            serde_json::Value::Null => "null",
            serde_json::Value::Bool(_) => "bool",
            serde_json::Value::Number(_) => "number",
            serde_json::Value::String(_) => "string",
            serde_json::Value::Array(_) => "array",
            serde_json::Value::Object(_) => "object",
        };
        (v, c.into())
    }
}

// -------------------------------------------------------- 128-bit integers

use crate::c14::{wide_i128, wide_u128};
use crate::jsonp::J;

fn jn<T: std::fmt::Display>(n: T) -> J {
    J::Num(n.to_string())
}

#[derive(Serialize, Deserialize, JsonSchema, Debug, Clone, PartialEq)]
pub struct WideBody {
    pub id: u128,
    pub offset: i128,
    pub name: String,
    pub more: Vec<u128>,
    pub maybe: Option<i128>,
    pub by_name: BTreeMap<String, i128>,
    pub small: u64,
}

impl BodyGen for WideBody {
    const NAME: &'static str = "struct-128-bit";
    fn gen(rng: &mut Rng) -> (Self, String) {
        let (id, ic) = wide_u128(rng);
        let (offset, oc) = wide_i128(rng);
        let n = rng.usize(4);
        let m = rng.usize(3);
        let v = WideBody {
            id,
            offset,
            name: any_string(rng).0,
            more: (0..n).map(|_| wide_u128(rng).0).collect(),
            maybe: if rng.bool() { Some(wide_i128(rng).0) } else { None },
            by_name: (0..m).map(|i| (format!("k{i}"), wide_i128(rng).0)).collect(),
            small: extreme_u64(rng),
        };
        (v, format!("u128:{ic}|i128:{oc}"))
    }
    fn exact(&self) -> Option<J> {
        Some(J::Obj(vec![
            ("id".into(), jn(self.id)),
            ("offset".into(), jn(self.offset)),
            ("name".into(), J::Str(self.name.clone())),
            ("more".into(), J::Arr(self.more.iter().map(jn).collect())),
            ("maybe".into(), self.maybe.map(jn).unwrap_or(J::Null)),
            ("by_name".into(), J::Obj(self.by_name.iter().map(|(k, v)| (k.clone(), jn(v))).collect())),
            ("small".into(), jn(self.small)),
        ]))
    }
}

impl BodyGen for u128 {
    const NAME: &'static str = "u128";
    fn gen(rng: &mut Rng) -> (Self, String) {
        let (v, c) = wide_u128(rng);
        (v, c.into())
    }
    fn exact(&self) -> Option<J> {
        Some(jn(self))
    }
}

impl BodyGen for Vec<i128> {
    const NAME: &'static str = "vec-i128";
    fn gen(rng: &mut Rng) -> (Self, String) {
        let n = 1 + rng.usize(5);
        let v: Vec<i128> = (0..n).map(|_| wide_i128(rng).0).collect();
        let beyond = v.iter().any(|x| *x < i64::MIN as i128 || *x > u64::MAX as i128);
        (v, (if beyond { "beyond-64-bit" } else { "within-64-bit" }).into())
    }
    fn exact(&self) -> Option<J> {
        Some(J::Arr(self.iter().map(jn).collect()))
    }
}

// -------------------------------------------------------- declared headers

#[derive(Serialize, JsonSchema, Debug, Clone)]
pub struct H1 {
    #[serde(rename = "x-vmon-a")]
    pub a: String,
}

#[derive(Serialize, JsonSchema, Debug, Clone)]
pub struct H3 {
    #[serde(rename = "x-vmon-a")]
    pub a: String,
    /// declared with capitals: header names are case-insensitive
    #[serde(rename = "X-Vmon-B")]
    pub b: String,
    /// an optional header: absent from the response when empty (the only way to declare
    /// one, the header serializer accepts strings only), so the set of header names of
    /// this type varies from response to response
    #[serde(rename = "ETag", skip_serializing_if = "String::is_empty")]
    pub etag: String,
}


/// A value whose serialisation fails AFTER part of it has been written (first field
/// out, then an error).  Responses / page selectors made of it are never judged
/// themselves; they are thrown in between judged cases so that whatever a failed
/// serialisation leaves behind meets the next, judged, serialisation.
#[derive(Clone, Debug, Deserialize, JsonSchema)]
pub struct Poison {
    pub a: String,
    #[allow(dead_code)]
    pub b: u32,
}

impl Serialize for Poison {
    fn serialize<S: serde::Serializer>(&self, s: S) -> Result<S::Ok, S::Error> {
        use serde::ser::{Error, SerializeStruct};
        let mut st = s.serialize_struct("Poison", 2)?;
        st.serialize_field("a", &self.a)?;
        Err(S::Error::custom("vmon: deliberately unserialisable after the first field"))
    }
}
