//! Running a live engine in rounds: each round has its own server (tokio
//! worker count varies 4/1/2/16, handler task mode alternates), its own event log, and a set of client
//! threads each driving one keep-alive connection.  Rounds bound the memory of
//! the event log in the thorough tier and exercise several server instances.

use dropshot::ApiDescription;
use std::net::SocketAddr;
use vmon::evlog::EvLog;
use vmon::report::Report;
use vmon::srv::{SrvCfg, C};

pub const ROUND_MAX_PER_THREAD: u64 = 40_000;

pub struct Plan {
    pub property: &'static str,
    pub engine: &'static str,
    pub rule: &'static str,
    pub seed: u64,
    pub threads: usize,
    pub cases_per_thread: u64,
    pub body_max: usize,
}

/// `client(rep, addr, seed, shard, first_case, cases)` returns what it saw;
/// `after_round(rep, log, seen)` runs the history checks of one round.
pub fn rounds<T: Send + 'static>(
    plan: &Plan,
    build_api: fn() -> Result<ApiDescription<C>, String>,
    client: fn(&mut Report, SocketAddr, u64, u64, u64, u64) -> Vec<T>,
    after_round: &mut dyn FnMut(&mut Report, &EvLog, Vec<T>),
) -> Report {
    let mut rep = Report::new(plan.property, plan.engine, plan.rule);
    let nrounds = plan.cases_per_thread.div_ceil(ROUND_MAX_PER_THREAD).max(2);
    let per_round = plan.cases_per_thread.div_ceil(nrounds);
    let mut first = 0u64;
    for round in 0..nrounds {
        let cases = per_round.min(plan.cases_per_thread.saturating_sub(first));
        if cases == 0 {
            break;
        }
        let api = match build_api() {
            Ok(a) => a,
            Err(e) => {
                rep.inconclusive(&format!("harness API not accepted: {e}"));
                return rep;
            }
        };
        let log = EvLog::new();
        let ctx = vmon::srv::Ctx::new(log.clone());
        let workers = [4usize, 1, 2, 16][(round % 4) as usize];
        // both handler task modes, alternating by round
        let mode = if round % 2 == 0 { dropshot::HandlerTaskMode::Detached } else { dropshot::HandlerTaskMode::CancelOnDisconnect };
        let cfg = SrvCfg { workers, body_max: plan.body_max, mode, ..Default::default() };
        let mut running = match vmon::srv::start(api, ctx, &cfg) {
            Ok(r) => r,
            Err(e) => {
                rep.inconclusive(&format!("server start: {e}"));
                return rep;
            }
        };
        rep.count(&format!("server-instances:workers-{workers}"), 1);
        rep.count(if round % 2 == 0 { "server-instances:detached" } else { "server-instances:cancel-on-disconnect" }, 1);
        let addr = running.addr;
        let (property, engine, rule, seed) = (plan.property, plan.engine, plan.rule, plan.seed);
        let hs: Vec<_> = (0..plan.threads)
            .map(|t| {
                std::thread::Builder::new()
                    .name(format!("client{t}"))
                    .spawn(move || {
                        let mut r = Report::new(property, engine, rule);
                        let seen = client(&mut r, addr, seed, t as u64, first, cases);
                        (r, seen)
                    })
                    .unwrap()
            })
            .collect();
        let mut all: Vec<T> = vec![];
        for h in hs {
            match h.join() {
                Ok((r, seen)) => {
                    rep.merge(r);
                    all.extend(seen);
                }
                Err(_) => rep.inconclusive("a harness client thread panicked"),
            }
        }
        match running.close() {
            Some(Ok(())) => rep.count("server-closed-cleanly", 1),
            other => rep.inconclusive(&format!("server close: {other:?}")),
        }
        after_round(&mut rep, &log, all);
        first += cases;
    }
    rep
}
