//! vmon_resp: monitors for C12 (typed responses), C13 (error contract, request
//! ids, status types) and C14 (page tokens, limits).  See ../CONTRIBUTING.md.
use vmon::report::Report;

mod c12;
mod c13;
mod c14;
mod gen;
mod jsonp;
mod live;
mod types;

pub struct Args {
    pub engine: String,
    pub seed: u64,
    pub tier: String,
    pub out: String,
    pub threads: usize,
}

fn usage() -> ! {
    eprintln!("usage: <bin> <engine> --seed N --tier quick|thorough --out FILE [--threads N]");
    std::process::exit(2)
}

fn parse_args() -> Args {
    let mut a = std::env::args().skip(1);
    let engine = a.next().unwrap_or_else(|| usage());
    let mut args = Args { engine, seed: 1, tier: "quick".into(), out: String::new(), threads: 16 };
    while let Some(k) = a.next() {
        match k.as_str() {
            "--seed" => args.seed = a.next().and_then(|s| s.parse().ok()).unwrap_or_else(|| usage()),
            "--tier" => args.tier = a.next().unwrap_or_else(|| usage()),
            "--out" => args.out = a.next().unwrap_or_else(|| usage()),
            "--threads" => args.threads = a.next().and_then(|s| s.parse().ok()).unwrap_or_else(|| usage()),
            _ => usage(),
        }
    }
    args
}

/// run `f(shard)` on `n` threads and merge the reports
fn sharded<F>(n: usize, f: F) -> Report
where
    F: Fn(u64) -> Report + Send + Sync + 'static,
{
    let f = std::sync::Arc::new(f);
    let hs: Vec<_> = (0..n)
        .map(|i| {
            let f = f.clone();
            std::thread::Builder::new()
                .name(format!("shard{i}"))
                .stack_size(16 << 20)
                .spawn(move || f(i as u64))
                .unwrap()
        })
        .collect();
    let mut it = hs.into_iter();
    let mut rep = it.next().unwrap().join().expect("shard thread panicked");
    for h in it {
        rep.merge(h.join().expect("shard thread panicked"));
    }
    rep
}

fn main() {
    vmon::panics::install();
    let args = parse_args();
    let t0 = std::time::Instant::now();
    let quick = args.tier != "thorough";
    let seed = args.seed;
    let n = args.threads.max(1);
    // live engines: client threads (each one keep-alive connection at a time)
    let clients = (n / 2).clamp(2, 16);
    let scale: u64 = if quick { 1 } else { 100 };
    let engine = args.engine.clone();
    let run = move || -> Report {
        match engine.as_str() {
        "c12-inproc" => {
            // quick 3.2e5 cases, thorough 9.6e6 (16 shards)
            let cases = if quick { 20_000 } else { 600_000 };
            sharded(n, move |s| c12::run_inproc(seed, s, cases))
        }
        "c12-live" => c12::run_live(seed, clients, 5_000 * scale),
        "c13-inproc" => {
            let cases = 20_000 * scale;
            let mut rep = sharded(n, move |s| c13::run_errors(seed, s, cases));
            let ex = c13::run_status_exhaustive();
            rep.engine = "E1-into_response+status-types-exhaustive".into();
            rep.rule = format!("(a) {} (b) {}", c13::RULE_ERRORS, c13::RULE_STATUS);
            rep.extra.insert(
                "exhaustive_scope".into(),
                serde_json::json!("part (b) only: the status refinement types over all u16 / all StatusCodes / all 3-digit strings"),
            );
            rep.merge(ex);
            rep
        }
        "c13-errors" => {
            let cases = 20_000 * scale;
            sharded(n, move |s| c13::run_errors(seed, s, cases))
        }
        "c13-status" => c13::run_status_exhaustive(),
        "c13-live" => c13::run_live(seed, clients, 5_000 * scale),
        "c14-inproc" => {
            let (cases, mutated) = if quick { (4_000, 2) } else { (250_000, 64) };
            sharded(n, move |s| c14::run_inproc(seed, s, cases, mutated))
        }
        "c14-live" => c14::run_live(seed, clients, 5_000 * scale),
        _ => usage(),
        }
    };
    // a panic of the harness itself (not inside catch_quiet) must be visible
    let mut rep: Report = match std::panic::catch_unwind(run) {
        Ok(r) => r,
        Err(_) => {
            for p in vmon::panics::unexpected() {
                eprintln!("harness panic at {} [{}]: {}", p.location, p.thread, p.message);
            }
            std::process::exit(3);
        }
    };
    for p in vmon::panics::take_unexpected() {
        rep.violate(
            format!("{}:unexpected-panic", rep.property),
            serde_json::json!({"location": p.location, "message": p.message, "thread": p.thread}),
        );
    }
    let mut j = rep.to_json();
    j["wall_s"] = serde_json::json!(t0.elapsed().as_secs_f64());
    j["seed"] = serde_json::json!(args.seed);
    j["tier"] = serde_json::json!(args.tier);
    let text = serde_json::to_string_pretty(&j).unwrap();
    if args.out.is_empty() {
        println!("{text}");
    } else {
        std::fs::write(&args.out, text).expect("write report");
    }
}
