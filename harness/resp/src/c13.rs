//! C13 — one error contract, nothing internal leaks, request ids, and the
//! 400-599 boundary of the error-status types.

use crate::gen::*;
use crate::jsonp::{self, J};
use dropshot::{
    ApiDescription, ClientErrorStatusCode, ErrorStatusCode, HttpError, HttpResponseError, HttpResponseHeaders,
    HttpResponseOk, HttpResponseSeeOther, HttpResponseUpdatedNoContent, Query, RequestContext, TypedBody,
};
use http::{HeaderMap, HeaderName, HeaderValue};
use http_body_util::BodyExt;
use schemars::JsonSchema;
use serde::{Deserialize, Serialize};
use serde_json::{json, Value};
use std::collections::{BTreeMap, HashMap, HashSet};
use std::str::FromStr;
use vmon::client::{Conn, Req, Resp};
use vmon::report::Report;
use vmon::rng::Rng;
use vmon::srv::C;

pub const CTORS: &[&str] = &[
    "for_client_error",
    "for_internal_error",
    "for_unavail",
    "for_bad_request",
    "for_client_error_with_status",
    "for_not_found",
    "struct-literal",
];
/// does the constructor take separate internal text (so that a marker planted
/// in it must never be sent)?
const SEPARATES: &[bool] = &[false, true, true, false, false, true, true];

const HNAMES: &[&str] = &["x-vmon-h1", "x-vmon-h2", "retry-after", "www-authenticate", "allow", "location", "x-vmon-h3"];

/// a fully determined error case (rebuilt identically by the live handler)
#[derive(Debug, Clone)]
pub struct ErrCase {
    pub ctor: usize,
    pub status: u16,
    pub code: Option<String>,
    pub code_class: &'static str,
    /// external text for constructors that take a message; for struct-literal the external_message
    pub message: String,
    pub msg_class: &'static str,
    /// internal text (contains the marker) for constructors that separate
    pub internal: String,
    pub marker: String,
    pub headers: Vec<(&'static str, Vec<u8>)>,
    pub hdr_class: &'static str,
    /// how the headers are attached: add_header / with_header / headers_mut / struct
    pub attach: &'static str,
    pub request_id: String,
}

fn gen_request_id(rng: &mut Rng) -> String {
    match rng.below(4) {
        0 => {
            let b = rng.bytes(16);
            format!("{}-{}-{}-{}-{}", hex(&b[0..4]), hex(&b[4..6]), hex(&b[6..8]), hex(&b[8..10]), hex(&b[10..16]))
        }
        1 => format!("{}", rng.next()),
        _ => (0..1 + rng.usize(50))
            .map(|_| *rng.pick(b"abcdefghijklmnopqrstuvwxyzABCDEFGHIJKLMNOPQRSTUVWXYZ0123456789-_.:/") as char)
            .collect(),
    }
}

impl ErrCase {
    /// `live`: restrict to what a handler can raise without taking the
    /// connection down (no status that makes a constructor panic, see D8)
    pub fn gen(rng: &mut Rng, live: bool) -> ErrCase {
        let ctor = rng.usize(CTORS.len());
        let client_status = |rng: &mut Rng| -> u16 {
            match rng.below(4) {
                0 => *rng.pick(&[400u16, 401, 403, 404, 405, 409, 410, 418, 422, 429, 451, 499]),
                _ => rng.range(400, 499) as u16,
            }
        };
        let status = match ctor {
            0 => client_status(rng),
            1 => 500,
            2 => 503,
            3 => 400,
            4 => loop {
                let s = client_status(rng);
                if !live || http::StatusCode::from_u16(s).unwrap().canonical_reason().is_some() {
                    break s;
                }
            },
            5 => 404,
            _ => match rng.below(3) {
                0 => client_status(rng),
                1 => *rng.pick(&[500u16, 501, 502, 503, 504, 507, 511, 599]),
                _ => rng.range(400, 599) as u16,
            },
        };
        let (code, code_class) = match rng.below(4) {
            0 => (None, "none"),
            1 => (Some(rng.pick(&["ObjectNotFound", "InvalidRequest", "Internal", "E1234"]).to_string()), "plain"),
            2 => (Some(String::new()), "empty"),
            _ => (Some(any_string(rng).0), "any-unicode"),
        };
        let code = if matches!(ctor, 1) { None } else { code };
        let code_class = if matches!(ctor, 1) { "n/a" } else { code_class };
        let (message, msg_class) = any_string(rng);
        let marker = format!("VMONSECRET{}X", hex(&rng.bytes(8)));
        let internal = format!("{}{}{}", any_string(rng).0, marker, any_string(rng).0);
        let mut headers: Vec<(&'static str, Vec<u8>)> = vec![];
        let hv = |rng: &mut Rng| -> Vec<u8> {
            if rng.chance(1, 8) {
                let mut v = b"b".to_vec();
                for _ in 0..1 + rng.usize(6) {
                    v.push(rng.range(0x80, 0xff) as u8);
                }
                v.push(b'e');
                v
            } else {
                legal_header_value(rng).0.into_bytes()
            }
        };
        let hdr_class = match rng.below(5) {
            0 | 1 => "none",
            2 => {
                headers.push((*rng.pick(HNAMES), hv(rng)));
                "one"
            }
            3 => {
                let mut names = HNAMES.to_vec();
                rng.shuffle(&mut names);
                for n in names.iter().take(2 + rng.usize(3)) {
                    headers.push((*n, hv(rng)));
                }
                "several-names"
            }
            _ => {
                let n = *rng.pick(HNAMES);
                for _ in 0..2 + rng.usize(2) {
                    headers.push((n, hv(rng)));
                }
                if rng.bool() {
                    headers.push((*rng.pick(HNAMES), hv(rng)));
                }
                "multi-valued"
            }
        };
        let attach = if headers.is_empty() {
            "no-headers"
        } else {
            *rng.pick(&["add_header", "with_header", "headers_mut", "struct-field"])
        };
        ErrCase {
            ctor,
            status,
            code,
            code_class,
            message,
            msg_class,
            internal,
            marker,
            headers,
            hdr_class,
            attach,
            request_id: gen_request_id(rng),
        }
    }

    /// build with the real constructor (may panic: caller decides how to run it)
    pub fn build(&self) -> HttpError {
        let client = || ClientErrorStatusCode::from_u16(self.status).expect("generator made a 4xx");
        let mut e = match self.ctor {
            0 => HttpError::for_client_error(self.code.clone(), client(), self.message.clone()),
            1 => HttpError::for_internal_error(self.internal.clone()),
            2 => HttpError::for_unavail(self.code.clone(), self.internal.clone()),
            3 => HttpError::for_bad_request(self.code.clone(), self.message.clone()),
            4 => HttpError::for_client_error_with_status(self.code.clone(), client()),
            5 => HttpError::for_not_found(self.code.clone(), self.internal.clone()),
            _ => HttpError {
                status_code: ErrorStatusCode::from_u16(self.status).expect("generator made a 4xx/5xx"),
                error_code: self.code.clone(),
                external_message: self.message.clone(),
                internal_message: self.internal.clone(),
                headers: None,
            },
        };
        let val = |v: &[u8]| HeaderValue::from_bytes(v).expect("generator made a legal value");
        match self.attach {
            "add_header" => {
                for (n, v) in &self.headers {
                    e.add_header(*n, val(v)).expect("legal header refused by add_header");
                }
            }
            "with_header" => {
                for (n, v) in &self.headers {
                    e = e.with_header(*n, val(v)).expect("legal header refused by with_header");
                }
            }
            "headers_mut" => {
                for (n, v) in &self.headers {
                    e.headers_mut().append(HeaderName::from_static(n), val(v));
                }
            }
            "struct-field" => {
                let mut m = HeaderMap::new();
                for (n, v) in &self.headers {
                    m.append(HeaderName::from_static(n), val(v));
                }
                e.headers = Some(Box::new(m));
            }
            _ => {}
        }
        e
    }

    pub fn class(&self) -> String {
        let st = http::StatusCode::from_u16(self.status).unwrap();
        format!(
            "{}|{}{}|code:{}|msg:{}|hdr:{}:{}",
            CTORS[self.ctor],
            if self.status < 500 { "4xx" } else { "5xx" },
            if st.canonical_reason().is_some() { "" } else { "-no-canonical-reason" },
            self.code_class,
            if matches!(self.ctor, 0 | 3 | 6) { self.msg_class } else { "n/a" },
            self.hdr_class,
            self.attach
        )
    }

    pub fn json(&self) -> Value {
        json!({
            "constructor": CTORS[self.ctor], "status": self.status, "error_code": self.code.as_deref().map(show),
            "message": show(&self.message), "internal_message": show(&self.internal), "marker": self.marker,
            "headers": self.headers.iter().map(|(n, v)| json!([n, hex(v)])).collect::<Vec<_>>(),
            "attach": self.attach, "request_id": self.request_id,
        })
    }

    /// (expected status, expected external message if the text states it, expected error_code if stated)
    pub fn stated(&self) -> (u16, Option<String>, Option<Option<String>>) {
        match self.ctor {
            0 | 3 | 6 => (self.status, Some(self.message.clone()), Some(self.code.clone())),
            1 => (500, None, None),
            2 => (503, None, Some(self.code.clone())),
            4 => (self.status, None, Some(self.code.clone())),
            _ => (404, None, Some(self.code.clone())),
        }
    }
}

fn contains(hay: &[u8], needle: &[u8]) -> bool {
    vmon::client::find(hay, needle).is_some()
}

/// judge an error response in framework format.  `headers`: (lower-case name, value)
#[allow(clippy::too_many_arguments)]
fn judge_error(
    rep: &mut Report,
    case: &ErrCase,
    fields: Option<(u16, &Option<String>, &str)>,
    status: u16,
    headers: &[(String, Vec<u8>)],
    reason: &str,
    body: &[u8],
    request_id: &str,
    ctx: &Value,
) -> bool {
    let mut ok = true;
    let cname = CTORS[case.ctor];
    let mut bad = |rep: &mut Report, sig: String, extra: Value| {
        ok = false;
        rep.violate(sig, json!({"case": ctx, "error": case.json(), "observed_status": status, "detail": extra}));
    };
    let (st_status, st_msg, st_code) = case.stated();
    // what the response must show: the error's own fields (when we could read
    // them) and what the constructor's contract states
    let want_status = fields.map(|f| f.0).unwrap_or(st_status);
    if let Some((fs, _, _)) = fields {
        if fs != st_status {
            bad(rep, format!("C13:constructor-status-differs:{cname}"), json!({"field": fs, "stated": st_status}));
        }
    }
    if status != want_status {
        bad(rep, format!("C13:response-status-differs:{cname}"), json!({"expected": want_status}));
    }
    let ct: Vec<&Vec<u8>> = headers.iter().filter(|(n, _)| n == "content-type").map(|(_, v)| v).collect();
    if ct.len() != 1 || !crate::gen::is_json_media_type(ct[0].as_slice()) {
        bad(rep, "C13:error-content-type-not-json".into(), json!({"content_type": ct.iter().map(|v| String::from_utf8_lossy(v).to_string()).collect::<Vec<_>>()}));
    }
    match jsonp::parse(body) {
        Err(e) => bad(rep, "C13:error-body-not-json".into(), json!({"parse_error": e, "body": show(&String::from_utf8_lossy(body))})),
        Ok(j) => {
            if !matches!(j, J::Obj(_)) {
                bad(rep, "C13:error-body-not-an-object".into(), json!({"body": show(&String::from_utf8_lossy(body))}));
            }
            let want_msg: Option<String> = fields.map(|f| f.2.to_string()).or(st_msg.clone());
            if let (Some((_, _, fm)), Some(sm)) = (fields, &st_msg) {
                if fm != sm {
                    bad(rep, format!("C13:constructor-external-message-differs:{cname}"), json!({"field": show(fm), "given": show(sm)}));
                }
            }
            match (j.get("message").and_then(|m| m.as_str()), &want_msg) {
                (Some(got), Some(want)) if got != want => {
                    bad(rep, format!("C13:body-message-differs:{cname}"), json!({"got": show(got), "want": show(want)}))
                }
                (None, _) => bad(rep, "C13:body-message-missing".into(), json!({"body": show(&String::from_utf8_lossy(body))})),
                _ => {}
            }
            let want_code: Option<Option<String>> = fields.map(|f| f.1.clone()).or(st_code.clone());
            if let (Some((_, fc, _)), Some(sc)) = (fields, &st_code) {
                if fc != sc {
                    bad(rep, format!("C13:constructor-error-code-differs:{cname}"), json!({"field": fc, "given": sc}));
                }
            }
            if let Some(want) = want_code {
                let got = j.get("error_code");
                match (&want, got) {
                    (None, None) => {}
                    (None, Some(g)) => bad(rep, "C13:error-code-present-when-none".into(), json!({"got": format!("{g:?}")})),
                    (Some(w), Some(J::Str(g))) if w == g => {}
                    (Some(w), g) => bad(rep, format!("C13:body-error-code-differs:{cname}"), json!({"want": show(w), "got": format!("{g:?}")})),
                }
            }
            match j.get("request_id").and_then(|m| m.as_str()) {
                Some(got) if got == request_id => {}
                got => bad(rep, "C13:body-request-id-differs".into(), json!({"got": got, "want": request_id})),
            }
        }
    }
    // attached headers
    let mut want: BTreeMap<&str, Vec<Vec<u8>>> = BTreeMap::new();
    for (n, v) in &case.headers {
        want.entry(n).or_default().push(v.clone());
    }
    for (n, vs) in want {
        let mut got: Vec<Vec<u8>> = headers.iter().filter(|(hn, _)| hn == n).map(|(_, v)| v.clone()).collect();
        let mut vs = vs;
        got.sort();
        vs.sort();
        if got != vs {
            bad(
                rep,
                format!("C13:attached-header-{}", if got.is_empty() { "missing" } else { "differs" }),
                json!({"name": n, "expected": vs.iter().map(|v| hex(v)).collect::<Vec<_>>(), "observed": got.iter().map(|v| hex(v)).collect::<Vec<_>>()}),
            );
        }
    }
    // no leak of the internal text
    if SEPARATES[case.ctor] {
        let m = case.marker.as_bytes();
        let leaked = contains(body, m)
            || contains(reason.as_bytes(), m)
            || headers.iter().any(|(n, v)| contains(n.as_bytes(), m) || contains(v, m));
        if leaked {
            bad(rep, format!("C13:internal-message-leaked:{cname}"), json!({"body": show(&String::from_utf8_lossy(body))}));
        }
    }
    ok
}

pub const RULE_ERRORS: &str = "random errors: constructor (6 public constructors + struct literal) x status (every 4xx for the \
     client constructors, every 4xx/5xx for the literal) x error code (none/plain/empty/any Unicode) x message (12 string classes) x \
     attached headers (none/one/several names/multi-valued; via add_header, with_header, headers_mut, struct field; reserved names \
     excluded) x request id -> real into_response(id), body collected; a unique marker is planted in internal_message; class = \
     (constructor, status class, code class, message class, header class:attach method)";

pub fn run_errors(seed: u64, shard: u64, cases: u64) -> Report {
    let mut rep = Report::new("C13", "E1-into_response", RULE_ERRORS);
    for c in 0..cases {
        let mut rng = Rng::derive(seed, "c13-inproc", shard, c);
        let case = ErrCase::gen(&mut rng, false);
        let ctx = json!({"seed": seed, "shard": shard, "case": c, "engine": "c13-inproc"});
        rep.eval(case.class());
        let c2 = case.clone();
        let built = vmon::panics::catch_quiet(move || c2.build());
        let err = match built {
            Ok(e) => e,
            Err(p) => {
                let st = http::StatusCode::from_u16(case.status).unwrap();
                let sig = if case.ctor == 4 && st.canonical_reason().is_none() {
                    "C13:constructor-panics-on-status-without-canonical-reason".to_string()
                } else {
                    format!("C13:constructor-panics:{}", CTORS[case.ctor])
                };
                rep.violate(sig, json!({"case": ctx, "error": case.json(), "panic_location": p.location, "panic_message": p.message}));
                rep.count("constructor-panics", 1);
                continue;
            }
        };
        rep.count(&format!("built:{}", CTORS[case.ctor]), 1);
        let f_status = err.status_code.as_u16();
        let f_code = err.error_code.clone();
        let f_ext = err.external_message.clone();
        if SEPARATES[case.ctor] && case.ctor != 6 && contains(f_ext.as_bytes(), case.marker.as_bytes()) {
            rep.violate(
                format!("C13:internal-message-leaked:{}", CTORS[case.ctor]),
                json!({"case": ctx, "error": case.json(), "detail": "external_message contains the internal text"}),
            );
        }
        let rid = case.request_id.clone();
        let resp = match vmon::panics::catch_quiet(std::panic::AssertUnwindSafe(move || err.into_response(&rid))) {
            Ok(r) => r,
            Err(p) => {
                rep.violate(
                    format!("C13:into_response-panics:{}", CTORS[case.ctor]),
                    json!({"case": ctx, "error": case.json(), "panic_location": p.location, "panic_message": p.message}),
                );
                continue;
            }
        };
        let (parts, body) = resp.into_parts();
        let body = match futures::executor::block_on(body.collect()) {
            Ok(b) => b.to_bytes().to_vec(),
            Err(e) => {
                rep.inconclusive(&format!("body collect failed: {e}"));
                continue;
            }
        };
        let headers: Vec<(String, Vec<u8>)> =
            parts.headers.iter().map(|(n, v)| (n.as_str().to_string(), v.as_bytes().to_vec())).collect();
        let ok = judge_error(
            &mut rep,
            &case,
            Some((f_status, &f_code, &f_ext)),
            parts.status.as_u16(),
            &headers,
            "",
            &body,
            &case.request_id,
            &ctx,
        );
        // the id header, when into_response sets one, is the given id
        let ids: Vec<&Vec<u8>> = headers.iter().filter(|(n, _)| n == "x-request-id").map(|(_, v)| v).collect();
        if ids.iter().any(|v| v.as_slice() != case.request_id.as_bytes()) {
            rep.violate(
                "C13:request-id-header-differs-from-given",
                json!({"case": ctx, "error": case.json(), "observed": ids.iter().map(|v| String::from_utf8_lossy(v).to_string()).collect::<Vec<_>>()}),
            );
        }
        if ok && rep.want_sample() && c % 11 == 0 {
            rep.sample(json!({"error": case.json(), "status": parts.status.as_u16(), "body": show(&String::from_utf8_lossy(&body))}));
        }
    }
    rep
}

// ------------------------------------------------------------------ exhaustive

fn region(n: u32) -> &'static str {
    match n {
        0..=99 => "0-99",
        100..=399 => "100-399",
        400..=499 => "400-499",
        500..=599 => "500-599",
        600..=999 => "600-999",
        _ => "1000-65535",
    }
}

pub const RULE_STATUS: &str = "EXHAUSTIVE: every u16 through from_u16 and TryFrom<u16>, every http::StatusCode (100..=999) through \
     from_status and TryFrom<StatusCode>, every 3-ASCII-digit string through from_bytes / FromStr / TryFrom<&str> / TryFrom<&[u8]>, every \
     ErrorStatusCode through as_client_error / TryFrom<ErrorStatusCode>, for both ErrorStatusCode (400..=599) and ClientErrorStatusCode \
     (400..=499): accepted iff in range and as_u16/as_status round-trip; plus every string of length 0..=4 over a 13-symbol alphabet \
     (digits, sign, blank, letter, NUL, non-ASCII) that is not 3 digits: if accepted the code must be in range; class = (type, entry \
     point, region, outcome)";

macro_rules! exhaust_type {
    ($rep:expr, $T:ident, $tname:expr, $lo:expr, $hi:expr) => {{
        let rep: &mut Report = $rep;
        let inr = |n: u32| ($lo..=$hi).contains(&n);
        let verdict = |rep: &mut Report, entry: &str, n: u32, input: String, got: Option<u16>| {
            let want = inr(n);
            rep.eval(format!("{}|{entry}|{}|{}", $tname, region(n), if got.is_some() { "accepted" } else { "refused" }));
            match got {
                Some(g) if !want => rep.violate(
                    format!("C13:{}:{entry}:accepts-code-outside-range", $tname),
                    json!({"input": input, "as_u16": g}),
                ),
                None if want => rep.violate(
                    format!("C13:{}:{entry}:refuses-code-inside-range", $tname),
                    json!({"input": input}),
                ),
                Some(g) if u32::from(g) != n => rep.violate(
                    format!("C13:{}:{entry}:value-changed", $tname),
                    json!({"input": input, "as_u16": g}),
                ),
                _ => {}
            }
        };
        for n in 0..=u16::MAX {
            let a = $T::from_u16(n).ok().map(|s| {
                debug_assert_eq!(s.as_status().as_u16(), s.as_u16());
                s.as_u16()
            });
            verdict(rep, "from_u16", n.into(), n.to_string(), a);
            let b = $T::try_from(n).ok().map(|s| s.as_u16());
            verdict(rep, "TryFrom<u16>", n.into(), n.to_string(), b);
            if let Ok(s) = $T::from_u16(n) {
                if s.as_status().as_u16() != n || u16::from(s) != n || s.as_str() != n.to_string() {
                    rep.violate(format!("C13:{}:accessors-disagree", $tname), json!({"input": n}));
                }
            }
        }
        for n in 100..=999u16 {
            let sc = http::StatusCode::from_u16(n).expect("http accepts 100..=999");
            verdict(rep, "from_status", n.into(), n.to_string(), $T::from_status(sc).ok().map(|s| s.as_u16()));
            verdict(rep, "TryFrom<StatusCode>", n.into(), n.to_string(), $T::try_from(sc).ok().map(|s| s.as_u16()));
        }
        for n in 0..=999u32 {
            let s = format!("{n:03}");
            verdict(rep, "from_bytes", n, s.clone(), $T::from_bytes(s.as_bytes()).ok().map(|s| s.as_u16()));
            verdict(rep, "FromStr", n, s.clone(), $T::from_str(&s).ok().map(|s| s.as_u16()));
            verdict(rep, "TryFrom<&str>", n, s.clone(), $T::try_from(s.as_str()).ok().map(|s| s.as_u16()));
            verdict(rep, "TryFrom<&[u8]>", n, s.clone(), $T::try_from(s.as_bytes()).ok().map(|s| s.as_u16()));
        }
        // other strings: acceptance itself is not classed, the accepted value is
        let alphabet: &[&[u8]] = &[b"0", b"4", b"5", b"9", b"+", b"-", b" ", b"a", b".", b"\0", b"\xff", "\u{664}".as_bytes(), b"\n"];
        let mut other = 0u64;
        let mut other_accepted = 0u64;
        for len in 0..=4usize {
            let mut idx = vec![0usize; len];
            loop {
                let bytes: Vec<u8> = idx.iter().flat_map(|i| alphabet[*i].iter().copied()).collect();
                let three_digits = bytes.len() == 3 && bytes.iter().all(|b| b.is_ascii_digit());
                if !three_digits {
                    other += 1;
                    let mut got: Vec<(&str, u16)> = vec![];
                    if let Ok(s) = $T::from_bytes(&bytes) {
                        got.push(("from_bytes", s.as_u16()));
                    }
                    if let Ok(s) = $T::try_from(bytes.as_slice()) {
                        got.push(("TryFrom<&[u8]>", s.as_u16()));
                    }
                    if let Ok(st) = std::str::from_utf8(&bytes) {
                        if let Ok(s) = $T::from_str(st) {
                            got.push(("FromStr", s.as_u16()));
                        }
                        if let Ok(s) = $T::try_from(st) {
                            got.push(("TryFrom<&str>", s.as_u16()));
                        }
                    }
                    rep.eval(format!("{}|other-string|len{}|{}", $tname, bytes.len().min(6), if got.is_empty() { "refused" } else { "accepted" }));
                    for (entry, g) in got {
                        other_accepted += 1;
                        if !inr(g.into()) {
                            rep.violate(
                                format!("C13:{}:{entry}:accepts-code-outside-range", $tname),
                                json!({"input_hex": hex(&bytes), "as_u16": g}),
                            );
                        }
                    }
                }
                // next index vector
                let mut k = 0;
                loop {
                    if k == len {
                        break;
                    }
                    idx[k] += 1;
                    if idx[k] < alphabet.len() {
                        break;
                    }
                    idx[k] = 0;
                    k += 1;
                }
                if k == len {
                    break;
                }
            }
        }
        rep.count(&format!("{}:non-3-digit-strings", $tname), other);
        rep.count(&format!("{}:non-3-digit-strings-accepted", $tname), other_accepted);
    }};
}

pub fn run_status_exhaustive() -> Report {
    let mut rep = Report::new("C13", "E1-status-types-exhaustive", RULE_STATUS);
    rep.exhaustive = Some(true);
    exhaust_type!(&mut rep, ErrorStatusCode, "ErrorStatusCode", 400u32, 599u32);
    exhaust_type!(&mut rep, ClientErrorStatusCode, "ClientErrorStatusCode", 400u32, 499u32);
    // refinement ErrorStatusCode -> ClientErrorStatusCode and back
    for n in 400..=599u16 {
        let e = ErrorStatusCode::from_u16(n);
        let Ok(e) = e else { continue };
        let want = n <= 499;
        for (entry, got) in [
            ("as_client_error", e.as_client_error().ok().map(|c| c.as_u16())),
            ("TryFrom<ErrorStatusCode>", ClientErrorStatusCode::try_from(e).ok().map(|c| c.as_u16())),
        ] {
            rep.eval(format!("refine|{entry}|{}|{}", region(n.into()), if got.is_some() { "accepted" } else { "refused" }));
            if got.is_some() != want || got.is_some_and(|g| g != n) {
                rep.violate(format!("C13:ClientErrorStatusCode:{entry}:wrong-refinement"), json!({"input": n, "got": got}));
            }
        }
        if let Ok(c) = ClientErrorStatusCode::from_u16(n) {
            let back: ErrorStatusCode = c.into();
            rep.eval(format!("widen|From<ClientErrorStatusCode>|{}", region(n.into())));
            if back.as_u16() != n {
                rep.violate("C13:ErrorStatusCode:From<ClientErrorStatusCode>:value-changed", json!({"input": n, "got": back.as_u16()}));
            }
        }
    }
    rep
}

// ------------------------------------------------------------------------ live

#[derive(Deserialize, JsonSchema)]
pub struct CaseQ {
    pub seed: u64,
    pub shard: u64,
    pub case: u64,
}

#[derive(Deserialize, JsonSchema)]
pub struct NumQ {
    #[allow(dead_code)]
    pub n: u32,
}

#[derive(Deserialize, JsonSchema)]
pub struct NumBody {
    #[allow(dead_code)]
    pub a: u32,
}

#[derive(Serialize, JsonSchema)]
pub struct Echo {
    pub rqid: String,
    pub uid: u64,
}

fn enter(rqctx: &RequestContext<C>) -> u64 {
    let uid = vmon::api::uid_of(rqctx);
    rqctx.context().log.push("H_RQID", uid, 0, &rqctx.request_id);
    uid
}

fn live_rng(q: &CaseQ) -> Rng {
    Rng::derive(q.seed, "c13-live", q.shard, q.case)
}

#[dropshot::endpoint { method = GET, path = "/c13/ok" }]
async fn h_ok(rqctx: RequestContext<C>) -> Result<HttpResponseOk<Echo>, HttpError> {
    let uid = enter(&rqctx);
    Ok(HttpResponseOk(Echo { rqid: rqctx.request_id.clone(), uid }))
}

#[dropshot::endpoint { method = GET, path = "/c13/nocontent" }]
async fn h_nocontent(rqctx: RequestContext<C>) -> Result<HttpResponseUpdatedNoContent, HttpError> {
    enter(&rqctx);
    Ok(HttpResponseUpdatedNoContent())
}

#[dropshot::endpoint { method = GET, path = "/c13/redirect" }]
async fn h_redirect(rqctx: RequestContext<C>) -> Result<HttpResponseSeeOther, HttpError> {
    enter(&rqctx);
    dropshot::http_response_see_other("/c13/ok".to_string())
}

/// a handler that tries to set its own x-request-id
#[dropshot::endpoint { method = GET, path = "/c13/own-id" }]
async fn h_own_id(rqctx: RequestContext<C>) -> Result<HttpResponseHeaders<HttpResponseOk<Echo>>, HttpError> {
    let uid = enter(&rqctx);
    let mut r = HttpResponseHeaders::new_unnamed(HttpResponseOk(Echo { rqid: rqctx.request_id.clone(), uid }));
    r.headers_mut().append("x-request-id", HeaderValue::from_static("handler-chosen-id"));
    Ok(r)
}

#[dropshot::endpoint { method = GET, path = "/c13/err" }]
async fn h_err(rqctx: RequestContext<C>, q: Query<CaseQ>) -> Result<HttpResponseOk<Echo>, HttpError> {
    enter(&rqctx);
    let mut rng = live_rng(&q.into_inner());
    Err(ErrCase::gen(&mut rng, true).build())
}

#[dropshot::endpoint { method = GET, path = "/c13/q" }]
async fn h_q(rqctx: RequestContext<C>, _q: Query<NumQ>) -> Result<HttpResponseOk<Echo>, HttpError> {
    let uid = enter(&rqctx);
    Ok(HttpResponseOk(Echo { rqid: rqctx.request_id.clone(), uid }))
}

#[dropshot::endpoint { method = POST, path = "/c13/body" }]
async fn h_body(rqctx: RequestContext<C>, _b: TypedBody<NumBody>) -> Result<HttpResponseOk<Echo>, HttpError> {
    let uid = enter(&rqctx);
    Ok(HttpResponseOk(Echo { rqid: rqctx.request_id.clone(), uid }))
}

/// custom error type: own body format; Display is the internal (log) text
#[derive(Debug, Serialize, JsonSchema)]
pub struct MyError {
    pub kind: String,
    pub detail: String,
    pub n: u64,
    #[serde(skip)]
    pub status: u16,
    #[serde(skip)]
    pub secret: String,
}

impl std::fmt::Display for MyError {
    fn fmt(&self, f: &mut std::fmt::Formatter<'_>) -> std::fmt::Result {
        write!(f, "my error, internal detail {}", self.secret)
    }
}

impl From<HttpError> for MyError {
    fn from(e: HttpError) -> Self {
        MyError {
            kind: "from-http-error".into(),
            detail: e.external_message,
            n: 0,
            status: e.status_code.as_u16(),
            secret: e.internal_message,
        }
    }
}

impl HttpResponseError for MyError {
    fn status_code(&self) -> ErrorStatusCode {
        ErrorStatusCode::from_u16(self.status).unwrap_or(ErrorStatusCode::INTERNAL_SERVER_ERROR)
    }
}

pub fn gen_my_error(rng: &mut Rng) -> (MyError, String) {
    let marker = format!("VMONSECRET{}X", hex(&rng.bytes(8)));
    (
        MyError {
            kind: rng.pick(&["conflict", "quota", "teapot"]).to_string(),
            detail: any_string(rng).0,
            n: extreme_u64(rng),
            status: rng.range(400, 599) as u16,
            secret: format!("{}{}{}", any_string(rng).0, marker, any_string(rng).0),
        },
        marker,
    )
}

#[dropshot::endpoint { method = GET, path = "/c13/custom" }]
async fn h_custom(rqctx: RequestContext<C>, q: Query<CaseQ>) -> Result<HttpResponseOk<Echo>, MyError> {
    enter(&rqctx);
    let mut rng = live_rng(&q.into_inner());
    Err(gen_my_error(&mut rng).0)
}

/// extractor failure converted into the custom type
#[dropshot::endpoint { method = GET, path = "/c13/custom-q" }]
async fn h_custom_q(rqctx: RequestContext<C>, _q: Query<NumQ>) -> Result<HttpResponseOk<Echo>, MyError> {
    let uid = enter(&rqctx);
    Ok(HttpResponseOk(Echo { rqid: rqctx.request_id.clone(), uid }))
}

pub fn build_api() -> Result<ApiDescription<C>, String> {
    let mut api = ApiDescription::new();
    macro_rules! r {
        ($h:expr) => {
            api.register($h).map_err(|e| format!("register: {e}"))?
        };
    }
    r!(h_ok);
    r!(h_nocontent);
    r!(h_redirect);
    r!(h_own_id);
    r!(h_err);
    r!(h_q);
    r!(h_body);
    r!(h_custom);
    r!(h_custom_q);
    Ok(api)
}

pub const RULE_LIVE: &str = "a real server answering, on several keep-alive connections, a random mix of: successes (200 JSON, 204, 303, \
     a handler that sets its own x-request-id), handler-raised HttpErrors (the in-process error generator: every constructor x status x \
     code x message x attached headers), a custom HttpResponseError type, a custom type built from an extractor failure, and \
     framework-generated errors (404 unknown path, 405, missing / ill-typed query parameter, invalid JSON body, wrong content type, \
     over-long body); every response: exactly one x-request-id, unique in the run, equal to rqctx.request_id logged by the handler \
     (event log keyed by x-vmon-uid) and to request_id in framework-format error bodies; error contract and marker absence for \
     raised errors; class = (request kind, error class, status)";

struct Seen {
    uid: u64,
    /// the single id, when there was exactly one
    id: Option<String>,
    handler_expected: bool,
    what: &'static str,
}

fn leak_check(rep: &mut Report, marker: &str, resp: &Resp, what: &str, ctx: &Value) {
    let m = marker.as_bytes();
    if contains(&resp.body, m)
        || contains(resp.reason.as_bytes(), m)
        || resp.headers.iter().any(|(n, v)| contains(n.as_bytes(), m) || contains(v, m))
    {
        rep.violate(
            format!("C13:internal-message-leaked:{what}"),
            json!({"case": ctx, "marker": marker, "body": show(&String::from_utf8_lossy(&resp.body))}),
        );
    }
}

fn live_client(rep: &mut Report, addr: std::net::SocketAddr, seed: u64, shard: u64, first: u64, cases: u64) -> Vec<Seen> {
    let mut out = vec![];
    let mut conn: Option<Conn> = None;
    for c in first..first + cases {
        let mut sel = Rng::derive(seed, "c13-live-select", shard, c);
        let mut rng = Rng::derive(seed, "c13-live", shard, c);
        let ctx = json!({"seed": seed, "shard": shard, "case": c, "engine": "c13-live"});
        let q = format!("?seed={seed}&shard={shard}&case={c}");
        let uid = vmon::evlog::next_uid();
        // (what, request, handler runs, framework-format error body expected, expected status if stated)
        let mut err_case: Option<ErrCase> = None;
        let mut my_marker: Option<String> = None;
        let (what, req, handler, fw_error, want_status): (&'static str, Req, bool, bool, Option<u16>) = match sel.below(20) {
            0 | 1 => ("ok", Req::new("GET", "/c13/ok"), true, false, Some(200)),
            2 => ("no-content", Req::new("GET", "/c13/nocontent"), true, false, Some(204)),
            3 => ("redirect", Req::new("GET", "/c13/redirect"), true, false, Some(303)),
            4 => ("own-x-request-id", Req::new("GET", "/c13/own-id"), true, false, Some(200)),
            5..=10 => {
                err_case = Some(ErrCase::gen(&mut rng, true));
                ("raised-http-error", Req::new("GET", &format!("/c13/err{q}")), true, true, None)
            }
            11 | 12 => {
                let (e, m) = gen_my_error(&mut rng);
                my_marker = Some(m);
                ("custom-error-type", Req::new("GET", &format!("/c13/custom{q}")), true, false, Some(e.status))
            }
            13 => ("custom-from-extractor-failure", Req::new("GET", "/c13/custom-q?n=abc"), false, false, None),
            14 => {
                let p = format!("/c13/nope/{}", pct(any_string(&mut sel).0.as_bytes()));
                ("framework-404", Req::new("GET", &p), false, true, Some(404))
            }
            15 => ("framework-405", Req::new(*sel.pick(&["POST", "PUT", "DELETE"]), "/c13/ok"), false, true, Some(405)),
            16 => {
                let t = *sel.pick(&["/c13/q", "/c13/q?n=abc", "/c13/q?n=-1", "/c13/q?n=4294967296", "/c13/q?m=1", "/c13/q?n="]);
                ("framework-bad-query", Req::new("GET", t), false, true, None)
            }
            17 => {
                let r = match sel.below(4) {
                    0 => Req::new("POST", "/c13/body").header("content-type", "application/json").body(b"{\"a\": "),
                    1 => Req::new("POST", "/c13/body").header("content-type", "application/json").body(b"{\"a\": \"x\"}"),
                    2 => Req::new("POST", "/c13/body").header("content-type", "text/plain").body(b"{\"a\": 1}"),
                    _ => Req::new("POST", "/c13/body").header("content-type", "application/json").body(&vec![b' '; 3000]),
                };
                ("framework-bad-body", r, false, true, None)
            }
            18 => ("query-ok", Req::new("GET", &format!("/c13/q?n={}", sel.below(1000))), true, false, Some(200)),
            _ => (
                "body-ok",
                Req::new("POST", "/c13/body").header("content-type", "application/json").body(b"{\"a\": 7}"),
                true,
                false,
                Some(200),
            ),
        };
        let bytes = req.uid(uid).encode();
        if conn.is_none() {
            match Conn::connect(addr) {
                Ok(c) => {
                    rep.count("connections", 1);
                    conn = Some(c)
                }
                Err(e) => {
                    rep.inconclusive(&format!("connect: {}", e.kind()));
                    continue;
                }
            }
        }
        let cn = conn.as_mut().unwrap();
        if let Err(e) = cn.send(&bytes) {
            rep.inconclusive(&format!("send: {}", e.kind()));
            conn = None;
            continue;
        }
        let resp = match cn.read_response(false) {
            Ok(r) => r,
            Err(vmon::client::ReadErr::Malformed(why, b)) => {
                rep.violate(
                    "C13:response-not-valid-http",
                    json!({"case": ctx, "what": what, "why": why, "bytes": show(&String::from_utf8_lossy(&b[..b.len().min(600)]))}),
                );
                conn = None;
                continue;
            }
            Err(e) => {
                let s = format!("{e:?}");
                rep.inconclusive(&format!("read: {}", s.split('(').next().unwrap_or("")));
                conn = None;
                continue;
            }
        };
        let class = match &err_case {
            Some(e) => format!("{what}|{}", e.class()),
            None => format!("{what}|status-{}", resp.status),
        };
        rep.eval(class);
        rep.count(&format!("responses:{what}"), 1);
        let mut ctx = ctx;
        ctx["what"] = json!(what);
        ctx["uid"] = json!(uid);
        // ---- exactly one x-request-id
        let ids = resp.header_all("x-request-id");
        let id = if ids.len() == 1 {
            Some(String::from_utf8_lossy(&ids[0]).to_string())
        } else {
            rep.violate(
                format!("C13:x-request-id-count-{}:{what}", if ids.is_empty() { "0".to_string() } else { "many".to_string() }),
                json!({"case": ctx, "status": resp.status, "ids": ids.iter().map(|v| String::from_utf8_lossy(v).to_string()).collect::<Vec<_>>()}),
            );
            None
        };
        if let Some(ws) = want_status {
            if resp.status != ws {
                // status of successes / stated framework errors: part of other
                // properties except for raised errors; only record
                rep.count(&format!("unexpected-status:{what}:{}", resp.status), 1);
            }
        }
        // ---- bodies
        if let Some(case) = &err_case {
            let rid = id.clone().unwrap_or_default();
            judge_error(rep, case, None, resp.status, &resp.headers, &resp.reason, &resp.body, &rid, &ctx);
        } else if fw_error {
            if resp.status < 400 {
                rep.count(&format!("framework-error-expected-but-status:{}", resp.status), 1);
            } else {
                match jsonp::parse(&resp.body) {
                    Ok(j) => match (j.get("request_id").and_then(|x| x.as_str()), &id) {
                        (Some(b), Some(h)) if b == h => {}
                        (b, h) => rep.violate(
                            format!("C13:body-request-id-differs-from-header:{what}"),
                            json!({"case": ctx, "status": resp.status, "body_request_id": b, "header": h}),
                        ),
                    },
                    Err(e) => rep.violate(
                        format!("C13:error-body-not-json:{what}"),
                        json!({"case": ctx, "status": resp.status, "parse_error": e, "body": show(&String::from_utf8_lossy(&resp.body))}),
                    ),
                }
            }
        } else if what == "custom-error-type" {
            if Some(resp.status) != want_status {
                rep.violate(
                    "C13:response-status-differs:custom-error-type",
                    json!({"case": ctx, "status": resp.status, "expected": want_status}),
                );
            }
            if let Some(m) = &my_marker {
                leak_check(rep, m, &resp, "custom-error-display", &ctx);
            }
        } else if matches!(what, "ok" | "own-x-request-id" | "query-ok" | "body-ok") && resp.status == 200 {
            // echoed id
            match (resp.json().and_then(|j| j["rqid"].as_str().map(str::to_string)), &id) {
                (Some(b), Some(h)) if &b == h => {}
                (b, h) => rep.violate(
                    format!("C13:handler-request-id-differs-from-header:{what}"),
                    json!({"case": ctx, "echoed": b, "header": h}),
                ),
            }
        }
        if rep.want_sample() && c % 97 == 0 {
            rep.sample(json!({"what": what, "status": resp.status, "x-request-id": id, "body": show(&String::from_utf8_lossy(&resp.body))}));
        }
        out.push(Seen { uid, id, handler_expected: handler, what });
        if resp.wants_close() {
            conn = None;
        }
    }
    out
}

/// request ids as compact keys (uuid -> u128) so that 10^6+ ids fit easily
fn id_key(id: &str) -> Result<u128, String> {
    let h: String = id.chars().filter(|c| *c != '-').collect();
    if h.len() == 32 {
        u128::from_str_radix(&h, 16).map_err(|_| id.to_string())
    } else {
        Err(id.to_string())
    }
}

pub fn run_live(seed: u64, threads: usize, cases_per_thread: u64) -> Report {
    let plan = crate::live::Plan {
        property: "C13",
        engine: "E2-live-request-ids-and-errors",
        rule: RULE_LIVE,
        seed,
        threads,
        cases_per_thread,
        body_max: 1024,
    };
    // ids of the whole run, across rounds (= across server instances)
    let mut ids_uuid: HashSet<u128> = HashSet::new();
    let mut ids_other: HashSet<String> = HashSet::new();
    let mut rep = crate::live::rounds(&plan, build_api, live_client, &mut |rep, log, all: Vec<Seen>| {
        let mut logged: HashMap<u64, Vec<String>> = HashMap::new();
        for e in log.snapshot() {
            if e.kind == "H_RQID" {
                logged.entry(e.uid).or_default().push(e.s);
            }
        }
        rep.count("responses", all.len() as u64);
        rep.count("handler-entries-logged", logged.values().map(|v| v.len() as u64).sum());
        for s in &all {
            if let Some(id) = &s.id {
                let fresh = match id_key(id) {
                    Ok(k) => ids_uuid.insert(k),
                    Err(o) => {
                        rep.count("request-ids-not-uuid-shaped", 1);
                        ids_other.insert(o)
                    }
                };
                if !fresh {
                    rep.violate("C13:request-id-repeated", json!({"id": id, "uid": s.uid, "what": s.what, "seed": seed}));
                }
            }
            if s.handler_expected {
                match (logged.get(&s.uid), &s.id) {
                    (Some(l), Some(id)) if l.len() == 1 && &l[0] == id => rep.count("handler-id-equals-header", 1),
                    (Some(l), Some(id)) => rep.violate(
                        format!("C13:handler-request-id-differs-from-header:{}", s.what),
                        json!({"uid": s.uid, "handler_saw": l, "header": id, "seed": seed}),
                    ),
                    (None, _) => rep.inconclusive("handler expected to run but logged nothing"),
                    (_, None) => {}
                }
            }
        }
    });
    rep.count("distinct-request-ids", (ids_uuid.len() + ids_other.len()) as u64);
    rep
}
