//! C12 — typed responses are serialised faithfully with their declared status.
//!
//! Oracle (from the property text): own status table, content type
//! application/json, body == serde_json::to_value(&value) under an own strict
//! JSON reader, empty body for 204/3xx, declared headers present unless an
//! explicit header of the same name exists (explicit wins), Location == given,
//! illegal redirect location refused by the constructor.

use crate::gen::*;
use crate::jsonp::{self, FloatMode};
use crate::types::*;
use dropshot::{
    http_response_found, http_response_see_other, http_response_temporary_redirect, ApiDescription, ApiEndpoint,
    ApiEndpointVersions, HttpCodedResponse, HttpError, HttpResponse, HttpResponseAccepted, HttpResponseCreated,
    HttpResponseDeleted, HttpResponseHeaders, HttpResponseOk, HttpResponseUpdatedNoContent, Query, RequestContext,
};
use http::{HeaderMap, HeaderName, HeaderValue};
use http_body_util::BodyExt;
use schemars::JsonSchema;
use serde::Deserialize;
use serde_json::{json, Value};
use std::collections::BTreeMap;
use vmon::client::{Conn, Req};
use vmon::report::Report;
use vmon::rng::Rng;
use vmon::srv::C;

pub const KINDS: &[(&str, u16)] = &[("ok", 200), ("created", 201), ("accepted", 202)];
pub const NOBODY: &[(&str, u16)] = &[("deleted", 204), ("updated-no-content", 204)];
pub const REDIRECTS: &[(&str, u16)] = &[("found", 302), ("see-other", 303), ("temporary-redirect", 307)];
pub const WRAPS: &[&str] = &["plain", "headers-unnamed", "headers-h1", "headers-h3"];

const DECL_H1: &[&str] = &["x-vmon-a"];
const DECL_H3: &[&str] = &["x-vmon-a", "x-vmon-b", "etag"];
const EXTRA_NAMES: &[&str] = &["x-vmon-e1", "x-vmon-e2", "cache-control", "x-vmon-e3"];

/// everything about headers of one case
#[derive(Debug, Clone)]
pub struct HeaderCase {
    pub wrap: usize,
    /// (lower-case name, value) of the declared header struct's fields
    pub declared: Vec<(&'static str, String)>,
    /// "legal" (all declared values unambiguously legal) / "illegal" / "borderline"
    pub decl_kind: &'static str,
    pub decl_class: String,
    /// explicit headers in append order
    pub explicit: Vec<(&'static str, Vec<u8>)>,
    pub coll_class: &'static str,
}

impl HeaderCase {
    /// `reserved`: names the explicit set must avoid (e.g. "location" on redirects)
    pub fn gen(rng: &mut Rng, wrap: usize, live: bool) -> HeaderCase {
        let names: &[&'static str] = match wrap {
            2 => DECL_H1,
            3 => DECL_H3,
            _ => &[],
        };
        let mut decl_kind = "legal";
        let mut classes = vec![];
        let mut declared = vec![];
        // at most one non-legal declared value per case, never over the wire
        let odd = if !live && !names.is_empty() && rng.chance(1, 12) { Some(rng.usize(names.len())) } else { None };
        for (i, n) in names.iter().enumerate() {
            if *n == "etag" && odd != Some(i) && rng.chance(1, 3) {
                // the optional header is left out of this response
                classes.push("optional-absent".to_string());
                continue;
            }
            if odd == Some(i) {
                if rng.bool() {
                    let (v, c) = illegal_header_value(rng);
                    decl_kind = "illegal";
                    classes.push(format!("illegal:{c}"));
                    declared.push((*n, v));
                } else {
                    let (v, _) = legal_header_value(rng);
                    let v = match rng.below(3) {
                        0 => format!(" {v}"),
                        1 => format!("{v}\t"),
                        _ => format!("{v} "),
                    };
                    decl_kind = "borderline";
                    classes.push("borderline".to_string());
                    declared.push((*n, v));
                }
            } else if *n != "etag" && rng.chance(1, 10) {
                // the empty string is a legal field value (RFC 9110: field-value =
                // *field-content): the header must be present, with an empty value
                classes.push("empty".to_string());
                declared.push((*n, String::new()));
            } else {
                let (v, c) = legal_header_value(rng);
                classes.push(c.to_string());
                declared.push((*n, v));
            }
        }
        classes.sort();
        classes.dedup();
        let mut explicit: Vec<(&'static str, Vec<u8>)> = vec![];
        let hv = |rng: &mut Rng| -> Vec<u8> {
            if rng.chance(1, 8) {
                // raw obs-text bytes that are not UTF-8
                let mut v = b"b".to_vec();
                for _ in 0..1 + rng.usize(6) {
                    v.push(rng.range(0x80, 0xff) as u8);
                }
                v.push(b'e');
                v
            } else {
                legal_header_value(rng).0.into_bytes()
            }
        };
        let coll_class: &'static str = if wrap == 0 {
            "no-headers"
        } else if names.is_empty() {
            match rng.below(3) {
                0 => "explicit-none",
                1 => {
                    explicit.push((*rng.pick(EXTRA_NAMES), hv(rng)));
                    "explicit-only"
                }
                _ => {
                    let n = *rng.pick(EXTRA_NAMES);
                    for _ in 0..2 + rng.usize(2) {
                        explicit.push((n, hv(rng)));
                    }
                    "explicit-only-multi"
                }
            }
        } else {
            match rng.below(7) {
                0 => "explicit-none",
                1 => {
                    explicit.push((*rng.pick(EXTRA_NAMES), hv(rng)));
                    "disjoint"
                }
                2 => {
                    let n = *rng.pick(EXTRA_NAMES);
                    for _ in 0..2 + rng.usize(2) {
                        explicit.push((n, hv(rng)));
                    }
                    "disjoint-multi"
                }
                3 => {
                    explicit.push((*rng.pick(names), hv(rng)));
                    "collide"
                }
                4 => {
                    let n = *rng.pick(names);
                    for _ in 0..2 + rng.usize(2) {
                        explicit.push((n, hv(rng)));
                    }
                    "collide-multi"
                }
                5 => {
                    explicit.push((*rng.pick(names), hv(rng)));
                    explicit.push((*rng.pick(EXTRA_NAMES), hv(rng)));
                    if rng.bool() {
                        explicit.swap(0, 1);
                    }
                    "collide+disjoint"
                }
                _ => {
                    // explicit value identical to the declared one
                    let (n, v) = rng.pick(&declared).clone();
                    if legal_field_value(v.as_bytes()) {
                        explicit.push((n, v.into_bytes()));
                        "collide-same-value"
                    } else {
                        "explicit-none"
                    }
                }
            }
        };
        HeaderCase { wrap, declared, decl_kind, decl_class: classes.join("+"), explicit, coll_class }
    }

    pub fn apply_explicit(&self, map: &mut HeaderMap) {
        for (n, v) in &self.explicit {
            map.append(HeaderName::from_static(n), HeaderValue::from_bytes(v).expect("generator made a legal value"));
        }
    }

    pub fn decl(&self, name: &str) -> String {
        self.declared.iter().find(|(n, _)| *n == name).map(|(_, v)| v.clone()).unwrap_or_default()
    }
    pub fn h1(&self) -> H1 {
        H1 { a: self.decl("x-vmon-a") }
    }
    pub fn h3(&self) -> H3 {
        H3 { a: self.decl("x-vmon-a"), b: self.decl("x-vmon-b"), etag: self.decl("etag") }
    }

    /// the model: name -> values that must be present (as a multiset)
    pub fn expected(&self) -> BTreeMap<String, Vec<Vec<u8>>> {
        let mut m: BTreeMap<String, Vec<Vec<u8>>> = BTreeMap::new();
        for (n, v) in &self.declared {
            m.insert(n.to_string(), vec![v.clone().into_bytes()]);
        }
        let mut seen = std::collections::BTreeSet::new();
        for (n, v) in &self.explicit {
            if seen.insert(*n) {
                // explicit wins: replaces whatever was declared
                m.insert(n.to_string(), vec![]);
            }
            m.get_mut(*n).unwrap().push(v.clone());
        }
        m
    }

    pub fn json(&self) -> Value {
        json!({
            "wrap": WRAPS[self.wrap],
            "declared": self.declared.iter().map(|(n, v)| json!([n, show(v)])).collect::<Vec<_>>(),
            "explicit": self.explicit.iter().map(|(n, v)| json!([n, show(&String::from_utf8_lossy(v)), format!("{} bytes, hex {}{}", v.len(), hex(&v[..v.len().min(40)]), if v.len() > 40 { "..." } else { "" })])).collect::<Vec<_>>(),
            "collision": self.coll_class,
            "declared_value_classes": self.decl_class,
        })
    }
}

/// what the oracle expects of one response
pub struct Expect {
    pub kind: &'static str,
    pub status: u16,
    /// None: the body must be empty
    pub body: Option<WantBody>,
    pub headers: BTreeMap<String, Vec<Vec<u8>>>,
}

/// the reference a body is compared with
pub enum WantBody {
    /// serde_json::to_value(&value), read back with the own reader
    Value(Value, FloatMode),
    /// own exact tree (integers beyond 64 bits, which a Value cannot hold)
    Exact(jsonp::J),
}

impl WantBody {
    pub fn of<T: BodyGen>(value: &T) -> Result<WantBody, String> {
        match value.exact() {
            Some(j) => Ok(WantBody::Exact(j)),
            None => serde_json::to_value(value).map(|v| WantBody::Value(v, T::FLOAT)).map_err(|e| e.to_string()),
        }
    }
    fn same(&self, got: &jsonp::J) -> Result<(), String> {
        match self {
            WantBody::Value(v, fm) => jsonp::same(got, v, *fm),
            WantBody::Exact(j) => jsonp::same_exact(got, j),
        }
    }
    /// for witnesses
    pub fn shown(&self) -> Value {
        let t = match self {
            WantBody::Value(v, _) => v.to_string(),
            WantBody::Exact(j) => j.text(),
        };
        if t.len() < 600 {
            match self {
                WantBody::Value(v, _) => v.clone(),
                // as text: a Value would lose the wide integers
                WantBody::Exact(_) => json!(t),
            }
        } else {
            json!("<large>")
        }
    }
}

/// observed response, in process or from the wire
pub struct Seen {
    pub status: u16,
    /// name (lower case) -> values
    pub headers: Vec<(String, Vec<u8>)>,
    pub body: Vec<u8>,
}

impl Seen {
    fn all(&self, name: &str) -> Vec<Vec<u8>> {
        self.headers.iter().filter(|(n, _)| n == name).map(|(_, v)| v.clone()).collect()
    }
}

fn multiset_eq(a: &[Vec<u8>], b: &[Vec<u8>]) -> bool {
    let mut a = a.to_vec();
    let mut b = b.to_vec();
    a.sort();
    b.sort();
    a == b
}

/// compare; every difference is one violation (signature names kind of failure)
pub fn judge(rep: &mut Report, exp: &Expect, seen: &Seen, ctx: &Value) -> bool {
    let mut ok = true;
    let kind = exp.kind;
    let mut bad = |rep: &mut Report, sig: String, extra: Value| {
        ok = false;
        rep.violate(sig, json!({"case": ctx, "observed_status": seen.status, "detail": extra}));
    };
    if seen.status != exp.status {
        bad(rep, format!("C12:wrong-status:{kind}"), json!({"expected": exp.status}));
    }
    match &exp.body {
        Some(want) => {
            let ct = seen.all("content-type");
            if ct.len() != 1 || !crate::gen::is_json_media_type(ct[0].as_slice()) {
                bad(
                    rep,
                    format!("C12:content-type-not-json:{kind}"),
                    json!({"content_type": ct.iter().map(|v| String::from_utf8_lossy(v).to_string()).collect::<Vec<_>>()}),
                );
            }
            match jsonp::parse(&seen.body) {
                Err(e) => bad(
                    rep,
                    format!("C12:body-not-json:{kind}"),
                    json!({"error": e, "body": show(&String::from_utf8_lossy(&seen.body))}),
                ),
                Ok(j) => {
                    if let Err(diff) = want.same(&j) {
                        bad(
                            rep,
                            format!("C12:body-differs-from-value:{kind}"),
                            json!({"difference": diff, "body": show(&String::from_utf8_lossy(&seen.body))}),
                        );
                    }
                }
            }
        }
        None => {
            if !seen.body.is_empty() {
                bad(rep, format!("C12:body-not-empty:{kind}"), json!({"body_len": seen.body.len(), "body": hex(&seen.body[..seen.body.len().min(64)])}));
            }
        }
    }
    for (name, want) in &exp.headers {
        let got = seen.all(name);
        if !multiset_eq(&got, want) {
            let what = if name == "location" {
                "location-differs"
            } else if got.is_empty() {
                "header-missing"
            } else {
                "header-values-differ"
            };
            bad(
                rep,
                format!("C12:{what}"),
                json!({"name": name,
                       "expected": want.iter().map(|v| hex(v)).collect::<Vec<_>>(),
                       "observed": got.iter().map(|v| hex(v)).collect::<Vec<_>>()}),
            );
        }
    }
    ok
}

fn collect_inproc(resp: http::Response<dropshot::Body>) -> Result<Seen, String> {
    let (parts, body) = resp.into_parts();
    let bytes = futures::executor::block_on(body.collect()).map_err(|e| format!("collect: {e}"))?.to_bytes();
    Ok(Seen {
        status: parts.status.as_u16(),
        headers: parts.headers.iter().map(|(n, v)| (n.as_str().to_string(), v.as_bytes().to_vec())).collect(),
        body: bytes.to_vec(),
    })
}

/// call the real to_result() and judge.  `decl_ok`: declared values all legal
fn finish<R: HttpResponse>(rep: &mut Report, resp: R, exp: &Expect, decl_kind: &str, class: String, ctx: &Value) {
    let r = vmon::panics::catch_quiet(std::panic::AssertUnwindSafe(move || resp.to_result()));
    rep.eval(class);
    let res = match r {
        Err(p) => {
            rep.violate(
                format!("C12:to_result-panics:{}", exp.kind),
                json!({"case": ctx, "location": p.location, "message": p.message}),
            );
            return;
        }
        Ok(res) => res,
    };
    if decl_kind != "legal" {
        // outcome not classed (a declared value that cannot / may not be sent as is)
        rep.count(
            &format!("declared-{decl_kind}-value:{}", if res.is_ok() { "to_result-ok" } else { "to_result-err" }),
            1,
        );
        return;
    }
    match res {
        Err(e) => rep.violate(
            format!("C12:to_result-error-on-legal-input:{}", exp.kind),
            json!({"case": ctx, "error_internal": e.internal_message, "status": e.status_code.as_u16()}),
        ),
        Ok(resp) => match collect_inproc(resp) {
            Err(e) => rep.inconclusive(&format!("body collect failed: {e}")),
            Ok(seen) => {
                rep.count(&format!("status-{}", seen.status), 1);
                if judge(rep, exp, &seen, ctx) && rep.want_sample() && !exp.headers.is_empty() {
                    rep.sample(json!({"case": ctx, "status": seen.status, "body": show(&String::from_utf8_lossy(&seen.body)),
                        "headers": seen.headers.iter().map(|(n, v)| json!([n, show(&String::from_utf8_lossy(v))])).collect::<Vec<_>>()}));
                }
            }
        },
    }
}

/// wrap a coded response as the header case says
macro_rules! wrapped {
    ($hc:expr, $body:expr, |$r:ident| $use:expr) => {
        match $hc.wrap {
            0 => {
                let $r = $body;
                $use
            }
            1 => {
                let mut $r = HttpResponseHeaders::new_unnamed($body);
                $hc.apply_explicit($r.headers_mut());
                $use
            }
            2 => {
                let mut $r = HttpResponseHeaders::new($body, $hc.h1());
                $hc.apply_explicit($r.headers_mut());
                $use
            }
            _ => {
                let mut $r = HttpResponseHeaders::new($body, $hc.h3());
                $hc.apply_explicit($r.headers_mut());
                $use
            }
        }
    };
}

fn run_coded<K: HttpCodedResponse>(rep: &mut Report, body: K, hc: &HeaderCase, exp: &Expect, class: String, ctx: &Value) {
    wrapped!(hc, body, |r| finish(rep, r, exp, hc.decl_kind, class, ctx))
}

/// one in-process case for body type T
fn inproc_typed<T: BodyGen>(rep: &mut Report, rng: &mut Rng, ctx: Value) {
    let k = rng.usize(KINDS.len());
    let wrap = rng.usize(WRAPS.len());
    let (value, vclass) = T::gen(rng);
    let hc = HeaderCase::gen(rng, wrap, false);
    let want = match WantBody::of(&value) {
        Ok(v) => v,
        Err(e) => {
            rep.inconclusive(&format!("serde_json::to_value refused a {} value: {e}", T::NAME));
            return;
        }
    };
    let (kind, status) = KINDS[k];
    let class = format!("{kind}|{}:{vclass}|{}|{}|decl:{}", T::NAME, WRAPS[wrap], hc.coll_class, hc.decl_kind);
    for (_, v) in &hc.declared {
        let c = if !legal_field_value(v.as_bytes()) {
            "illegal"
        } else if v.is_empty() {
            "legal-empty"
        } else if borderline_field_value(v.as_bytes()) {
            "borderline"
        } else if v.bytes().any(|b| b >= 0x80) {
            "legal-with-obs-text"
        } else if v.len() > 400 {
            "legal-long"
        } else {
            "legal-ascii"
        };
        rep.count(&format!("declared-values:{c}"), 1);
    }
    let mut ctx = ctx;
    ctx["kind"] = json!(kind);
    ctx["type"] = json!(T::NAME);
    ctx["value_class"] = json!(vclass);
    ctx["value"] = want.shown();
    ctx["headers"] = hc.json();
    if matches!(want, WantBody::Exact(_)) {
        rep.count("bodies-with-128-bit-integers", 1);
    }
    let exp = Expect { kind, status, body: Some(want), headers: hc.expected() };
    match k {
        0 => run_coded(rep, HttpResponseOk(value), &hc, &exp, class, &ctx),
        1 => run_coded(rep, HttpResponseCreated(value), &hc, &exp, class, &ctx),
        _ => run_coded(rep, HttpResponseAccepted(value), &hc, &exp, class, &ctx),
    }
}

fn inproc_nobody(rep: &mut Report, rng: &mut Rng, ctx: Value) {
    let k = rng.usize(NOBODY.len());
    let wrap = rng.usize(WRAPS.len());
    let hc = HeaderCase::gen(rng, wrap, false);
    let (kind, status) = NOBODY[k];
    let class = format!("{kind}|empty|{}|{}|decl:{}", WRAPS[wrap], hc.coll_class, hc.decl_kind);
    let mut ctx = ctx;
    ctx["kind"] = json!(kind);
    ctx["headers"] = hc.json();
    let exp = Expect { kind, status, body: None, headers: hc.expected() };
    match k {
        0 => run_coded(rep, HttpResponseDeleted(), &hc, &exp, class, &ctx),
        _ => run_coded(rep, HttpResponseUpdatedNoContent(), &hc, &exp, class, &ctx),
    }
}

/// (location, "legal:<class>" | "illegal:<class>" | "empty" | "borderline")
pub fn gen_location(rng: &mut Rng, live: bool) -> (String, String) {
    match rng.below(if live { 10 } else { 11 }) {
        0..=4 => {
            let (v, c) = legal_header_value(rng);
            (v, format!("legal:{c}"))
        }
        5 => {
            // well-formed URLs with non-ASCII (obs-text bytes in the field value)
            let p = 1 + rng.below(3);
            let s: String = (0..1 + rng.usize(6)).map(|_| rand_char(rng, p)).collect();
            (format!("https://example.com/{s}/end"), "legal:url-non-ascii".into())
        }
        6..=8 => {
            let (v, c) = illegal_header_value(rng);
            (v, format!("illegal:{c}"))
        }
        // the empty location: the constructor may refuse it (not classed), but a
        // redirect it accepts must carry a Location header, with the empty value
        9 => (String::new(), "empty".into()),
        _ => {
            let (v, _) = legal_header_value(rng);
            let v = match rng.below(3) {
                0 => format!(" {v}"),
                1 => format!("{v}\t"),
                _ => format!("{v} "),
            };
            (v, "borderline".into())
        }
    }
}

/// redirect header case: explicit headers never named "location"
fn redirect_headers(rng: &mut Rng) -> HeaderCase {
    // wrap 1 (no declared names of ours): the declared "location" is handled apart
    let mut hc = HeaderCase::gen(rng, 1, true);
    hc.wrap = 0;
    hc
}

fn inproc_redirect(rep: &mut Report, rng: &mut Rng, ctx: Value) {
    let k = rng.usize(REDIRECTS.len());
    let (kind, status) = REDIRECTS[k];
    let (loc, lclass) = gen_location(rng, false);
    let hc = redirect_headers(rng);
    let class = format!("{kind}|location:{lclass}|{}", hc.coll_class);
    let mut ctx = ctx;
    ctx["kind"] = json!(kind);
    ctx["location"] = json!(show(&loc));
    ctx["location_hex"] = json!(hex(loc.as_bytes()));
    ctx["location_class"] = json!(lclass);
    ctx["headers"] = hc.json();
    let mut headers = hc.expected();
    headers.insert("location".into(), vec![loc.clone().into_bytes()]);
    let exp = Expect { kind, status, body: None, headers };
    let legal = legal_field_value(loc.as_bytes());
    let empty = loc.is_empty();
    let borderline = !empty && borderline_field_value(loc.as_bytes());

    macro_rules! go {
        ($ctor:ident) => {{
            let l2 = loc.clone();
            match vmon::panics::catch_quiet(move || $ctor(l2)) {
                Err(p) => {
                    rep.eval(class);
                    rep.violate(
                        format!("C12:redirect-constructor-panics:{kind}"),
                        json!({"case": ctx, "location": p.location, "message": p.message}),
                    );
                }
                Ok(Err(e)) => {
                    rep.eval(class);
                    rep.count("redirect-constructor-err", 1);
                    if empty {
                        rep.count("redirect-empty-location-refused-by-constructor", 1);
                    } else if legal && !borderline {
                        rep.violate(
                            format!("C12:redirect-constructor-refuses-legal-location:{kind}"),
                            json!({"case": ctx, "error_internal": e.internal_message}),
                        );
                    }
                }
                Ok(Ok(mut r)) => {
                    rep.count("redirect-constructor-ok", 1);
                    if !legal {
                        rep.eval(class);
                        // what would have happened next, for the witness only
                        let later = match vmon::panics::catch_quiet(std::panic::AssertUnwindSafe(move || r.to_result())) {
                            Ok(Ok(_)) => "to_result produced a response".to_string(),
                            Ok(Err(e)) => format!("to_result refused later: {}", e.internal_message),
                            Err(p) => format!("to_result panicked: {}", p.message),
                        };
                        rep.violate(
                            format!("C12:redirect-constructor-accepts-illegal-location:{kind}"),
                            json!({"case": ctx, "afterwards": later}),
                        );
                    } else if borderline {
                        // leading/trailing blank: not classed either way
                        rep.eval(class);
                        rep.count("redirect-borderline-location-accepted", 1);
                    } else {
                        if empty {
                            rep.count("redirect-empty-location-accepted", 1);
                        }
                        hc.apply_explicit(r.headers_mut());
                        finish(rep, r, &exp, "legal", class, &ctx);
                    }
                }
            }
        }};
    }
    match k {
        0 => go!(http_response_found),
        1 => go!(http_response_see_other),
        _ => go!(http_response_temporary_redirect),
    }
}

type InprocFn = fn(&mut Report, &mut Rng, Value);

macro_rules! body_types {
    ($m:ident) => {
        $m!(
            (), bool, u64, i64, f64, String, Option<String>, Vec<i64>, Vec<String>, Vec<Option<f64>>,
            BTreeMap<String, String>, BTreeMap<i32, Vec<u8>>, Nested, Enums, F32s, serde_json::Value,
            WideBody, u128, Vec<i128>
        )
    };
}

macro_rules! inproc_table {
    ($($t:ty),*) => { &[ $( inproc_typed::<$t> as InprocFn ),* ] };
}
const INPROC: &[InprocFn] = body_types!(inproc_table);

pub const RULE_INPROC: &str = "random cases: response kind (ok/created/accepted x 19 body types incl. unit, numeric extremes, u128/i128 around and beyond the 64-bit range (compared exactly as decimal text), \
     any-Unicode strings, nested structs, enums in 4 tagging styles, maps, vectors, f32, arbitrary JSON trees; deleted; \
     updated-no-content; found/see-other/temporary-redirect) x wrapper (plain, HttpResponseHeaders unnamed / 1 / 3 declared String \
     fields) x explicit headers via headers_mut() (none, disjoint, colliding, multi-valued, colliding by case-insensitive name, \
     same value) -> real to_result(), body collected; class = (kind, type:value class, wrapper, collision class, declared-value \
     classes) resp. (redirect kind, location class, explicit class)";

pub fn run_inproc(seed: u64, shard: u64, cases: u64) -> Report {
    let mut rep = Report::new("C12", "E1-to_result", RULE_INPROC);
    for c in 0..cases {
        let mut rng = Rng::derive(seed, "c12-inproc", shard, c);
        let ctx = json!({"seed": seed, "shard": shard, "case": c, "engine": "c12-inproc"});
        // now and then a value that cannot be serialised (never judged itself): whatever
        // its failed serialisation leaves behind meets the judged cases that follow on
        // this thread
        if Rng::derive(seed, "c12-poison", shard, c).chance(1, 25) {
            let v = Poison { a: format!("poison-{c}-{}", "x".repeat((c % 40) as usize)), b: c as u32 };
            let r = vmon::panics::catch_quiet(std::panic::AssertUnwindSafe(move || HttpResponseOk(v).to_result().map(|r| r.status().as_u16())));
            match r {
                Err(p) => rep.violate("C12:to_result-panics:unserialisable-value", json!({"case": ctx, "location": p.location, "message": p.message})),
                Ok(Ok(st)) => rep.count(&format!("unserialisable-value:to_result-ok-status-{st}"), 1),
                Ok(Err(e)) => rep.count(&format!("unserialisable-value:to_result-err-status-{}", e.status_code.as_u16()), 1),
            }
            continue;
        }
        match rng.below(10) {
            0 => inproc_nobody(&mut rep, &mut rng, ctx),
            1..=3 => inproc_redirect(&mut rep, &mut rng, ctx),
            _ => {
                let f = *rng.pick(INPROC);
                f(&mut rep, &mut rng, ctx)
            }
        }
    }
    rep
}

// ======================================================================= live

#[derive(Deserialize, JsonSchema)]
pub struct CaseQ {
    pub seed: u64,
    pub shard: u64,
    pub case: u64,
}

fn live_rng(q: &CaseQ) -> Rng {
    Rng::derive(q.seed, "c12-live", q.shard, q.case)
}

fn enter(rqctx: &RequestContext<C>) {
    let uid = vmon::api::uid_of(rqctx);
    rqctx.context().log.push("H_ENTER", uid, 0, &rqctx.endpoint.operation_id);
}

macro_rules! typed_handlers {
    ($plain:ident, $unnamed:ident, $h1:ident, $h3:ident, $K:ident) => {
        async fn $plain<T: BodyGen>(rqctx: RequestContext<C>, q: Query<CaseQ>) -> Result<$K<T>, HttpError> {
            enter(&rqctx);
            let mut rng = live_rng(&q.into_inner());
            let (value, _) = T::gen(&mut rng);
            Ok($K(value))
        }
        async fn $unnamed<T: BodyGen>(
            rqctx: RequestContext<C>,
            q: Query<CaseQ>,
        ) -> Result<HttpResponseHeaders<$K<T>>, HttpError> {
            enter(&rqctx);
            let mut rng = live_rng(&q.into_inner());
            let (value, _) = T::gen(&mut rng);
            let hc = HeaderCase::gen(&mut rng, 1, true);
            let mut r = HttpResponseHeaders::new_unnamed($K(value));
            hc.apply_explicit(r.headers_mut());
            Ok(r)
        }
        async fn $h1<T: BodyGen>(
            rqctx: RequestContext<C>,
            q: Query<CaseQ>,
        ) -> Result<HttpResponseHeaders<$K<T>, H1>, HttpError> {
            enter(&rqctx);
            let mut rng = live_rng(&q.into_inner());
            let (value, _) = T::gen(&mut rng);
            let hc = HeaderCase::gen(&mut rng, 2, true);
            let mut r = HttpResponseHeaders::new($K(value), hc.h1());
            hc.apply_explicit(r.headers_mut());
            Ok(r)
        }
        async fn $h3<T: BodyGen>(
            rqctx: RequestContext<C>,
            q: Query<CaseQ>,
        ) -> Result<HttpResponseHeaders<$K<T>, H3>, HttpError> {
            enter(&rqctx);
            let mut rng = live_rng(&q.into_inner());
            let (value, _) = T::gen(&mut rng);
            let hc = HeaderCase::gen(&mut rng, 3, true);
            let mut r = HttpResponseHeaders::new($K(value), hc.h3());
            hc.apply_explicit(r.headers_mut());
            Ok(r)
        }
    };
}
typed_handlers!(ok_plain, ok_unnamed, ok_h1, ok_h3, HttpResponseOk);
typed_handlers!(created_plain, created_unnamed, created_h1, created_h3, HttpResponseCreated);
typed_handlers!(accepted_plain, accepted_unnamed, accepted_h1, accepted_h3, HttpResponseAccepted);

macro_rules! nobody_handlers {
    ($plain:ident, $unnamed:ident, $h1:ident, $h3:ident, $K:ident) => {
        async fn $plain(rqctx: RequestContext<C>, _q: Query<CaseQ>) -> Result<$K, HttpError> {
            enter(&rqctx);
            Ok($K())
        }
        async fn $unnamed(rqctx: RequestContext<C>, q: Query<CaseQ>) -> Result<HttpResponseHeaders<$K>, HttpError> {
            enter(&rqctx);
            let mut rng = live_rng(&q.into_inner());
            let hc = HeaderCase::gen(&mut rng, 1, true);
            let mut r = HttpResponseHeaders::new_unnamed($K());
            hc.apply_explicit(r.headers_mut());
            Ok(r)
        }
        async fn $h1(rqctx: RequestContext<C>, q: Query<CaseQ>) -> Result<HttpResponseHeaders<$K, H1>, HttpError> {
            enter(&rqctx);
            let mut rng = live_rng(&q.into_inner());
            let hc = HeaderCase::gen(&mut rng, 2, true);
            let mut r = HttpResponseHeaders::new($K(), hc.h1());
            hc.apply_explicit(r.headers_mut());
            Ok(r)
        }
        async fn $h3(rqctx: RequestContext<C>, q: Query<CaseQ>) -> Result<HttpResponseHeaders<$K, H3>, HttpError> {
            enter(&rqctx);
            let mut rng = live_rng(&q.into_inner());
            let hc = HeaderCase::gen(&mut rng, 3, true);
            let mut r = HttpResponseHeaders::new($K(), hc.h3());
            hc.apply_explicit(r.headers_mut());
            Ok(r)
        }
    };
}
nobody_handlers!(deleted_plain, deleted_unnamed, deleted_h1, deleted_h3, HttpResponseDeleted);
nobody_handlers!(updated_plain, updated_unnamed, updated_h1, updated_h3, HttpResponseUpdatedNoContent);

macro_rules! redirect_handler {
    ($name:ident, $ctor:ident, $R:ty) => {
        async fn $name(rqctx: RequestContext<C>, q: Query<CaseQ>) -> Result<$R, HttpError> {
            enter(&rqctx);
            let mut rng = live_rng(&q.into_inner());
            let (loc, _) = gen_location(&mut rng, true);
            let hc = redirect_headers(&mut rng);
            let mut r = $ctor(loc)?;
            hc.apply_explicit(r.headers_mut());
            Ok(r)
        }
    };
}
redirect_handler!(h_found, http_response_found, dropshot::HttpResponseFound);
redirect_handler!(h_see_other, http_response_see_other, dropshot::HttpResponseSeeOther);
redirect_handler!(h_temporary, http_response_temporary_redirect, dropshot::HttpResponseTemporaryRedirect);

/// client-side expectation for a typed endpoint
type ExpectFn = fn(&mut Rng) -> Result<(WantBody, String), String>;
fn expect_typed<T: BodyGen>(rng: &mut Rng) -> Result<(WantBody, String), String> {
    let (value, vclass) = T::gen(rng);
    WantBody::of(&value).map(|w| (w, vclass))
}

struct TypeEntry {
    name: &'static str,
    expect: ExpectFn,
    register: fn(&mut ApiDescription<C>, &'static str) -> Result<(), String>,
}

fn reg<T: BodyGen>(api: &mut ApiDescription<C>, name: &'static str) -> Result<(), String> {
    let ct = "application/json";
    let v = || ApiEndpointVersions::All;
    let m = || http::Method::GET;
    macro_rules! r {
        ($kind:expr, $wrap:expr, $h:expr) => {
            api.register(ApiEndpoint::new(
                format!("c12_{}_{}_{}", $kind, $wrap, name).replace('-', "_"),
                $h,
                m(),
                ct,
                &format!("/c12/{}/{}/{}", $kind, $wrap, name),
                v(),
            ))
            .map_err(|e| format!("register {}/{}/{}: {e}", $kind, $wrap, name))?
        };
    }
    r!("ok", WRAPS[0], ok_plain::<T>);
    r!("ok", WRAPS[1], ok_unnamed::<T>);
    r!("ok", WRAPS[2], ok_h1::<T>);
    r!("ok", WRAPS[3], ok_h3::<T>);
    r!("created", WRAPS[0], created_plain::<T>);
    r!("created", WRAPS[1], created_unnamed::<T>);
    r!("created", WRAPS[2], created_h1::<T>);
    r!("created", WRAPS[3], created_h3::<T>);
    r!("accepted", WRAPS[0], accepted_plain::<T>);
    r!("accepted", WRAPS[1], accepted_unnamed::<T>);
    r!("accepted", WRAPS[2], accepted_h1::<T>);
    r!("accepted", WRAPS[3], accepted_h3::<T>);
    Ok(())
}

macro_rules! live_table {
    ($($t:ty),*) => { &[ $( TypeEntry { name: <$t as BodyGen>::NAME, expect: expect_typed::<$t>, register: reg::<$t> } ),* ] };
}
const LIVE_TYPES: &[TypeEntry] = body_types!(live_table);

/// answers with a value whose serialisation fails half-way (see types::Poison)
async fn h_poison(rqctx: RequestContext<C>, q: Query<CaseQ>) -> Result<HttpResponseOk<Poison>, HttpError> {
    enter(&rqctx);
    let c = q.into_inner().case;
    Ok(HttpResponseOk(Poison { a: format!("poison-{c}-{}", "x".repeat((c % 40) as usize)), b: c as u32 }))
}

pub fn build_api() -> Result<ApiDescription<C>, String> {
    let mut api = ApiDescription::new();
    for t in LIVE_TYPES {
        (t.register)(&mut api, t.name)?;
    }
    let ct = "application/json";
    macro_rules! r {
        ($path:expr, $h:expr) => {
            api.register(ApiEndpoint::new(
                format!("c12{}", $path).replace(['/', '-'], "_"),
                $h,
                http::Method::GET,
                ct,
                &format!("/c12{}", $path),
                ApiEndpointVersions::All,
            ))
            .map_err(|e| format!("register {}: {e}", $path))?
        };
    }
    r!(format!("/deleted/{}", WRAPS[0]), deleted_plain);
    r!(format!("/deleted/{}", WRAPS[1]), deleted_unnamed);
    r!(format!("/deleted/{}", WRAPS[2]), deleted_h1);
    r!(format!("/deleted/{}", WRAPS[3]), deleted_h3);
    r!(format!("/updated-no-content/{}", WRAPS[0]), updated_plain);
    r!(format!("/updated-no-content/{}", WRAPS[1]), updated_unnamed);
    r!(format!("/updated-no-content/{}", WRAPS[2]), updated_h1);
    r!(format!("/updated-no-content/{}", WRAPS[3]), updated_h3);
    r!("/poison", h_poison);
    r!("/found", h_found);
    r!("/see-other", h_see_other);
    r!("/temporary-redirect", h_temporary);
    Ok(api)
}

pub const RULE_LIVE: &str = "the in-process case space served by a real server (228 typed endpoints: 3 kinds x 19 body types x 4 \
     wrappers, 8 no-content endpoints, 3 redirect endpoints whose handlers rebuild the case from (seed, shard, case) in the query) and read \
     back with the strict raw HTTP/1.1 client on keep-alive connections: status, content-type, body == value, no body bytes on \
     204/3xx, declared/explicit headers, Location; illegal locations must yield an error status; class as in process plus body framing";

/// one client thread: `cases` requests on one keep-alive connection
pub fn live_client(rep: &mut Report, addr: std::net::SocketAddr, seed: u64, shard: u64, first: u64, cases: u64) -> Vec<u64> {
    let mut ran = vec![];
    let mut conn: Option<Conn> = None;
    for c in first..first + cases {
        // the selector generator decides the endpoint; the case generator (same
        // label as the handlers') decides everything else
        let mut sel = Rng::derive(seed, "c12-live-select", shard, c);
        let mut rng = Rng::derive(seed, "c12-live", shard, c);
        let ctx0 = json!({"seed": seed, "shard": shard, "case": c, "engine": "c12-live"});
        let q = format!("?seed={seed}&shard={shard}&case={c}");
        let which = sel.below(10);
        // (path, expectation or "must be an error", class, ctx)
        let (path, exp, class, ctx): (String, Option<Expect>, String, Value) = if which == 0 {
            let (kind, status) = NOBODY[sel.usize(NOBODY.len())];
            let wrap = sel.usize(WRAPS.len());
            let hc = if wrap == 0 { HeaderCase::gen(&mut Rng::new(0), 0, true) } else { HeaderCase::gen(&mut rng, wrap, true) };
            let mut ctx = ctx0;
            ctx["kind"] = json!(kind);
            ctx["headers"] = hc.json();
            (
                format!("/c12/{kind}/{}", WRAPS[wrap]),
                Some(Expect { kind, status, body: None, headers: hc.expected() }),
                format!("{kind}|empty|{}|{}|decl:{}", WRAPS[wrap], hc.coll_class, hc.decl_kind),
                ctx,
            )
        } else if which <= 3 {
            let (kind, status) = REDIRECTS[sel.usize(REDIRECTS.len())];
            let (loc, lclass) = gen_location(&mut rng, true);
            let hc = redirect_headers(&mut rng);
            let mut ctx = ctx0;
            ctx["kind"] = json!(kind);
            ctx["location"] = json!(show(&loc));
            ctx["location_hex"] = json!(hex(loc.as_bytes()));
            ctx["headers"] = hc.json();
            let class = format!("{kind}|location:{lclass}|{}", hc.coll_class);
            if legal_field_value(loc.as_bytes()) {
                let mut headers = hc.expected();
                headers.insert("location".into(), vec![loc.into_bytes()]);
                (format!("/c12/{kind}"), Some(Expect { kind, status, body: None, headers }), class, ctx)
            } else {
                (format!("/c12/{kind}"), None, class, ctx)
            }
        } else {
            let t = &LIVE_TYPES[sel.usize(LIVE_TYPES.len())];
            let (kind, status) = KINDS[sel.usize(KINDS.len())];
            let wrap = sel.usize(WRAPS.len());
            let (want, vclass) = match (t.expect)(&mut rng) {
                Ok(x) => x,
                Err(e) => {
                    rep.inconclusive(&format!("serde_json::to_value refused a {} value: {e}", t.name));
                    continue;
                }
            };
            let hc = if wrap == 0 { HeaderCase::gen(&mut Rng::new(0), 0, true) } else { HeaderCase::gen(&mut rng, wrap, true) };
            let mut ctx = ctx0;
            ctx["kind"] = json!(kind);
            ctx["type"] = json!(t.name);
            ctx["value"] = want.shown();
            ctx["headers"] = hc.json();
            if matches!(want, WantBody::Exact(_)) {
                rep.count("bodies-with-128-bit-integers", 1);
            }
            (
                format!("/c12/{kind}/{}/{}", WRAPS[wrap], t.name),
                Some(Expect { kind, status, body: Some(want), headers: hc.expected() }),
                format!("{kind}|{}:{vclass}|{}|{}|decl:{}", t.name, WRAPS[wrap], hc.coll_class, hc.decl_kind),
                ctx,
            )
        };
        // now and then, first a request whose answer cannot be serialised (not judged)
        if Rng::derive(seed, "c12-poison", shard, c).chance(1, 20) {
            if conn.is_none() {
                conn = Conn::connect(addr).ok();
            }
            if let Some(cn) = conn.as_mut() {
                let pu = vmon::evlog::next_uid();
                let sent = cn.send(&Req::new("GET", &format!("/c12/poison{q}")).uid(pu).encode());
                match sent.ok().and_then(|_| cn.read_response(false).ok()) {
                    Some(r) => {
                        ran.push(pu);
                        rep.count(&format!("unserialisable-value:answered-{}", r.status), 1);
                        if r.wants_close() {
                            conn = None;
                        }
                    }
                    None => conn = None,
                }
            }
        }
        let uid = vmon::evlog::next_uid();
        let req = Req::new("GET", &format!("{path}{q}")).uid(uid).encode();
        // (re)connect
        if conn.is_none() {
            match Conn::connect(addr) {
                Ok(c) => {
                    rep.count("connections", 1);
                    conn = Some(c)
                }
                Err(e) => {
                    rep.inconclusive(&format!("connect: {}", e.kind()));
                    continue;
                }
            }
        }
        let cn = conn.as_mut().unwrap();
        if let Err(e) = cn.send(&req) {
            rep.inconclusive(&format!("send: {}", e.kind()));
            conn = None;
            continue;
        }
        let resp = match cn.read_response(false) {
            Ok(r) => r,
            Err(vmon::client::ReadErr::Malformed(why, bytes)) => {
                rep.eval(class);
                rep.violate(
                    "C12:response-not-valid-http",
                    json!({"case": ctx, "path": path, "why": why, "bytes": show(&String::from_utf8_lossy(&bytes[..bytes.len().min(600)]))}),
                );
                conn = None;
                continue;
            }
            Err(e) => {
                let s = format!("{e:?}");
                rep.inconclusive(&format!("read: {}", s.split('(').next().unwrap_or("")));
                conn = None;
                continue;
            }
        };
        ran.push(uid);
        rep.eval(format!("{class}|framing-{}", resp.framing));
        rep.count(&format!("status-{}", resp.status), 1);
        let seen = Seen { status: resp.status, headers: resp.headers.clone(), body: resp.body.clone() };
        let mut ctx = ctx;
        ctx["path"] = json!(path);
        // the empty location may be refused by the constructor (an error status,
        // not classed); when a redirect is sent it must carry the empty Location
        let exp = if class.contains("|location:empty|") && resp.status >= 400 {
            rep.count("empty-location-refused-with-error-status", 1);
            if resp.wants_close() {
                conn = None;
            }
            continue;
        } else {
            exp
        };
        match exp {
            Some(exp) => {
                let ok = judge(rep, &exp, &seen, &ctx);
                if class.contains("|location:empty|") {
                    rep.count("redirects-with-empty-location-sent", 1);
                }
                let empties = exp.headers.iter().filter(|(n, v)| n.as_str() != "location" && v.iter().any(|x| x.is_empty())).count();
                if empties > 0 {
                    rep.count("expected-headers-with-empty-value", empties as u64);
                }
                if exp.body.is_none() && resp.framing == "chunked" {
                    rep.violate(
                        format!("C12:body-not-empty:{}", exp.kind),
                        json!({"case": ctx, "detail": "chunked framing on a response that has no body"}),
                    );
                }
                if ok && rep.want_sample() && c % 7 == 0 {
                    rep.sample(json!({"case": ctx, "status": resp.status, "framing": resp.framing,
                        "body": show(&String::from_utf8_lossy(&resp.body)),
                        "headers": resp.headers.iter().map(|(n, v)| json!([n, show(&String::from_utf8_lossy(v))])).collect::<Vec<_>>()}));
                }
            }
            None => {
                // illegal location: an error, not a redirect
                rep.count("illegal-location-requests", 1);
                if resp.status < 400 {
                    rep.violate(
                        "C12:illegal-location-not-refused",
                        json!({"case": ctx, "status": resp.status, "location_sent": resp.header_str("location")}),
                    );
                }
            }
        }
        if resp.wants_close() {
            conn = None;
        }
    }
    ran
}

pub fn run_live(seed: u64, threads: usize, cases_per_thread: u64) -> Report {
    let plan = crate::live::Plan {
        property: "C12",
        engine: "E2-live-typed-responses",
        rule: RULE_LIVE,
        seed,
        threads,
        cases_per_thread,
        body_max: 1024,
    };
    crate::live::rounds(&plan, build_api, live_client, &mut |rep, log, ran: Vec<u64>| {
        let entered = log.count_kind("H_ENTER") as u64;
        rep.count("responses", ran.len() as u64);
        rep.count("handler-entries", entered);
        if entered != ran.len() as u64 {
            rep.inconclusive("handler entries differ from responses read");
        }
    })
}
