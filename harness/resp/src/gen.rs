//! Value generators shared by the C12 / C13 / C14 engines: strings of any
//! Unicode (with a class name), header values, numbers at extremes, random
//! JSON trees.

use serde_json::{json, Value};
use vmon::rng::Rng;

pub fn rand_char(rng: &mut Rng, plane: u64) -> char {
    loop {
        let c = match plane {
            0 => rng.range(0x20, 0x7e) as u32,
            1 => rng.range(0xa0, 0x24f) as u32,
            2 => rng.range(0x250, 0xffff) as u32,
            _ => rng.range(0x10000, 0x10ffff) as u32,
        };
        if let Some(c) = char::from_u32(c) {
            return c;
        }
    }
}

const NASTY: &[char] = &[
    '\0', '\u{1}', '\u{8}', '\t', '\n', '\u{b}', '\u{c}', '\r', '\u{1b}', '\u{1f}', '\u{7f}', '"', '\\',
    '/', '\u{80}', '\u{85}', '\u{a0}', '\u{2028}', '\u{2029}', '\u{d7ff}', '\u{e000}', '\u{feff}',
    '\u{fffd}', '\u{fffe}', '\u{ffff}', '\u{10000}', '\u{1f600}', '\u{10ffff}', '\u{200d}', '\u{301}',
    '%', '&', '=', '+', '<', '>', '\'', '{', '}', '[', ']', ':', ',', ' ',
];

pub const STRING_CLASSES: &[&str] = &[
    "empty", "ascii", "ascii-long", "ctl", "json-meta", "latin", "bmp", "astral", "nasty-mix", "any-mix",
    "jsonish", "numeric-looking",
];

/// a string of the named class
pub fn string_of(rng: &mut Rng, class: &str) -> String {
    let len = |rng: &mut Rng| -> usize {
        match rng.below(10) {
            0 => 1,
            1..=6 => 1 + rng.usize(12),
            7..=8 => 10 + rng.usize(60),
            _ => 100 + rng.usize(400),
        }
    };
    match class {
        "empty" => String::new(),
        "ascii" => (0..len(rng)).map(|_| rand_char(rng, 0)).collect(),
        "ascii-long" => (0..1000 + rng.usize(3000)).map(|_| rand_char(rng, 0)).collect(),
        "ctl" => (0..len(rng))
            .map(|_| {
                if rng.chance(1, 2) {
                    char::from_u32(rng.below(0x20) as u32).unwrap()
                } else if rng.chance(1, 8) {
                    '\u{7f}'
                } else {
                    rand_char(rng, 0)
                }
            })
            .collect(),
        "json-meta" => (0..len(rng))
            .map(|_| *rng.pick(&['"', '\\', '/', '\u{8}', '\u{c}', '\n', '\r', '\t', 'u', '0', '{', '}', '[', ']', ':', ',']))
            .collect(),
        "latin" => (0..len(rng)).map(|_| rand_char(rng, 1)).collect(),
        "bmp" => (0..len(rng)).map(|_| rand_char(rng, 2)).collect(),
        "astral" => (0..len(rng)).map(|_| rand_char(rng, 3)).collect(),
        "nasty-mix" => (0..len(rng)).map(|_| *rng.pick(NASTY)).collect(),
        "jsonish" => rng
            .pick(&["null", "true", "{\"a\":1}", "[1,2]", "\"quoted\"", "\\u0041", "\\ud800", "1e400", "NaN", "-0"])
            .to_string(),
        "numeric-looking" => rng
            .pick(&["0", "-1", "18446744073709551616", "1.5", "1e3", "007", "+5", "0x10", " 5"])
            .to_string(),
        _ => (0..len(rng))
            .map(|_| {
                if rng.chance(1, 6) {
                    *rng.pick(NASTY)
                } else {
                    let p = rng.below(4);
                    rand_char(rng, p)
                }
            })
            .collect(),
    }
}

/// (string, class)
pub fn any_string(rng: &mut Rng) -> (String, &'static str) {
    let c = *rng.pick(STRING_CLASSES);
    (string_of(rng, c), c)
}

// ---------------------------------------------------------------- header values

/// own model of a legal header field value (RFC 9110 §5.5 field-content bytes):
/// VCHAR / SP / HTAB / obs-text; CR, LF, NUL, DEL and every other CTL illegal
pub fn legal_field_value(b: &[u8]) -> bool {
    b.iter().all(|&c| c == b'\t' || c == b' ' || (0x21..=0x7e).contains(&c) || c >= 0x80)
}

/// leading/trailing blanks or the empty value: legality debatable on the wire
/// (trimmed as OWS), never classed
pub fn borderline_field_value(b: &[u8]) -> bool {
    b.is_empty() || matches!(b[0], b' ' | b'\t') || matches!(b[b.len() - 1], b' ' | b'\t')
}

pub const LEGAL_HV_CLASSES: &[&str] = &["token", "url", "vchar", "inner-blank", "obs-text", "long"];

/// a header value that is unambiguously legal (no leading/trailing blank, not empty)
pub fn legal_header_value(rng: &mut Rng) -> (String, &'static str) {
    let c = *rng.pick(LEGAL_HV_CLASSES);
    let s: String = match c {
        "token" => (0..1 + rng.usize(12))
            .map(|_| *rng.pick(b"abcdefghijklmnopqrstuvwxyzABCDEFGHIJKLMNOPQRSTUVWXYZ0123456789-_.~!#$%&'*+^`|") as char)
            .collect(),
        "url" => {
            let host = rng.pick(&["example.com", "[::1]:8080", "10.0.0.1", "xn--nxasmq6b.test"]);
            let path: String = (0..rng.usize(4))
                .map(|_| format!("/{}", string_of(rng, "ascii").replace([' ', '"', '\\'], "_")))
                .collect();
            let q = if rng.bool() { format!("?a={}&b=%20%C3%A9", rng.below(1000)) } else { String::new() };
            match rng.below(3) {
                0 => format!("https://{host}{path}{q}"),
                1 => format!("{path}/x{q}"),
                _ => format!("//{host}{path}{q}#frag"),
            }
        }
        "vchar" => (0..1 + rng.usize(40)).map(|_| rng.range(0x21, 0x7e) as u8 as char).collect(),
        "inner-blank" => {
            let mut s = String::from("a");
            for _ in 0..1 + rng.usize(8) {
                s.push(*rng.pick(&[' ', '\t', 'b', ',', ';', '=']));
            }
            s.push('z');
            s
        }
        "obs-text" => {
            let mut s = String::from("x");
            for _ in 0..1 + rng.usize(10) {
                let p = 1 + rng.below(3);
                s.push(rand_char(rng, p));
            }
            s.push('y');
            s
        }
        _ => (0..500 + rng.usize(3000)).map(|_| rng.range(0x21, 0x7e) as u8 as char).collect(),
    };
    debug_assert!(legal_field_value(s.as_bytes()) && !borderline_field_value(s.as_bytes()));
    (s, c)
}

pub const ILLEGAL_CTLS: &[(char, &str)] = &[
    ('\r', "cr"), ('\n', "lf"), ('\0', "nul"), ('\u{7f}', "del"), ('\u{1}', "ctl"), ('\u{b}', "ctl"),
    ('\u{c}', "ctl"), ('\u{1b}', "ctl"), ('\u{1f}', "ctl"), ('\u{8}', "ctl"),
];

/// a string that is NOT a legal field value: a legal one with 1..3 illegal
/// characters inserted at begin / middle / end.  Returns (value, class)
pub fn illegal_header_value(rng: &mut Rng) -> (String, String) {
    let (base, _) = legal_header_value(rng);
    let mut chars: Vec<char> = base.chars().take(60).collect();
    let n = 1 + rng.usize(3);
    let mut kinds = vec![];
    let mut where_ = "";
    for _ in 0..n {
        let (c, k) = *rng.pick(ILLEGAL_CTLS);
        let pos = match rng.below(3) {
            0 => {
                where_ = "begin";
                0
            }
            1 => {
                where_ = "end";
                chars.len()
            }
            _ => {
                where_ = "middle";
                rng.usize(chars.len() + 1)
            }
        };
        chars.insert(pos, c);
        kinds.push(k);
    }
    if rng.chance(1, 10) {
        // the classic response-splitting payload
        let s: String = chars.iter().collect();
        return (format!("{s}\r\nset-cookie: pwned=1"), "crlf-injection".to_string());
    }
    kinds.sort();
    kinds.dedup();
    let s: String = chars.into_iter().collect();
    debug_assert!(!legal_field_value(s.as_bytes()));
    (s, format!("{}@{}", kinds.join("+"), if n == 1 { where_ } else { "multi" }))
}

// ---------------------------------------------------------------- numbers

pub fn extreme_u64(rng: &mut Rng) -> u64 {
    match rng.below(8) {
        0 => 0,
        1 => 1,
        2 => u64::MAX,
        3 => u64::MAX - 1,
        4 => i64::MAX as u64,
        5 => i64::MAX as u64 + 1,
        6 => (1u64 << 53) + rng.below(3),
        _ => rng.next() >> rng.below(64),
    }
}

pub fn extreme_i64(rng: &mut Rng) -> i64 {
    match rng.below(8) {
        0 => 0,
        1 => -1,
        2 => i64::MIN,
        3 => i64::MAX,
        4 => i64::MIN + 1,
        5 => -(1i64 << 53) - 1,
        6 => u32::MAX as i64 + 1,
        _ => (rng.next() as i64) >> rng.below(64),
    }
}

/// any f64 incl. subnormals, extremes, negative zero, non-finite
pub fn extreme_f64(rng: &mut Rng) -> (f64, &'static str) {
    match rng.below(12) {
        0 => (0.0, "zero"),
        1 => (-0.0, "negzero"),
        2 => (f64::MAX, "max"),
        3 => (f64::MIN, "min"),
        4 => (f64::MIN_POSITIVE, "minpos"),
        5 => (f64::from_bits(1 + rng.below(1000)), "subnormal"),
        6 => (f64::EPSILON, "eps"),
        7 => (*rng.pick(&[f64::NAN, f64::INFINITY, f64::NEG_INFINITY]), "nonfinite"),
        8 => ((rng.next() >> 11) as f64, "integral"),
        9 => (rng.range(-1000, 1000) as f64 / 8.0, "dyadic"),
        10 => (0.1 + rng.range(0, 9) as f64 * 0.1, "decimal"),
        _ => {
            let f = f64::from_bits(rng.next());
            if f.is_finite() {
                (f, "anybits")
            } else {
                (1.0e-7, "small")
            }
        }
    }
}

pub fn finite_f64(rng: &mut Rng) -> (f64, &'static str) {
    loop {
        let (f, c) = extreme_f64(rng);
        if f.is_finite() {
            return (f, c);
        }
    }
}

// ---------------------------------------------------------------- JSON trees

/// random JSON tree (serde_json::Value) with strings of any Unicode and
/// numbers at extremes
pub fn json_tree(rng: &mut Rng, depth: u32) -> Value {
    let leaf = depth == 0 || rng.chance(2, 5);
    if leaf {
        match rng.below(7) {
            0 => Value::Null,
            1 => json!(rng.bool()),
            2 => json!(extreme_u64(rng)),
            3 => json!(extreme_i64(rng)),
            4 => {
                let (f, _) = finite_f64(rng);
                json!(f)
            }
            _ => json!(any_string(rng).0),
        }
    } else if rng.bool() {
        Value::Array((0..rng.usize(5)).map(|_| json_tree(rng, depth - 1)).collect())
    } else {
        let mut m = serde_json::Map::new();
        for _ in 0..rng.usize(5) {
            let k = if rng.chance(1, 3) { any_string(rng).0 } else { format!("k{}", rng.below(6)) };
            m.insert(k, json_tree(rng, depth - 1));
        }
        Value::Object(m)
    }
}

pub fn hex(b: &[u8]) -> String {
    b.iter().map(|x| format!("{x:02x}")).collect()
}

/// printable rendering of arbitrary text for witnesses
pub fn show(s: &str) -> String {
    let mut out = String::new();
    for c in s.chars().take(200) {
        out.extend(c.escape_default());
    }
    if s.chars().count() > 200 {
        out.push_str("...");
    }
    out
}

/// percent-encode everything except unreserved characters
pub fn pct(b: &[u8]) -> String {
    let mut out = String::new();
    for &c in b {
        if c.is_ascii_alphanumeric() || matches!(c, b'-' | b'_' | b'.' | b'~') {
            out.push(c as char);
        } else {
            out.push_str(&format!("%{c:02X}"));
        }
    }
    out
}

/// media type application/json, parameters (if any) ignored
pub fn is_json_media_type(v: &[u8]) -> bool {
    let main = v.split(|b| *b == b';').next().unwrap_or(&[]);
    let main: Vec<u8> = main.iter().copied().filter(|b| *b != b' ' && *b != b'\t').collect();
    main.eq_ignore_ascii_case(b"application/json")
}
