//! C14 — page tokens round-trip, malformed tokens are refused, limits are
//! clamped.  Public surface only: ResultsPage::new issues,
//! serde_urlencoded::from_str::<PaginationParams<..>> accepts.

use crate::gen::*;
use crate::types::{gen_ext, gen_inner, ExtE, Inner};
use dropshot::{
    ApiDescription, HttpError, HttpResponseOk, PaginationParams, Query, RequestContext, ResultsPage, WhichPage,
};
use schemars::JsonSchema;
use serde::de::DeserializeOwned;
use serde::{Deserialize, Serialize};
use serde_json::{json, Value};
use std::collections::HashSet;
use std::fmt::Debug;
use vmon::client::{Conn, Req};
use vmon::report::Report;
use vmon::rng::Rng;
use vmon::srv::C;

/// the documented bound on the length of a token
pub const BOUND: usize = 512;

// ------------------------------------------------------------- own base64url

const B64URL: &[u8; 64] = b"ABCDEFGHIJKLMNOPQRSTUVWXYZabcdefghijklmnopqrstuvwxyz0123456789-_";

/// RFC 4648 §5 with padding (independent of the `base64` crate)
pub fn b64url(data: &[u8]) -> String {
    let mut out = String::new();
    for ch in data.chunks(3) {
        let b = [ch[0], *ch.get(1).unwrap_or(&0), *ch.get(2).unwrap_or(&0)];
        let n = (u32::from(b[0]) << 16) | (u32::from(b[1]) << 8) | u32::from(b[2]);
        out.push(B64URL[(n >> 18) as usize & 63] as char);
        out.push(B64URL[(n >> 12) as usize & 63] as char);
        out.push(if ch.len() > 1 { B64URL[(n >> 6) as usize & 63] as char } else { '=' });
        out.push(if ch.len() > 2 { B64URL[n as usize & 63] as char } else { '=' });
    }
    out
}

/// the JSON text of a token for selector JSON `sel` (format documented in
/// pagination.rs: version tag + page_start)
fn token_json(v: &Value, sel: &str) -> String {
    format!("{{\"v\":{v},\"page_start\":{sel}}}")
}

// ------------------------------------------------------------- scan params

#[derive(Deserialize, Serialize, JsonSchema, Debug, Clone, PartialEq)]
#[serde(rename_all = "lowercase")]
pub enum SortMode {
    Ascending,
    Descending,
}

#[derive(Deserialize, Serialize, JsonSchema, Debug, Clone, PartialEq, Default)]
pub struct Scan {
    pub sort: Option<SortMode>,
    pub min: Option<u32>,
    pub prefix: Option<String>,
}

// ------------------------------------------------------------- selectors

pub trait SelGen: Serialize + DeserializeOwned + PartialEq + Debug + Clone + Send + Sync + 'static {
    const NAME: &'static str;
    fn gen(rng: &mut Rng) -> (Self, String);
    /// a selector whose JSON text has (close to) `json_len` bytes, when the type can be stretched
    fn sized(_rng: &mut Rng, _json_len: usize) -> Option<Self> {
        None
    }
    /// JSON values that are definitely not of this type
    fn wrong_shapes() -> Vec<Value>;
}

#[derive(Deserialize, Serialize, JsonSchema, Debug, Clone, PartialEq)]
pub struct SelStr {
    pub last: String,
}

/// a string whose JSON rendering has exactly `n` bytes (n >= 2), from mixed material
fn string_with_json_len(rng: &mut Rng, n: usize) -> String {
    let mut s = String::new();
    let mut len = 2usize;
    let style = rng.below(4);
    while len < n {
        let left = n - len;
        // (char, bytes in JSON)
        let (c, w) = match style {
            0 => (rand_char(rng, 0), 0),
            1 => (*rng.pick(&['"', '\\', '\n', 'a', '\u{1}']), 0),
            2 => {
                let p = rng.below(4);
                (rand_char(rng, p), 0)
            }
            _ => ('x', 1),
        };
        let w = if w == 0 { serde_json::to_string(&c.to_string()).unwrap().len() - 2 } else { w };
        if w <= left {
            s.push(c);
            len += w;
        } else {
            s.push('x');
            len += 1;
        }
    }
    s
}

impl SelGen for SelStr {
    const NAME: &'static str = "struct-string";
    fn gen(rng: &mut Rng) -> (Self, String) {
        let (s, c) = any_string(rng);
        (SelStr { last: s }, c.into())
    }
    fn sized(rng: &mut Rng, json_len: usize) -> Option<Self> {
        // {"last":""} is 11 bytes
        if json_len < 11 {
            return None;
        }
        Some(SelStr { last: string_with_json_len(rng, json_len - 9) })
    }
    fn wrong_shapes() -> Vec<Value> {
        vec![json!(5), json!("s"), json!({}), json!({"last": 5}), json!({"first": "x"}), json!(null), json!({"last": null})]
    }
}

#[derive(Deserialize, Serialize, JsonSchema, Debug, Clone, PartialEq)]
pub struct SelNum {
    pub u: u64,
    pub i: i64,
    pub small: u8,
    pub neg: i32,
}

impl SelGen for SelNum {
    const NAME: &'static str = "struct-numbers";
    fn gen(rng: &mut Rng) -> (Self, String) {
        let v = SelNum {
            u: extreme_u64(rng),
            i: extreme_i64(rng),
            small: *rng.pick(&[0, 1, 255]),
            neg: *rng.pick(&[i32::MIN, -1, 0, i32::MAX]),
        };
        let c = if v.u == u64::MAX || v.i == i64::MIN || v.i == i64::MAX { "extreme" } else { "ordinary" };
        (v, c.into())
    }
    fn wrong_shapes() -> Vec<Value> {
        vec![
            json!("s"),
            json!({"u": "1", "i": 1, "small": 1, "neg": 1}),
            json!({"u": -1, "i": 1, "small": 1, "neg": 1}),
            json!({"u": 1, "i": 1, "small": 256, "neg": 1}),
            json!({"u": 1, "i": 1.5, "small": 1, "neg": 1}),
            json!({"u": 1, "i": 1, "small": 1}),
        ]
    }
}

#[derive(Deserialize, Serialize, JsonSchema, Debug, Clone, PartialEq)]
pub struct SelNested {
    pub name: String,
    pub inner: Inner,
    pub e: ExtE,
    pub o: Option<Box<SelStr>>,
    pub v: Vec<(u8, String)>,
}

impl SelGen for SelNested {
    const NAME: &'static str = "nested";
    fn gen(rng: &mut Rng) -> (Self, String) {
        // keep most of them small enough to be issued
        let short = |rng: &mut Rng| -> String {
            let (s, _) = any_string(rng);
            s.chars().take(rng.usize(8)).collect()
        };
        let mut inner = gen_inner(rng);
        inner.name = short(rng);
        inner.nullable = inner.nullable.map(|_| short(rng));
        inner.pair.1 = short(rng);
        let (e, ec) = gen_ext(rng);
        let e = match e {
            ExtE::Newtype(_) => ExtE::Newtype(short(rng)),
            ExtE::Tuple(a, _) => ExtE::Tuple(a, short(rng)),
            ExtE::Struct { a, b } => ExtE::Struct { a, b: b.map(|_| short(rng)) },
            x => x,
        };
        let v = SelNested {
            name: short(rng),
            inner,
            e,
            o: if rng.bool() { Some(Box::new(SelStr { last: short(rng) })) } else { None },
            v: (0..rng.usize(3)).map(|_| (rng.next() as u8, short(rng))).collect(),
        };
        let c = format!("enum-{ec}|opt-{}|vec-{}", v.o.is_some(), v.v.len());
        (v, c)
    }
    fn wrong_shapes() -> Vec<Value> {
        vec![json!(5), json!({}), json!({"name": "x"}), json!("nested")]
    }
}

impl SelGen for String {
    const NAME: &'static str = "bare-string";
    fn gen(rng: &mut Rng) -> (Self, String) {
        let (s, c) = any_string(rng);
        (s, c.into())
    }
    fn sized(rng: &mut Rng, json_len: usize) -> Option<Self> {
        if json_len < 2 {
            return None;
        }
        Some(string_with_json_len(rng, json_len))
    }
    fn wrong_shapes() -> Vec<Value> {
        vec![json!(5), json!({}), json!([]), json!(null), json!(true)]
    }
}

#[derive(Deserialize, Serialize, JsonSchema, Debug, Clone, PartialEq)]
#[serde(rename_all = "snake_case")]
pub enum SelEnum {
    ById(u64),
    ByName { name: String, dir: SortMode },
    ByNameAndId(String, i64),
    Start,
}

impl SelGen for SelEnum {
    const NAME: &'static str = "enum";
    fn gen(rng: &mut Rng) -> (Self, String) {
        match rng.below(4) {
            0 => (SelEnum::ById(extreme_u64(rng)), "newtype".into()),
            1 => (
                SelEnum::ByName { name: any_string(rng).0, dir: if rng.bool() { SortMode::Ascending } else { SortMode::Descending } },
                "struct".into(),
            ),
            2 => (SelEnum::ByNameAndId(any_string(rng).0, extreme_i64(rng)), "tuple".into()),
            _ => (SelEnum::Start, "unit".into()),
        }
    }
    fn wrong_shapes() -> Vec<Value> {
        vec![json!(5), json!({}), json!("nope"), json!({"by_id": "x"}), json!({"unknown_variant": 1}), json!({"by_id": 1, "start": null})]
    }
}

#[derive(Deserialize, Serialize, JsonSchema, Debug, Clone, PartialEq)]
pub struct SelFloat {
    pub f: f64,
    pub fs: Vec<f64>,
}

impl SelGen for SelFloat {
    const NAME: &'static str = "floats";
    fn gen(rng: &mut Rng) -> (Self, String) {
        let (f, c) = finite_f64(rng);
        let n = rng.usize(4);
        (SelFloat { f, fs: (0..n).map(|_| finite_f64(rng).0).collect() }, c.into())
    }
    fn wrong_shapes() -> Vec<Value> {
        vec![json!("1.5"), json!({"f": "1.5", "fs": []}), json!({"f": 1.5}), json!({"f": null, "fs": []})]
    }
}

impl SelGen for (u64, String, Option<bool>) {
    const NAME: &'static str = "bare-tuple";
    fn gen(rng: &mut Rng) -> (Self, String) {
        let (s, c) = any_string(rng);
        ((extreme_u64(rng), s, *rng.pick(&[None, Some(true), Some(false)])), c.into())
    }
    fn wrong_shapes() -> Vec<Value> {
        vec![json!(5), json!({}), json!([1, "a"]), json!([1, "a", null, 4]), json!(["a", 1, null])]
    }
}

/// 128-bit values around and beyond the 64-bit range (IPv6-address-sized ids,
/// nanosecond counters, ...)
pub fn wide_u128(rng: &mut Rng) -> (u128, &'static str) {
    match rng.below(9) {
        0 => (0, "within-64"),
        1 => (u64::MAX as u128, "u64-max"),
        2 => (u64::MAX as u128 + 1, "u64-max+1"),
        3 => (u128::MAX, "u128-max"),
        4 => (u128::MAX - rng.below(1000) as u128, "near-u128-max"),
        5 => (1u128 << (64 + rng.below(64)), "power-of-two-beyond-64"),
        // an IPv6 address as an integer
        6 => (0x2001_0db8_0000_0000_0000_0000_0000_0000u128 | rng.next() as u128, "ipv6-sized"),
        7 => (((rng.next() as u128) << 64) | rng.next() as u128, "random-128"),
        _ => (rng.next() as u128, "within-64"),
    }
}

pub fn wide_i128(rng: &mut Rng) -> (i128, &'static str) {
    match rng.below(9) {
        0 => (-1, "within-64"),
        1 => (i64::MIN as i128, "i64-min"),
        2 => (i64::MIN as i128 - 1, "i64-min-1"),
        3 => (i128::MIN, "i128-min"),
        4 => (i128::MAX, "i128-max"),
        5 => (u64::MAX as i128 + 1, "u64-max+1"),
        6 => (-(1i128 << (64 + rng.below(63))), "negative-power-of-two-beyond-64"),
        7 => ((((rng.next() as u128) << 64) | rng.next() as u128) as i128, "random-128"),
        _ => (rng.next() as i64 as i128, "within-64"),
    }
}

#[derive(Deserialize, Serialize, Debug, Clone, PartialEq)]
pub struct SelWide {
    pub id: u128,
    pub offset: i128,
    pub name: String,
    pub more: Vec<u128>,
    pub maybe: Option<i128>,
}

pub fn gen_wide(rng: &mut Rng) -> (SelWide, String) {
    let (id, ic) = wide_u128(rng);
    let (offset, oc) = wide_i128(rng);
    let n = rng.usize(3);
    let v = SelWide {
        id,
        offset,
        name: any_string(rng).0.chars().take(12).collect(),
        more: (0..n).map(|_| wide_u128(rng).0).collect(),
        maybe: if rng.bool() { Some(wide_i128(rng).0) } else { None },
    };
    (v, format!("u128:{ic}|i128:{oc}"))
}

impl SelGen for SelWide {
    const NAME: &'static str = "struct-128-bit-integers";
    fn gen(rng: &mut Rng) -> (Self, String) {
        gen_wide(rng)
    }
    fn wrong_shapes() -> Vec<Value> {
        vec![
            json!("s"),
            json!(5),
            json!({"id": "1", "offset": 1, "name": "", "more": [], "maybe": null}),
            json!({"id": -1, "offset": 1, "name": "", "more": [], "maybe": null}),
            json!({"id": 1, "offset": 1.5, "name": "", "more": [], "maybe": null}),
            json!({"id": 1, "offset": 1, "name": "", "more": ["x"], "maybe": null}),
            json!({"id": 1, "offset": 1, "name": ""}),
        ]
    }
}

impl SelGen for u128 {
    const NAME: &'static str = "bare-u128";
    fn gen(rng: &mut Rng) -> (Self, String) {
        let (v, c) = wide_u128(rng);
        (v, c.into())
    }
    fn wrong_shapes() -> Vec<Value> {
        vec![json!("1"), json!(-1), json!(1.5), json!({}), json!(null), json!([1])]
    }
}

#[derive(Deserialize, Serialize, Debug, Clone, PartialEq)]
#[serde(rename_all = "snake_case")]
pub enum SelWideEnum {
    After(i128),
    Between { lo: u128, hi: u128 },
    Pair(u128, i128),
}

impl SelGen for SelWideEnum {
    const NAME: &'static str = "enum-128-bit-integers";
    fn gen(rng: &mut Rng) -> (Self, String) {
        match rng.below(3) {
            0 => {
                let (v, c) = wide_i128(rng);
                (SelWideEnum::After(v), format!("newtype|{c}"))
            }
            1 => {
                let (lo, c) = wide_u128(rng);
                (SelWideEnum::Between { lo, hi: wide_u128(rng).0 }, format!("struct|{c}"))
            }
            _ => {
                let (a, c) = wide_u128(rng);
                (SelWideEnum::Pair(a, wide_i128(rng).0), format!("tuple|{c}"))
            }
        }
    }
    fn wrong_shapes() -> Vec<Value> {
        vec![json!(5), json!({}), json!("after"), json!({"after": "x"}), json!({"between": {"lo": 1}}), json!({"pair": [1]})]
    }
}

// ------------------------------------------------------------- the two calls

/// issue through the public surface
fn issue<S: SelGen>(sel: &S, scan: &Scan) -> Result<Result<Option<String>, String>, vmon::panics::PanicRec> {
    let s2 = sel.clone();
    let sc = scan.clone();
    vmon::panics::catch_quiet(std::panic::AssertUnwindSafe(move || {
        ResultsPage::new(vec![1u32], &sc, |_item: &u32, _scan: &Scan| s2.clone())
            .map(|p| p.next_page)
            .map_err(|e| e.internal_message)
    }))
}

#[derive(Debug)]
enum Accepted<S> {
    Next(S),
    First(Scan),
    Err(String),
}

/// accept a raw query string through the public surface
fn accept<S: SelGen>(query: &str) -> Result<Accepted<S>, vmon::panics::PanicRec> {
    let q = query.to_string();
    vmon::panics::catch_quiet(move || match serde_urlencoded::from_str::<PaginationParams<Scan, S>>(&q) {
        Ok(p) => match p.page {
            WhichPage::Next(s) => Accepted::Next(s),
            WhichPage::First(s) => Accepted::First(s),
        },
        Err(e) => Accepted::Err(e.to_string()),
    })
}

fn same_sel<S: SelGen>(a: &S, b: &S) -> bool {
    a == b && serde_json::to_string(a).ok() == serde_json::to_string(b).ok()
}

fn size_class(tok_len: usize) -> String {
    match tok_len {
        0..=100 => "len<=100".into(),
        101..=400 => "len<=400".into(),
        401..=495 => "len<=495".into(),
        n if n <= 540 => format!("len={n}"),
        _ => "len>540".into(),
    }
}

/// issue -> accept round trip for one selector
fn round_trip<S: SelGen>(rep: &mut Report, sel: &S, vclass: &str, ctx: &Value) -> Option<String> {
    // domain: every generated selector is JSON-representable by construction
    // (finite floats only, string map keys); a value serde_json cannot even
    // write is outside the domain
    let Ok(own) = serde_json::to_string(sel) else {
        rep.inconclusive(&format!("{} selector value cannot be written as JSON (outside the domain)", S::NAME));
        return None;
    };
    let predicted = 4 * (24 + own.len()).div_ceil(3);
    let scan = Scan::default();
    let issued = match issue(sel, &scan) {
        Err(p) => {
            rep.eval(format!("issue|{}|{vclass}|panic", S::NAME));
            rep.violate(
                "C14:issuing-panics",
                json!({"case": ctx, "selector": own, "panic_location": p.location, "panic_message": p.message}),
            );
            return None;
        }
        Ok(r) => r,
    };
    match issued {
        Err(_) => {
            rep.eval(format!("issue|{}|{vclass}|refused|predicted-{}", S::NAME, size_class(predicted)));
            rep.count(if predicted > BOUND { "issue-refused:over-bound" } else { "issue-refused:within-bound" }, 1);
            None
        }
        Ok(None) => {
            rep.eval(format!("issue|{}|{vclass}|no-token", S::NAME));
            rep.violate("C14:no-token-issued-for-nonempty-page", json!({"case": ctx, "selector": own}));
            None
        }
        Ok(Some(tok)) => {
            rep.eval(format!("issue|{}|{vclass}|issued|{}", S::NAME, size_class(tok.len())));
            rep.count("tokens-issued", 1);
            if tok.len() >= 500 {
                rep.count(&format!("issued-token-length-{}", tok.len()), 1);
            }
            let spelled = [("pct-encoded", format!("page_token={}", pct(tok.as_bytes()))), ("raw", format!("page_token={tok}"))];
            let mut accepted_back = true;
            for (spelling, q) in spelled {
                let wit = |got: String| {
                    json!({"case": ctx, "selector": own, "token": tok, "token_len": tok.len(), "query_spelling": spelling, "accept_result": got})
                };
                match accept::<S>(&q) {
                    Err(p) => {
                        accepted_back = false;
                        rep.violate("C14:accepting-panics", wit(format!("panic at {}: {}", p.location, p.message)))
                    }
                    Ok(Accepted::Next(back)) => {
                        if !same_sel(&back, sel) {
                            accepted_back = false;
                            rep.violate(
                                format!("C14:issued-token-yields-different-selector:{}", S::NAME),
                                wit(serde_json::to_string(&back).unwrap_or_default()),
                            );
                        } else {
                            rep.count("round-trips-equal", 1);
                            rep.count(&format!("round-trips-equal:{}", S::NAME), 1);
                        }
                    }
                    Ok(Accepted::First(_)) => {
                        accepted_back = false;
                        rep.violate("C14:token-routed-as-first-page", wit("First".into()))
                    }
                    Ok(Accepted::Err(e)) => {
                        accepted_back = false;
                        let sig = if tok.len() > BOUND {
                            "C14:issued-token-refused:over-long-token-issued".to_string()
                        } else {
                            format!("C14:issued-token-refused:{}", if tok.len() == BOUND { "at-bound" } else { "within-bound" })
                        };
                        rep.violate(sig, wit(e));
                    }
                }
            }
            // the follow-up families need a token that works
            accepted_back.then_some(tok)
        }
    }
}

fn byte_class(b: u8) -> &'static str {
    match b {
        b'A'..=b'Z' | b'a'..=b'z' | b'0'..=b'9' | b'-' | b'_' => "b64url",
        b'+' | b'/' => "b64std",
        b'=' => "pad",
        0..=0x1f | 0x7f => "ctl",
        0x80..=0xff => "high",
        _ => "other-ascii",
    }
}

/// Err or some selector, never a panic, never a first page
fn lenient_outcome<S: SelGen>(rep: &mut Report, class_prefix: &str, query: &str, orig: Option<&S>, wit: &dyn Fn() -> Value) {
    match accept::<S>(query) {
        Err(p) => {
            rep.eval(format!("{class_prefix}|panic"));
            rep.violate(
                "C14:malformed-token-panics",
                json!({"case": wit(), "query": query, "panic_location": p.location, "panic_message": p.message}),
            );
        }
        Ok(Accepted::First(_)) => {
            rep.eval(format!("{class_prefix}|first"));
            rep.violate("C14:token-routed-as-first-page", json!({"case": wit(), "query": query}));
        }
        Ok(Accepted::Err(_)) => rep.eval(format!("{class_prefix}|refused")),
        Ok(Accepted::Next(s)) => {
            let same = orig.is_some_and(|o| same_sel(o, &s));
            rep.eval(format!("{class_prefix}|{}", if same { "same-selector" } else { "other-selector" }));
        }
    }
}

/// must be refused
fn strict_refusal<S: SelGen>(rep: &mut Report, class: &str, sigkind: &str, query: &str, wit: &dyn Fn() -> Value) {
    match accept::<S>(query) {
        Err(p) => {
            rep.eval(format!("malformed|{}|{class}|panic", S::NAME));
            rep.violate(
                "C14:malformed-token-panics",
                json!({"case": wit(), "query": query, "panic_location": p.location, "panic_message": p.message}),
            );
        }
        Ok(Accepted::Err(_)) => {
            rep.eval(format!("malformed|{}|{class}|refused", S::NAME));
            rep.count("malformed-refused", 1);
        }
        Ok(Accepted::First(_)) => {
            rep.eval(format!("malformed|{}|{class}|first", S::NAME));
            rep.violate("C14:token-routed-as-first-page", json!({"case": wit(), "query": query}));
        }
        Ok(Accepted::Next(s)) => {
            rep.eval(format!("malformed|{}|{class}|accepted", S::NAME));
            rep.violate(
                format!("C14:{sigkind}-token-accepted"),
                json!({"case": wit(), "query": query, "selector_obtained": serde_json::to_string(&s).unwrap_or_default()}),
            );
        }
    }
}

/// the definitely-malformed families built around a valid selector
fn malformed_families<S: SelGen>(rep: &mut Report, rng: &mut Rng, sel: &S, tok: &str, ctx: &Value) {
    // JSON text, not a Value: a Value cannot hold integers beyond 64 bits
    let sel_json: String = serde_json::to_string(sel).expect("round_trip checked that the selector can be written");
    let q = |t: &str| format!("page_token={}", pct(t.as_bytes()));
    let wit_for = |what: String| {
        let ctx = ctx.clone();
        move || json!({"ctx": ctx, "family": what})
    };
    // wrong / unknown version
    for v in [json!("v2"), json!("v0"), json!("V1"), json!(""), json!("v1 "), json!("v11"), json!(1), json!(null), json!(["v1"]), json!({"v": "v1"})] {
        let t = b64url(token_json(&v, &sel_json).as_bytes());
        if t.len() <= BOUND {
            strict_refusal::<S>(rep, "wrong-version", "wrong-version", &q(&t), &wit_for(format!("version {v}")));
        }
    }
    // wrong shape
    let base = sel_json.clone();
    let mut shapes: Vec<(String, String)> = vec![
        ("top-array".into(), "[]".into()),
        ("top-string".into(), "\"v1\"".into()),
        ("top-null".into(), "null".into()),
        ("top-empty-object".into(), "{}".into()),
        ("missing-page_start".into(), "{\"v\":\"v1\"}".into()),
        ("missing-version".into(), format!("{{\"page_start\":{base}}}")),
    ];
    for w in S::wrong_shapes() {
        shapes.push(("page_start-wrong-type".into(), token_json(&json!("v1"), &w.to_string())));
    }
    for (what, js) in shapes {
        let t = b64url(js.as_bytes());
        if t.len() <= BOUND {
            strict_refusal::<S>(rep, &format!("wrong-shape:{what}"), "wrong-shape", &q(&t), &wit_for(format!("token JSON {js}")));
        }
    }
    // base64 of non-JSON
    let good = token_json(&json!("v1"), &sel_json);
    let mut nonjson: Vec<(&str, Vec<u8>)> = vec![
        ("random-bytes", {
            let n = 1 + rng.usize(60);
            rng.bytes(n)
        }),
        ("empty", vec![]),
        ("truncated-json", good.as_bytes()[..good.len() - 1 - rng.usize(good.len() - 1)].to_vec()),
        ("trailing-garbage", format!("{good} x").into_bytes()),
        ("trailing-second-value", format!("{good}{good}").into_bytes()),
        ("single-quotes", good.replace('"', "'").into_bytes()),
        ("invalid-utf8", {
            let mut b = good.clone().into_bytes();
            let p = b.len() - 2;
            b.insert(p, 0xff);
            b
        }),
    ];
    nonjson.push(("nul-prefix", [b"\0".as_slice(), good.as_bytes()].concat()));
    for (what, bytes) in nonjson {
        let t = b64url(&bytes);
        if t.len() <= BOUND && (what != "single-quotes" || good.contains('"')) {
            strict_refusal::<S>(rep, &format!("not-json:{what}"), "non-json", &q(&t), &wit_for(format!("token bytes {}", hex(&bytes))));
        }
    }
    // characters outside both base64 alphabets
    for bad in ["*", "!", "#", " ", "\n", "\u{e9}", "%", "\0", "."] {
        let mut t = tok.to_string();
        let pos = rng.usize(t.len());
        t.replace_range(pos..pos + 1, bad);
        strict_refusal::<S>(rep, "not-base64:foreign-character", "non-base64", &q(&t), &wit_for(format!("char {bad:?} at {pos}")));
    }
    // the empty token
    strict_refusal::<S>(rep, "not-json:empty-token", "empty", "page_token=", &wit_for("empty token".into()));
    // over-long but otherwise perfectly valid tokens
    {
        for want_len in [BOUND + 4, BOUND + 8, 600, 1024, 4096, 70_000] {
            // valid JSON may carry insignificant whitespace: stretch with blanks
            let raw_len = want_len / 4 * 3;
            if raw_len <= good.len() {
                continue;
            }
            let mut js = good.clone();
            let fill = raw_len - good.len();
            js.insert_str(good.len() - 1, &" ".repeat(fill));
            let t = b64url(js.as_bytes());
            debug_assert!(t.len() > BOUND);
            strict_refusal::<S>(rep, &format!("over-long:{}", size_class(t.len())), "over-long", &q(&t), &wit_for(format!("valid token stretched with blanks to {} chars", t.len())));
        }
    }
    // unclassed spellings: either refused or some selector
    let lenient: Vec<(&str, String)> = vec![
        ("padding-stripped", tok.trim_end_matches('=').to_string()),
        ("padding-extra", format!("{tok}=")),
        ("std-alphabet", tok.replace('-', "+").replace('_', "/")),
        ("json-whitespace", b64url(format!(" {good}\n").as_bytes())),
        ("extra-member", b64url(format!("{},\"extra\":1}}", &good[..good.len() - 1]).as_bytes())),
        ("duplicate-version", b64url(format!("{{\"v\":\"v1\",{}", &good[1..]).as_bytes())),
        ("members-reordered", b64url(format!("{{\"page_start\":{base},\"v\":\"v1\"}}").as_bytes())),
    ];
    for (what, t) in lenient {
        if t.len() <= BOUND {
            lenient_outcome::<S>(rep, &format!("spelling|{}|{what}", S::NAME), &q(&t), Some(sel), &wit_for(what.to_string()));
        }
    }
}

/// EVERY single-byte substitution, insertion and deletion of `tok`
fn mutate_exhaustively<S: SelGen>(rep: &mut Report, sel: &S, tok: &str, ctx: &Value) {
    let t = tok.as_bytes();
    let q = |b: &[u8]| format!("page_token={}", pct(b));
    let mut n = 0u64;
    for pos in 0..t.len() {
        for b in 0..=255u8 {
            if b == t[pos] {
                continue;
            }
            let mut m = t.to_vec();
            m[pos] = b;
            n += 1;
            lenient_outcome::<S>(rep, &format!("mutation|substitute|{}", byte_class(b)), &q(&m), Some(sel), &|| {
                json!({"ctx": ctx, "token": tok, "mutation": "substitute", "pos": pos, "byte": b})
            });
        }
        let mut m = t.to_vec();
        m.remove(pos);
        n += 1;
        lenient_outcome::<S>(rep, &format!("mutation|delete|{}", byte_class(t[pos])), &q(&m), Some(sel), &|| {
            json!({"ctx": ctx, "token": tok, "mutation": "delete", "pos": pos})
        });
    }
    for pos in 0..=t.len() {
        for b in 0..=255u8 {
            let mut m = t.to_vec();
            m.insert(pos, b);
            n += 1;
            lenient_outcome::<S>(rep, &format!("mutation|insert|{}", byte_class(b)), &q(&m), Some(sel), &|| {
                json!({"ctx": ctx, "token": tok, "mutation": "insert", "pos": pos, "byte": b})
            });
        }
    }
    rep.count("single-byte-mutations", n);
    rep.count("tokens-mutated-exhaustively", 1);
}

/// token present + other parameters: the selector must not change
fn token_with_params<S: SelGen>(rep: &mut Report, rng: &mut Rng, sel: &S, tok: &str, ctx: &Value) {
    let extras: &[(&str, &str)] = &[
        ("valid-scan", "sort=ascending&min=5"),
        ("valid-scan-2", "prefix=abc&sort=descending"),
        ("ill-typed-number", "min=abc"),
        ("ill-typed-negative", "min=-1"),
        ("ill-typed-overflow", "min=4294967296"),
        ("ill-typed-enum", "sort=sideways"),
        ("empty-value", "min="),
        ("unknown-parameter", "zzz=1&yyy="),
        ("contradictory", "sort=ascending&prefix=zzzz&min=4294967295"),
        ("valid-limit", "limit=7"),
        ("limit-and-scan", "limit=10000&sort=ascending"),
        ("nasty-prefix", "prefix=%00%FF%22%5C&sort=descending"),
    ];
    for (what, extra) in extras {
        let tokq = format!("page_token={}", pct(tok.as_bytes()));
        let q = match rng.below(3) {
            0 => format!("{tokq}&{extra}"),
            1 => format!("{extra}&{tokq}"),
            _ => {
                let (a, b) = extra.split_once('&').unwrap_or((extra, "k=v"));
                format!("{a}&{tokq}&{b}")
            }
        };
        let class = format!("token+params|{}|{what}", S::NAME);
        match accept::<S>(&q) {
            Err(p) => {
                rep.eval(format!("{class}|panic"));
                rep.violate("C14:accepting-panics", json!({"case": ctx, "query": q, "panic_location": p.location, "panic_message": p.message}));
            }
            Ok(Accepted::Next(s)) if same_sel(&s, sel) => {
                rep.eval(format!("{class}|same-selector"));
                rep.count("token+params-unchanged", 1);
            }
            Ok(other) => {
                rep.eval(format!("{class}|changed"));
                rep.violate(
                    format!("C14:other-parameter-changes-token-outcome:{what}"),
                    json!({"case": ctx, "query": q, "expected_selector": serde_json::to_string(sel).unwrap_or_default(), "got": format!("{other:?}").chars().take(300).collect::<String>()}),
                );
            }
        }
    }
}

/// no token: the scan parameters are parsed
fn first_page(rep: &mut Report, rng: &mut Rng, ctx: &Value) {
    let sort = rng.pick(&[None, Some(SortMode::Ascending), Some(SortMode::Descending)]).clone();
    let min = *rng.pick(&[None, Some(0u32), Some(1), Some(u32::MAX), Some(12345)]);
    let (prefix, pclass) = if rng.bool() {
        let (s, c) = any_string(rng);
        (Some(s), c)
    } else {
        (None, "absent")
    };
    let mut parts = vec![];
    if let Some(s) = &sort {
        parts.push(format!("sort={}", if *s == SortMode::Ascending { "ascending" } else { "descending" }));
    }
    if let Some(m) = min {
        parts.push(format!("min={m}"));
    }
    if let Some(p) = &prefix {
        parts.push(format!("prefix={}", pct(p.as_bytes())));
    }
    let with_limit = rng.bool();
    if with_limit {
        parts.push(format!("limit={}", 1 + rng.below(20000)));
    }
    rng.shuffle(&mut parts);
    let q = parts.join("&");
    let want = Scan { sort, min, prefix };
    let class = format!(
        "first-page|sort-{}|min-{}|prefix-{pclass}|limit-{with_limit}",
        want.sort.is_some(),
        match min {
            None => "absent",
            Some(0) => "zero",
            Some(u32::MAX) => "max",
            _ => "some",
        }
    );
    match accept::<SelStr>(&q) {
        Err(p) => {
            rep.eval(format!("{class}|panic"));
            rep.violate("C14:accepting-panics", json!({"case": ctx, "query": q, "panic_location": p.location, "panic_message": p.message}));
        }
        Ok(Accepted::First(s)) if s == want => {
            rep.eval(format!("{class}|first-equal"));
            rep.count("first-pages-parsed", 1);
        }
        Ok(other) => {
            rep.eval(format!("{class}|wrong"));
            rep.violate(
                "C14:first-page-scan-parameters-not-parsed",
                json!({"case": ctx, "query": q, "expected": format!("{want:?}"), "got": format!("{other:?}").chars().take(300).collect::<String>()}),
            );
        }
    }
}

/// token-length sweep across the bound for stretchable selector types
fn size_sweep<S: SelGen>(rep: &mut Report, rng: &mut Rng, ctx: &Value) {
    // token = 4*ceil((24 + L)/3); the bound 512 is reached for 24 + L in 382..=384
    for total in 370..=397usize {
        let Some(sel) = S::sized(rng, total - 24) else { return };
        let mut ctx = ctx.clone();
        ctx["sweep_json_len"] = json!(total);
        round_trip(rep, &sel, &format!("sweep{:+}", total as i64 - 384), &ctx);
    }
    // far beyond
    for total in [600usize, 2000, 100_000] {
        let Some(sel) = S::sized(rng, total - 24) else { return };
        round_trip(rep, &sel, "sweep-far-beyond", ctx);
    }
}

fn one_type<S: SelGen>(rep: &mut Report, rng: &mut Rng, ctx: &Value, mutate: bool) {
    let (sel, vclass) = S::gen(rng);
    let mut ctx = ctx.clone();
    ctx["selector_type"] = json!(S::NAME);
    let tok = round_trip(rep, &sel, &vclass, &ctx);
    if rng.chance(1, 40) {
        size_sweep::<S>(rep, rng, &ctx);
    }
    if let Some(tok) = tok {
        if rep.want_sample() && rng.chance(1, 50) {
            rep.sample(json!({"selector_type": S::NAME, "selector": serde_json::to_value(&sel).unwrap_or_default(), "token": tok, "token_len": tok.len()}));
        }
        if rng.chance(1, 4) {
            malformed_families(rep, rng, &sel, &tok, &ctx);
        }
        if rng.chance(1, 4) {
            token_with_params(rep, rng, &sel, &tok, &ctx);
        }
        if mutate && tok.len() <= 160 {
            mutate_exhaustively(rep, &sel, &tok, &ctx);
        }
    }
}

type TypeFn = fn(&mut Report, &mut Rng, &Value, bool);
const TYPES: &[TypeFn] = &[
    one_type::<SelStr>,
    one_type::<SelNum>,
    one_type::<SelNested>,
    one_type::<String>,
    one_type::<SelEnum>,
    one_type::<SelFloat>,
    one_type::<(u64, String, Option<bool>)>,
    one_type::<SelWide>,
    one_type::<u128>,
    one_type::<SelWideEnum>,
];

pub const RULE_INPROC: &str = "selectors of 10 types (struct with any-Unicode string, numbers at extremes, nested struct/enum/option/vector, \
     bare string, enum in 4 variant styles, floats, bare tuple, struct / bare / enum with u128 and i128 values around and beyond the 64-bit \
     range) issued with ResultsPage::new and accepted with \
     serde_urlencoded::from_str::<PaginationParams>; token lengths swept over 496..=532 and far beyond; definitely-malformed families \
     (10 wrong versions, wrong shapes incl. per-type wrong page_start, base64 of non-JSON, foreign characters, empty, valid tokens stretched \
     beyond 512) must be refused; unclassed spellings and EVERY single-byte substitution/insertion/deletion of selected valid tokens must \
     give Err or some selector; token + 12 kinds of other parameters; first pages; class = (family, selector type, value/size/byte \
     class, outcome)";

pub fn run_inproc(seed: u64, shard: u64, cases: u64, mutated_tokens: u64) -> Report {
    let mut rep = Report::new("C14", "E1-page-tokens", RULE_INPROC);
    let every = if mutated_tokens == 0 { u64::MAX } else { (cases / mutated_tokens).max(1) };
    for c in 0..cases {
        let mut rng = Rng::derive(seed, "c14-inproc", shard, c);
        let ctx = json!({"seed": seed, "shard": shard, "case": c, "engine": "c14-inproc"});
        // now and then a page selector that cannot be serialised (outside the judged
        // domain): what its failed token leaves behind meets the judged tokens that follow
        if Rng::derive(seed, "c14-poison", shard, c).chance(1, 25) {
            let sel = crate::types::Poison { a: format!("poison-{c}-{}", "y".repeat((c % 50) as usize)), b: c as u32 };
            let r = vmon::panics::catch_quiet(std::panic::AssertUnwindSafe(move || {
                ResultsPage::new(vec![1u32], &Scan::default(), |_item: &u32, _scan: &Scan| sel.clone()).map(|p| p.next_page.is_some())
            }));
            match r {
                Err(p) => rep.violate("C14:issuing-panics", json!({"case": ctx, "selector": "unserialisable", "panic_location": p.location, "panic_message": p.message})),
                Ok(Ok(tok)) => rep.count(if tok { "unserialisable-selector:token-issued" } else { "unserialisable-selector:no-token" }, 1),
                Ok(Err(_)) => rep.count("unserialisable-selector:refused", 1),
            }
        }
        let f = TYPES[(c % TYPES.len() as u64) as usize];
        f(&mut rep, &mut rng, &ctx, c % every == 0);
        if c % 3 == 0 {
            first_page(&mut rep, &mut rng, &ctx);
        }
    }
    rep
}

// ------------------------------------------------------------------------ live

#[derive(Serialize, JsonSchema)]
pub struct PageEcho {
    pub limit: u32,
    pub which: String,
    /// JSON text of the selector (next page) or of the scan parameters (first page)
    pub params: String,
    pub next_page: Option<String>,
}

#[dropshot::endpoint { method = GET, path = "/c14/page" }]
async fn h_page(
    rqctx: RequestContext<C>,
    q: Query<PaginationParams<Scan, SelStr>>,
) -> Result<HttpResponseOk<PageEcho>, HttpError> {
    let uid = vmon::api::uid_of(&rqctx);
    rqctx.context().log.push("H_ENTER", uid, 0, "page");
    let p = q.into_inner();
    let limit = rqctx.page_limit(&p)?.get();
    let (which, params, scan) = match &p.page {
        WhichPage::First(s) => ("first", serde_json::to_string(s).unwrap_or_default(), s.clone()),
        WhichPage::Next(s) => ("next", serde_json::to_string(s).unwrap_or_default(), Scan::default()),
    };
    let next = ResultsPage::new(vec![uid], &scan, |item: &u64, _s: &Scan| SelStr { last: format!("item-{item}") })?;
    Ok(HttpResponseOk(PageEcho { limit, which: which.to_string(), params, next_page: next.next_page }))
}

/// the selector the wide endpoint issues for first-page parameter `min = k`
/// (the client computes the same value)
pub fn wide_selector_for(seed: u64, k: u32) -> SelWide {
    gen_wide(&mut Rng::derive(seed, "c14-live-wide", 0, k.into())).0
}

/// paginated endpoint whose page selector holds u128 / i128 values; the seed
/// travels in the `prefix` scan parameter
#[dropshot::endpoint { method = GET, path = "/c14/wide" }]
async fn h_wide(
    rqctx: RequestContext<C>,
    q: Query<PaginationParams<Scan, SelWide>>,
) -> Result<HttpResponseOk<PageEcho>, HttpError> {
    let uid = vmon::api::uid_of(&rqctx);
    rqctx.context().log.push("H_ENTER", uid, 0, "wide");
    let p = q.into_inner();
    let limit = rqctx.page_limit(&p)?.get();
    let (which, params, next_sel) = match &p.page {
        WhichPage::First(s) => {
            let seed: u64 = s.prefix.as_deref().and_then(|x| x.parse().ok()).unwrap_or(0);
            ("first", serde_json::to_string(s).unwrap_or_default(), wide_selector_for(seed, s.min.unwrap_or(0)))
        }
        // resuming: hand the same selector out again
        WhichPage::Next(s) => ("next", serde_json::to_string(s).unwrap_or_default(), s.clone()),
    };
    let next = ResultsPage::new(vec![uid], &Scan::default(), |_item: &u64, _s: &Scan| next_sel.clone())?;
    Ok(HttpResponseOk(PageEcho { limit, which: which.to_string(), params, next_page: next.next_page }))
}

/// a page whose selector cannot be serialised (see types::Poison): the request fails,
/// and must leave nothing behind for the tokens issued afterwards
#[dropshot::endpoint { method = GET, path = "/c14/poison" }]
async fn h_poison_page(rqctx: RequestContext<C>) -> Result<HttpResponseOk<PageEcho>, HttpError> {
    let uid = vmon::api::uid_of(&rqctx);
    rqctx.context().log.push("H_ENTER", uid, 0, "poison");
    let sel = crate::types::Poison { a: format!("poison-{uid}-{}", "y".repeat((uid % 50) as usize)), b: uid as u32 };
    let next = ResultsPage::new(vec![uid], &Scan::default(), |_item: &u64, _s: &Scan| sel.clone())?;
    Ok(HttpResponseOk(PageEcho { limit: 0, which: "poison".into(), params: String::new(), next_page: next.next_page }))
}

pub fn build_api() -> Result<ApiDescription<C>, String> {
    let mut api = ApiDescription::new();
    api.register(h_page).map_err(|e| format!("register: {e}"))?;
    api.register(h_wide).map_err(|e| format!("register: {e}"))?;
    api.register(h_poison_page).map_err(|e| format!("register: {e}"))?;
    Ok(api)
}

/// one request / response on the keep-alive connection (None: harness trouble, counted)
fn exchange(rep: &mut Report, conn: &mut Option<Conn>, addr: std::net::SocketAddr, target: &str, uid: u64) -> Option<vmon::client::Resp> {
    if conn.is_none() {
        match Conn::connect(addr) {
            Ok(c) => {
                rep.count("connections", 1);
                *conn = Some(c)
            }
            Err(e) => {
                rep.inconclusive(&format!("connect: {}", e.kind()));
                return None;
            }
        }
    }
    let cn = conn.as_mut().unwrap();
    if let Err(e) = cn.send(&Req::new("GET", target).uid(uid).encode()) {
        rep.inconclusive(&format!("send: {}", e.kind()));
        *conn = None;
        return None;
    }
    match cn.read_response(false) {
        Ok(r) => {
            if r.wants_close() {
                *conn = None;
            }
            Some(r)
        }
        Err(vmon::client::ReadErr::Malformed(why, b)) => {
            rep.violate("C14:response-not-valid-http", json!({"target": target, "why": why, "bytes": show(&String::from_utf8_lossy(&b[..b.len().min(400)]))}));
            *conn = None;
            None
        }
        Err(e) => {
            let s = format!("{e:?}");
            rep.inconclusive(&format!("read: {}", s.split('(').next().unwrap_or("")));
            *conn = None;
            None
        }
    }
}

/// first page of /c14/wide, then the page its own token names: the token the
/// server issued must be accepted back and yield the same selector
fn wide_sequence(rep: &mut Report, conn: &mut Option<Conn>, addr: std::net::SocketAddr, seed: u64, rng: &mut Rng, ctx: &Value, out: &mut Vec<LiveSeen>) {
    let k = rng.below(1 << 20) as u32;
    let want = wide_selector_for(seed, k);
    let want_text = serde_json::to_string(&want).unwrap_or_default();
    let beyond = want.id > u64::MAX as u128 || want.offset < i64::MIN as i128 || want.offset > u64::MAX as i128;
    let class = format!("wide-selector|{}", if beyond { "beyond-64-bit" } else { "within-64-bit" });
    let uid1 = vmon::evlog::next_uid();
    let t1 = format!("/c14/wide?min={k}&prefix={seed}");
    let Some(r1) = exchange(rep, conn, addr, &t1, uid1) else { return };
    rep.eval(format!("{class}|first|status-{}", r1.status));
    out.push(LiveSeen { uid: uid1, status: r1.status, handler: if r1.status == 200 { Some(true) } else { None }, what: format!("{class}|first") });
    let tok = r1.json().and_then(|b| b["next_page"].as_str().map(str::to_string));
    let Some(tok) = tok else {
        // not issuing is allowed by the text (only: never issue what will be refused), but never a crash
        rep.count(&format!("wide-selector-token-not-issued:status-{}", r1.status), 1);
        return;
    };
    let uid2 = vmon::evlog::next_uid();
    let t2 = format!("/c14/wide?page_token={}", pct(tok.as_bytes()));
    let Some(r2) = exchange(rep, conn, addr, &t2, uid2) else { return };
    rep.eval(format!("{class}|next|status-{}", r2.status));
    out.push(LiveSeen { uid: uid2, status: r2.status, handler: if r2.status == 200 { Some(true) } else { None }, what: format!("{class}|next") });
    let wit = |extra: Value| json!({"case": ctx, "first_request": t1, "second_request": t2, "token": tok, "selector_issued": want_text,
        "status": r2.status, "body": show(&String::from_utf8_lossy(&r2.body)), "detail": extra});
    if r2.status != 200 {
        rep.violate("C14:server-issued-token-refused-over-the-wire", wit(json!(null)));
        return;
    }
    let b = r2.json();
    let which = b.as_ref().and_then(|b| b["which"].as_str().map(str::to_string));
    let params = b.as_ref().and_then(|b| b["params"].as_str().map(str::to_string));
    if which.as_deref() != Some("next") {
        rep.violate("C14:token-routed-as-first-page", wit(json!({"which": which})));
    } else if params.as_deref() != Some(want_text.as_str()) {
        // compared as JSON text: both sides are serde_json::to_string of the same type
        rep.violate("C14:token-yields-different-selector-over-the-wire", wit(json!({"got": params})));
    } else {
        rep.count("wire-round-trips-equal:128-bit-selector", 1);
    }
}

pub const RULE_LIVE: &str = "a paginated endpoint (Query<PaginationParams<Scan, Selector>>) echoing rqctx.page_limit() and the page \
     kind; limit strings {absent, 1, 2, 9999, 10000, 10001, 2^32-1, random in range} -> min(n, 10000) / 100; {0, -1, abc, 1.5, -0, 00} -> \
     4xx without handler entry; {2^32, 10^20, empty, +5, 007, blanks, 1e3, 0x10} -> 4xx or a clamped 200 but never 5xx; each on first \
     pages and with a valid token (incl. the token the server itself issued); definitely-malformed tokens -> 4xx and no handler \
     entry; random single-byte mutations -> 4xx or next page, never 5xx / first page; a second endpoint whose selector holds u128/i128 values around and \
     beyond the 64-bit range: the token it issues is followed and must be accepted with the same selector; class = (page kind, limit string class or token \
     family, status)";

const LIMITS_VALID: &[&str] = &["1", "2", "9999", "10000", "10001", "4294967295", "100", "50000"];
const LIMITS_REFUSED: &[&str] = &["0", "-1", "abc", "1.5", "-0", "00", "-4294967296", "NaN"];
const LIMITS_UNCLASSED: &[&str] = &["4294967296", "100000000000000000000", "", "+5", "007", "%205", "5%20", "1e3", "0x10", "%D9%A5", "5%00"];

struct LiveSeen {
    uid: u64,
    status: u16,
    /// Some(true): the handler must have run; Some(false): must not; None: iff 200
    handler: Option<bool>,
    what: String,
}

fn live_client(rep: &mut Report, addr: std::net::SocketAddr, seed: u64, shard: u64, first: u64, cases: u64) -> Vec<LiveSeen> {
    let mut out = vec![];
    let mut conn: Option<Conn> = None;
    // a token the server issued itself (refreshed as we go)
    let mut server_token: Option<(String, String)> = None;
    for c in first..first + cases {
        let mut rng = Rng::derive(seed, "c14-live", shard, c);
        let ctx = json!({"seed": seed, "shard": shard, "case": c, "engine": "c14-live"});
        if Rng::derive(seed, "c14-poison", shard, c).chance(1, 20) {
            // not judged: a request whose page selector cannot be serialised
            let pu = vmon::evlog::next_uid();
            if let Some(r) = exchange(rep, &mut conn, addr, "/c14/poison", pu) {
                rep.count(&format!("unserialisable-selector:answered-{}", r.status), 1);
            }
        }
        if rng.chance(1, 16) {
            wide_sequence(rep, &mut conn, addr, seed, &mut rng, &ctx, &mut out);
            continue;
        }
        let uid = vmon::evlog::next_uid();
        // own valid token
        let near_bound = rng.chance(1, 6);
        let own_sel = if near_bound {
            // token length 496..=512: JSON text of the token 370..=384 bytes
            let total = 370 + rng.usize(15);
            SelStr::sized(&mut rng, total - 24).expect("sized")
        } else {
            SelStr { last: any_string(&mut rng).0.chars().take(40).collect() }
        };
        let own_tok = b64url(token_json(&json!("v1"), &serde_json::to_string(&own_sel).unwrap()).as_bytes());
        // page kind
        let (page_kind, tokq, want_sel): (&str, Option<String>, Option<String>) = match rng.below(4) {
            0 | 1 => ("first", None, None),
            2 if own_tok.len() <= BOUND => (if near_bound { "next-own-token-near-bound" } else { "next-own-token" }, Some(format!("page_token={}", pct(own_tok.as_bytes()))), Some(serde_json::to_string(&own_sel).unwrap())),
            _ => match &server_token {
                Some((t, s)) => ("next-server-token", Some(format!("page_token={}", pct(t.as_bytes()))), Some(s.clone())),
                None => ("first", None, None),
            },
        };
        // (class, query, expectation)
        enum Want {
            Limit(u32),
            Refused,
            /// 4xx, or 200 with a limit in 1..=10000
            Unclassed,
            /// 4xx or 200/next
            Mutation,
        }
        let (what, query, want): (String, String, Want) = match rng.below(10) {
            0..=2 => {
                let l = if rng.chance(1, 3) { (1 + rng.below(u32::MAX as u64)).to_string() } else { rng.pick(LIMITS_VALID).to_string() };
                let n: u64 = l.parse().unwrap();
                let mut parts = vec![format!("limit={l}")];
                parts.extend(tokq.clone());
                if tokq.is_none() && rng.bool() {
                    parts.push("sort=ascending".into());
                }
                // beside a token, scan parameters are ignored whatever they are
                let mut beside = "";
                if tokq.is_some() && rng.chance(1, 3) {
                    beside = *rng.pick(&["min=abc", "sort=sideways", "zzz=1", "min=7&sort=descending", "prefix=%FF"]);
                    parts.push(beside.to_string());
                }
                rng.shuffle(&mut parts);
                let lc = if LIMITS_VALID.contains(&l.as_str()) { l.clone() } else { "random-valid".into() };
                let bc = if beside.is_empty() { String::new() } else { format!("|beside:{beside}") };
                (format!("{page_kind}|limit={lc}{bc}"), parts.join("&"), Want::Limit(n.min(10000) as u32))
            }
            3 => {
                let mut parts: Vec<String> = tokq.clone().into_iter().collect();
                if tokq.is_none() && rng.bool() {
                    parts.push("min=3".into());
                }
                (format!("{page_kind}|limit-absent"), parts.join("&"), Want::Limit(100))
            }
            4 | 5 => {
                let l = *rng.pick(LIMITS_REFUSED);
                let mut parts = vec![format!("limit={l}")];
                parts.extend(tokq.clone());
                rng.shuffle(&mut parts);
                (format!("{page_kind}|limit={l}"), parts.join("&"), Want::Refused)
            }
            6 => {
                let l = *rng.pick(LIMITS_UNCLASSED);
                let mut parts = vec![format!("limit={l}")];
                parts.extend(tokq.clone());
                rng.shuffle(&mut parts);
                (format!("{page_kind}|limit={l:?}"), parts.join("&"), Want::Unclassed)
            }
            7 | 8 => {
                // definitely malformed token
                let sj = serde_json::to_string(&own_sel).unwrap();
                let good = token_json(&json!("v1"), &sj);
                let (fam, t): (&str, String) = match rng.below(9) {
                    0 => ("wrong-version", b64url(token_json(rng.pick(&[json!("v2"), json!("V1"), json!(1), json!(null)]), &sj).as_bytes())),
                    1 => ("wrong-shape", b64url(token_json(&json!("v1"), &rng.pick(&SelStr::wrong_shapes()).to_string()).as_bytes())),
                    2 => ("wrong-shape", b64url(rng.pick(&["[]", "{}", "null", "{\"v\":\"v1\"}"]).as_bytes())),
                    3 => {
                        let n = 1 + rng.usize(50);
                        ("not-json", b64url(&rng.bytes(n)))
                    }
                    4 => ("not-json", b64url(&good.as_bytes()[..good.len() - 1 - rng.usize(good.len() - 1)])),
                    5 => {
                        let mut t = own_tok.clone();
                        let pos = rng.usize(t.len());
                        t.replace_range(pos..pos + 1, *rng.pick(&["*", "!", " ", "\u{e9}", "\n"]));
                        ("not-base64", t)
                    }
                    6 => ("empty", String::new()),
                    _ => {
                        let mut js = good.clone();
                        let want_len = *rng.pick(&[516usize, 520, 1024, 4000]);
                        let fill = (want_len / 4 * 3).saturating_sub(good.len());
                        js.insert_str(good.len() - 1, &" ".repeat(fill));
                        ("over-long", b64url(js.as_bytes()))
                    }
                };
                if t.len() > BOUND && fam != "over-long" {
                    continue;
                }
                let mut parts = vec![format!("page_token={}", pct(t.as_bytes()))];
                if rng.chance(1, 3) {
                    parts.push("limit=5".into());
                }
                rng.shuffle(&mut parts);
                (format!("malformed-token|{fam}"), parts.join("&"), Want::Refused)
            }
            _ => {
                if own_tok.len() > BOUND {
                    continue;
                }
                let mut m = own_tok.clone().into_bytes();
                let pos = rng.usize(m.len());
                let b = rng.next() as u8;
                let kind = match rng.below(3) {
                    0 => {
                        m[pos] = b;
                        "substitute"
                    }
                    1 => {
                        m.insert(pos, b);
                        "insert"
                    }
                    _ => {
                        m.remove(pos);
                        "delete"
                    }
                };
                (format!("mutated-token|{kind}|{}", byte_class(b)), format!("page_token={}", pct(&m)), Want::Mutation)
            }
        };
        let target = if query.is_empty() { "/c14/page".to_string() } else { format!("/c14/page?{query}") };
        let bytes = Req::new("GET", &target).uid(uid).encode();
        if conn.is_none() {
            match Conn::connect(addr) {
                Ok(c) => {
                    rep.count("connections", 1);
                    conn = Some(c)
                }
                Err(e) => {
                    rep.inconclusive(&format!("connect: {}", e.kind()));
                    continue;
                }
            }
        }
        let cn = conn.as_mut().unwrap();
        if let Err(e) = cn.send(&bytes) {
            rep.inconclusive(&format!("send: {}", e.kind()));
            conn = None;
            continue;
        }
        let resp = match cn.read_response(false) {
            Ok(r) => r,
            Err(vmon::client::ReadErr::Malformed(why, b)) => {
                rep.violate("C14:response-not-valid-http", json!({"case": ctx, "target": target, "why": why, "bytes": show(&String::from_utf8_lossy(&b[..b.len().min(400)]))}));
                conn = None;
                continue;
            }
            Err(e) => {
                let s = format!("{e:?}");
                rep.inconclusive(&format!("read: {}", s.split('(').next().unwrap_or("")));
                conn = None;
                continue;
            }
        };
        rep.eval(format!("{what}|status-{}", resp.status));
        rep.count(&format!("status-{}", resp.status), 1);
        let body = resp.json();
        let wit = |extra: Value| json!({"case": ctx, "target": target, "status": resp.status, "body": show(&String::from_utf8_lossy(&resp.body)), "detail": extra});
        let echoed_limit = body.as_ref().and_then(|b| b["limit"].as_u64());
        let echoed_which = body.as_ref().and_then(|b| b["which"].as_str().map(str::to_string));
        let mut handler = None;
        if resp.status >= 500 {
            rep.violate(format!("C14:5xx:{}", what.split('|').next().unwrap_or("")), wit(json!(null)));
        }
        match want {
            Want::Limit(n) => {
                handler = Some(true);
                if resp.status != 200 {
                    let sig = if what.starts_with("next-own-token-near-bound") {
                        "C14:valid-token-near-bound-refused"
                    } else if what.contains("|beside:") {
                        "C14:other-parameter-changes-token-outcome-over-the-wire"
                    } else {
                        "C14:valid-limit-refused"
                    };
                    rep.violate(sig, wit(json!({"expected_limit": n})));
                    handler = None;
                } else if echoed_limit != Some(n.into()) {
                    rep.violate(
                        if what.ends_with("limit-absent") { "C14:default-limit-wrong".to_string() } else { "C14:limit-not-clamped-to-min(client,max)".to_string() },
                        wit(json!({"expected_limit": n, "got": echoed_limit})),
                    );
                }
                if resp.status == 200 {
                    // page kind and selector as the token says
                    let want_which = if tokq.is_some() { "next" } else { "first" };
                    if echoed_which.as_deref() != Some(want_which) {
                        rep.violate("C14:wrong-page-kind", wit(json!({"expected": want_which})));
                    }
                    if let (Some(ws), Some(b)) = (&want_sel, &body) {
                        let got: Option<Value> = b["params"].as_str().and_then(|s| serde_json::from_str(s).ok());
                        let wv: Option<Value> = serde_json::from_str(ws).ok();
                        if got != wv {
                            rep.violate("C14:token-yields-different-selector-over-the-wire", wit(json!({"expected": ws})));
                        } else {
                            rep.count("wire-round-trips-equal", 1);
                        }
                    }
                    if let Some(np) = body.as_ref().and_then(|b| b["next_page"].as_str()) {
                        server_token = Some((np.to_string(), json!({"last": format!("item-{uid}")}).to_string()));
                    }
                }
            }
            Want::Refused => {
                handler = Some(false);
                if !(400..500).contains(&resp.status) && resp.status < 500 {
                    rep.violate(
                        if what.starts_with("malformed-token") { format!("C14:malformed-token-not-refused:{}", what.split('|').nth(1).unwrap_or("")) } else { "C14:bad-limit-not-refused".to_string() },
                        wit(json!({"limit_echoed": echoed_limit, "which": echoed_which})),
                    );
                }
            }
            Want::Unclassed => {
                if resp.status == 200 {
                    if !echoed_limit.is_some_and(|l| (1..=10000).contains(&l)) {
                        rep.violate("C14:limit-not-clamped-to-min(client,max)", wit(json!({"got": echoed_limit})));
                    }
                } else if !(400..500).contains(&resp.status) && resp.status < 500 {
                    rep.violate("C14:unexpected-status-for-limit", wit(json!(null)));
                }
            }
            Want::Mutation => {
                if resp.status == 200 {
                    if echoed_which.as_deref() != Some("next") {
                        rep.violate("C14:token-routed-as-first-page", wit(json!({"which": echoed_which})));
                    }
                } else if !(400..500).contains(&resp.status) && resp.status < 500 {
                    rep.violate("C14:unexpected-status-for-mutated-token", wit(json!(null)));
                }
            }
        }
        if rep.want_sample() && c % 53 == 0 {
            rep.sample(json!({"target": target, "status": resp.status, "body": show(&String::from_utf8_lossy(&resp.body))}));
        }
        out.push(LiveSeen { uid, status: resp.status, handler, what });
        if resp.wants_close() {
            conn = None;
        }
    }
    out
}

pub fn run_live(seed: u64, threads: usize, cases_per_thread: u64) -> Report {
    let plan = crate::live::Plan {
        property: "C14",
        engine: "E2-live-pagination",
        rule: RULE_LIVE,
        seed,
        threads,
        cases_per_thread,
        body_max: 1024,
    };
    crate::live::rounds(&plan, build_api, live_client, &mut |rep, log, all: Vec<LiveSeen>| {
        let entered: HashSet<u64> = log.snapshot().iter().filter(|e| e.kind == "H_ENTER").map(|e| e.uid).collect();
        rep.count("responses", all.len() as u64);
        rep.count("handler-entries", entered.len() as u64);
        for s in &all {
            let ran = entered.contains(&s.uid);
            match s.handler {
                Some(false) if ran => rep.violate(
                    format!("C14:handler-ran-on-refused-input:{}", s.what.split('|').next().unwrap_or("")),
                    json!({"what": s.what, "status": s.status, "uid": s.uid, "seed": seed}),
                ),
                Some(false) => rep.count("refused-without-handler-entry", 1),
                Some(true) if !ran => rep.inconclusive("handler expected to run but logged nothing"),
                _ => {}
            }
            if s.handler.is_none() && (400..500).contains(&s.status) && ran {
                rep.count("4xx-after-handler-entry", 1);
            }
        }
    })
}
