//! vmon_oas: the Rust side of the C07 / C08 document oracles.
//!
//!   vmon_oas c08-dump --out F [--part corpus|dyn] [--seed N] [--shard I] [--count K]
//!       JSON lines: for every corpus API / dynamic case the published
//!       document plus, per type, the SOURCE schema (schemars, openapi3
//!       settings) and where it is placed in the document.
//!   vmon_oas c07-zoo-serve [--doc PATH]
//!       starts the API zoo, prints `PORT <n>` and `DOC <path>`, serves until
//!       stdin closes.
//!
//!   vmon_oas c07 | c08 --seed N --tier quick|thorough --out FILE [--procs N]
//!       engine entry points with the standard contract: run the python
//!       oracle (py/oas_c07.py, py/oas_c08.py) against THIS binary.
//!
//! The verdicts are computed by /verif/py/oas_c08.py and /verif/py/oas_c07.py
//! (independent validator: python jsonschema).
mod corpus;
mod dynschema;
mod zoo;

use std::io::Write;

fn usage() -> ! {
    eprintln!(
        "usage: vmon_oas c08-dump --out F [--part corpus|dyn] [--seed N] [--shard I] [--count K]\n       vmon_oas c07-zoo-serve [--doc PATH] [--workers N]"
    );
    std::process::exit(2)
}

struct Args {
    cmd: String,
    out: String,
    part: String,
    seed: u64,
    shard: u64,
    count: u64,
    doc: String,
    workers: usize,
}

fn parse_args() -> Args {
    let mut a = std::env::args().skip(1);
    let cmd = a.next().unwrap_or_else(|| usage());
    let mut args = Args {
        cmd,
        out: String::new(),
        part: "corpus".into(),
        seed: 1,
        shard: 0,
        count: 100,
        doc: String::new(),
        workers: 8,
    };
    while let Some(k) = a.next() {
        let mut val = || a.next().unwrap_or_else(|| usage());
        match k.as_str() {
            "--out" => args.out = val(),
            "--part" => args.part = val(),
            "--seed" => args.seed = val().parse().unwrap_or_else(|_| usage()),
            "--shard" => args.shard = val().parse().unwrap_or_else(|_| usage()),
            "--count" => args.count = val().parse().unwrap_or_else(|_| usage()),
            "--doc" => args.doc = val(),
            "--workers" => args.workers = val().parse().unwrap_or_else(|_| usage()),
            "--tier" => {
                let _ = val();
            }
            _ => usage(),
        }
    }
    args
}

fn c08_dump(args: &Args) {
    let mut out: Box<dyn Write> = if args.out.is_empty() {
        Box::new(std::io::stdout().lock())
    } else {
        Box::new(std::io::BufWriter::new(std::fs::File::create(&args.out).expect("create --out")))
    };
    match args.part.as_str() {
        "corpus" => {
            for reg in corpus::all() {
                let api = reg.api_name.clone();
                let (doc, entries) = reg.finish();
                let line = serde_json::json!({"kind": "corpus", "api": api, "document": doc, "entries": entries});
                writeln!(out, "{}", serde_json::to_string(&line).unwrap()).unwrap();
            }
        }
        "dyn" => {
            for i in 0..args.count {
                let line = dynschema::dyn_case(args.seed, args.shard, i);
                writeln!(out, "{}", serde_json::to_string(&line).unwrap()).unwrap();
            }
        }
        _ => usage(),
    }
    out.flush().unwrap();
}

/// `vmon_oas c07|c08 ...`: hand over to the python oracle, which drives this very binary
fn run_oracle(which: &str) -> ! {
    let script = format!("{}/../../py/oas_{}.py", env!("CARGO_MANIFEST_DIR"), which);
    let exe = std::env::current_exe().expect("current_exe");
    let status = std::process::Command::new("python3-vt")
        .arg(&script)
        .args(std::env::args().skip(2))
        .env("VMON_OAS_BIN", exe)
        .status();
    match status {
        Ok(s) => std::process::exit(s.code().unwrap_or(2)),
        Err(e) => {
            eprintln!("cannot run python3-vt {script}: {e}");
            std::process::exit(2)
        }
    }
}

fn main() {
    vmon::panics::install();
    match std::env::args().nth(1).as_deref() {
        Some("c07") => run_oracle("c07"),
        Some("c08") => run_oracle("c08"),
        _ => {}
    }
    let args = parse_args();
    let r = std::panic::catch_unwind(|| match args.cmd.as_str() {
        "c08-dump" => c08_dump(&args),
        "c07-zoo-serve" => zoo::serve(&args.doc, args.workers, false),
        "c07-trait-serve" => zoo::serve(&args.doc, args.workers, true),
        "c07-trait-doc" => {
            println!("{}", serde_json::to_string_pretty(&zoo::trait_document()).unwrap());
        }
        "c07-zoo-doc" => {
            println!("{}", serde_json::to_string_pretty(&zoo::document()).unwrap());
        }
        _ => usage(),
    });
    let _ = r;
    let unexpected = vmon::panics::take_unexpected();
    if !unexpected.is_empty() {
        for p in unexpected {
            eprintln!("UNEXPECTED PANIC at {}: {}", p.location, p.message);
        }
        std::process::exit(3);
    }
}
