//! C08 type corpus: types whose schemars (openapi3 settings) schema is the
//! SOURCE and whose rendering inside `ApiDescription::openapi().json()` is
//! the PUBLISHED schema.  Every type is placed at the gen_openapi placement
//! sites it is legal at (request body, response body, query / path
//! parameters, response headers).
#![allow(dead_code, deprecated)]

use dropshot::{
    ApiDescription, ApiEndpoint, ApiEndpointVersions, HttpError, HttpResponseHeaders,
    HttpResponseOk, HttpResponseUpdatedNoContent, Path, Query, RequestContext, TypedBody,
};
use http::Method;
use schemars::gen::{SchemaGenerator, SchemaSettings};
use schemars::schema::{Schema, SchemaObject};
use schemars::JsonSchema;
use serde::de::DeserializeOwned;
use serde::{Deserialize, Serialize};
use serde_json::{json, Value};
use std::collections::{BTreeMap, BTreeSet, HashMap};

// ---------------------------------------------------------------------------
// source schema of a type
// ---------------------------------------------------------------------------

/// The type's own schema under the settings dropshot uses: the root schema
/// (visitors applied) and its definitions.  `root_schema_for` stamps the
/// schema *name* as title when the type has none; that artefact is removed
/// (flagged in `synthetic_title`) so that only titles the type really carries
/// are compared.
pub fn source_of<T: JsonSchema>() -> Value {
    let mut probe = SchemaGenerator::new(SchemaSettings::openapi3());
    let raw = T::json_schema(&mut probe);
    let own_title = match &raw {
        Schema::Object(o) => o.metadata.as_ref().and_then(|m| m.title.clone()),
        _ => None,
    };
    let gen = SchemaGenerator::new(SchemaSettings::openapi3());
    let root = gen.into_root_schema_for::<T>();
    let mut schema = serde_json::to_value(&root.schema).unwrap();
    let synthetic = own_title.is_none();
    if synthetic {
        if let Some(o) = schema.as_object_mut() {
            o.remove("title");
        }
    }
    json!({
        "schema": schema,
        "definitions": serde_json::to_value(&root.definitions).unwrap(),
        "schema_name": T::schema_name(),
        "referenceable": T::is_referenceable(),
        "synthetic_title_removed": synthetic,
    })
}

// ---------------------------------------------------------------------------
// registration helpers
// ---------------------------------------------------------------------------

pub struct Reg {
    pub api: ApiDescription<()>,
    pub entries: Vec<Value>,
    pub api_name: String,
}

async fn h_body<T>(_rq: RequestContext<()>, b: TypedBody<T>) -> Result<HttpResponseOk<T>, HttpError>
where
    T: JsonSchema + Serialize + DeserializeOwned + Send + Sync + 'static,
{
    Ok(HttpResponseOk(b.into_inner()))
}
async fn h_resp<T>(_rq: RequestContext<()>) -> Result<HttpResponseOk<T>, HttpError>
where
    T: JsonSchema + Serialize + Send + Sync + 'static,
{
    unreachable!("corpus endpoints are never served")
}
async fn h_query<T>(_rq: RequestContext<()>, _q: Query<T>) -> Result<HttpResponseUpdatedNoContent, HttpError>
where
    T: JsonSchema + DeserializeOwned + Send + Sync + 'static,
{
    Ok(HttpResponseUpdatedNoContent())
}
async fn h_path<T>(_rq: RequestContext<()>, _p: Path<T>) -> Result<HttpResponseUpdatedNoContent, HttpError>
where
    T: JsonSchema + DeserializeOwned + Send + Sync + 'static,
{
    Ok(HttpResponseUpdatedNoContent())
}
async fn h_err<E>(_rq: RequestContext<()>) -> Result<HttpResponseUpdatedNoContent, E>
where
    E: dropshot::HttpResponseError + JsonSchema + Serialize + Send + Sync + 'static,
{
    unreachable!("corpus endpoints are never served")
}
async fn h_headers<H>(
    _rq: RequestContext<()>,
) -> Result<HttpResponseHeaders<HttpResponseUpdatedNoContent, H>, HttpError>
where
    H: JsonSchema + Serialize + Send + Sync + 'static,
{
    unreachable!("corpus endpoints are never served")
}

impl Reg {
    pub fn new(api_name: &str) -> Reg {
        Reg { api: ApiDescription::new(), entries: vec![], api_name: api_name.to_string() }
    }

    /// register, but never die: every corpus type registers on the unchanged tree, so a
    /// refusal or a panic here means its schema cannot be published at all — that is
    /// reported to the oracle as an entry of its own
    fn guarded_register(&mut self, ep: ApiEndpoint<()>, kind: &str, name: &str) -> bool {
        let api = &mut self.api;
        let r = vmon::panics::catch_quiet(std::panic::AssertUnwindSafe(move || api.register(ep)));
        let why = match r {
            Ok(Ok(())) => return true,
            Ok(Err(e)) => format!("refused: {e:?}"),
            Err(p) => format!("panicked: {}", p.message),
        };
        self.entries.push(json!({"name": format!("{name}@{kind}"), "class": "registration-failed", "api": self.api_name,
            "registration_failed": why, "sites": []}));
        false
    }

    fn entry<T: JsonSchema>(&mut self, name: &str, class: &str, sites: Vec<Value>) {
        self.entries.push(json!({
            "name": name,
            "class": class,
            "api": self.api_name,
            "rust_type": std::any::type_name::<T>(),
            "sites": sites,
            "source": source_of::<T>(),
        }));
    }

    /// request body + response body of `PUT /t/<name>`
    pub fn body<T>(&mut self, name: &str, class: &str)
    where
        T: JsonSchema + Serialize + DeserializeOwned + Send + Sync + 'static,
    {
        let path = format!("/t/{name}");
        let ep = ApiEndpoint::new(
                format!("t_{name}"),
                h_body::<T>,
                Method::PUT,
                "application/json",
                &path,
                ApiEndpointVersions::All,
            );
        if !self.guarded_register(ep, "body", name) {
            return;
        }
        self.entry::<T>(
            name,
            class,
            vec![
                json!({"site": "request_body", "method": "put", "path": path}),
                json!({"site": "response_body", "method": "put", "path": path, "status": "200"}),
            ],
        );
    }

    /// response body only (types that are Serialize but not Deserialize)
    pub fn resp<T>(&mut self, name: &str, class: &str)
    where
        T: JsonSchema + Serialize + Send + Sync + 'static,
    {
        let path = format!("/r/{name}");
        let ep = ApiEndpoint::new(
                format!("r_{name}"),
                h_resp::<T>,
                Method::GET,
                "application/json",
                &path,
                ApiEndpointVersions::All,
            );
        if !self.guarded_register(ep, "resp", name) {
            return;
        }
        self.entry::<T>(
            name,
            class,
            vec![json!({"site": "response_body", "method": "get", "path": path, "status": "200"})],
        );
    }

    /// E as the error type of `GET /e/<name>`: its schema is published as the body of
    /// the operation's 4XX / 5XX responses
    pub fn error<E>(&mut self, name: &str, class: &str)
    where
        E: dropshot::HttpResponseError + JsonSchema + Serialize + Send + Sync + 'static,
    {
        let path = format!("/e/{name}");
        let ep = ApiEndpoint::new(
                format!("e_{name}"),
                h_err::<E>,
                Method::GET,
                "application/json",
                &path,
                ApiEndpointVersions::All,
            );
        if !self.guarded_register(ep, "error", name) {
            return;
        }
        self.entry::<E>(
            &format!("{name}@error"),
            class,
            vec![
                json!({"site": "error_body", "method": "get", "path": path, "status": "4XX"}),
                json!({"site": "error_body", "method": "get", "path": path, "status": "5XX"}),
            ],
        );
    }

    /// members of T as query parameters of `GET /q/<name>`
    pub fn query<T>(&mut self, name: &str, class: &str)
    where
        T: JsonSchema + DeserializeOwned + Send + Sync + 'static,
    {
        let path = format!("/q/{name}");
        let ep = ApiEndpoint::new(
                format!("q_{name}"),
                h_query::<T>,
                Method::GET,
                "application/json",
                &path,
                ApiEndpointVersions::All,
            );
        if !self.guarded_register(ep, "query", name) {
            return;
        }
        self.entry::<T>(
            &format!("{name}@query"),
            class,
            vec![json!({"site": "query", "method": "get", "path": path})],
        );
    }

    /// members of T as path parameters; `vars` are T's field names
    pub fn path<T>(&mut self, name: &str, class: &str, vars: &[&str])
    where
        T: JsonSchema + DeserializeOwned + Send + Sync + 'static,
    {
        let mut path = format!("/p/{name}");
        for v in vars {
            path.push_str(&format!("/{{{v}}}"));
        }
        let ep = ApiEndpoint::new(
                format!("p_{name}"),
                h_path::<T>,
                Method::GET,
                "application/json",
                &path,
                ApiEndpointVersions::All,
            );
        if !self.guarded_register(ep, "path", name) {
            return;
        }
        self.entry::<T>(
            &format!("{name}@path"),
            class,
            vec![json!({"site": "path", "method": "get", "path": path})],
        );
    }

    /// members of H (String fields only) as response headers of `GET /h/<name>`
    pub fn headers<H>(&mut self, name: &str, class: &str)
    where
        H: JsonSchema + Serialize + Send + Sync + 'static,
    {
        let path = format!("/h/{name}");
        let ep = ApiEndpoint::new(
                format!("h_{name}"),
                h_headers::<H>,
                Method::GET,
                "application/json",
                &path,
                ApiEndpointVersions::All,
            );
        if !self.guarded_register(ep, "headers", name) {
            return;
        }
        self.entry::<H>(
            &format!("{name}@headers"),
            class,
            vec![json!({"site": "headers", "method": "get", "path": path, "status": "204"})],
        );
    }

    pub fn finish(self) -> (Value, Vec<Value>) {
        let doc = self
            .api
            .openapi("t", semver::Version::new(1, 0, 0))
            .json()
            .expect("openapi json");
        (doc, self.entries)
    }
}

// ---------------------------------------------------------------------------
// the types
// ---------------------------------------------------------------------------

macro_rules! sd {
    ($($i:item)*) => { $( #[derive(Serialize, Deserialize, JsonSchema, Debug, Clone)] $i )* };
}

sd! {
    /// A plain struct with a doc comment.
    pub struct Plain { pub a: String, pub b: u32, pub c: bool }

    pub struct AllInts {
        pub i8_: i8, pub i16_: i16, pub i32_: i32, pub i64_: i64, pub isize_: isize,
        pub u8_: u8, pub u16_: u16, pub u32_: u32, pub u64_: u64, pub usize_: usize,
        pub i128_: i128, pub u128_: u128,
    }

    pub struct AllFloats { pub f: f32, pub d: f64, pub of: Option<f32>, pub vd: Vec<f64> }

    pub struct NonZeros {
        pub a: std::num::NonZeroU8, pub b: std::num::NonZeroU16, pub c: std::num::NonZeroU32,
        pub d: std::num::NonZeroU64, pub e: std::num::NonZeroUsize,
        pub g: Option<std::num::NonZeroU32>,
    }

    pub struct Stringy {
        pub s: String, pub c: char, pub id: uuid::Uuid, pub t: chrono::DateTime<chrono::Utc>,
        pub ip: std::net::IpAddr, pub v4: std::net::Ipv4Addr, pub v6: std::net::Ipv6Addr,
        pub sa: std::net::SocketAddr, pub p: std::path::PathBuf,
        pub nd: chrono::NaiveDate, pub ndt: chrono::NaiveDateTime,
    }

    pub struct WithOptions {
        pub a: Option<String>, pub b: Option<u32>, pub c: Option<bool>, pub d: Option<Plain>,
        pub e: Option<Vec<String>>, pub f: Option<Option<i64>>, pub g: Option<UnitEnum>,
        pub h: Option<Box<Plain>>, pub i: Option<BTreeMap<String, u8>>,
    }

    pub struct WithDefaults {
        #[serde(default)] pub a: String,
        #[serde(default)] pub b: u32,
        #[serde(default = "d_forty_two")] pub c: i32,
        #[serde(default = "d_plain")] pub d: Plain,
        #[serde(default)] pub e: Vec<u8>,
        #[serde(default)] pub f: Option<bool>,
        #[serde(default = "d_enum")] pub g: UnitEnum,
        #[serde(default = "d_float")] pub h: f64,
        pub required_one: u8,
    }

    #[serde(rename_all = "camelCase")]
    pub struct Renamed {
        pub first_field: String,
        #[serde(rename = "2nd-field")] pub second_field: u16,
        pub third_field_name: Option<bool>,
        #[serde(alias = "old")] pub fourth: i8,
    }

    #[serde(rename = "RenamedContainerX")]
    pub struct RenamedContainer { pub v: u8 }

    pub struct Inner1 { pub x: i32, pub y: Option<String> }
    pub struct Inner2 { #[serde(default)] pub z: bool, pub w: Vec<u16> }

    pub struct Flattened {
        pub own: String,
        #[serde(flatten)] pub one: Inner1,
        #[serde(flatten)] pub two: Inner2,
    }

    pub struct FlattenMap {
        pub own: u8,
        #[serde(flatten)] pub extra: BTreeMap<String, Value>,
    }

    #[serde(deny_unknown_fields)]
    pub struct DenyUnknown { pub a: u8, pub b: Option<String> }

    pub struct Skips {
        pub kept: u8,
        #[serde(skip)] pub skipped: u16,
        #[serde(skip_serializing_if = "Option::is_none")] pub maybe: Option<u32>,
        #[serde(skip_deserializing)] pub out_only: u8,
        #[serde(skip_serializing)] pub in_only: u8,
    }

    pub struct NewtypeString(pub String);
    /// A documented newtype around u32.
    pub struct NewtypeU32(pub u32);
    pub struct NewtypeStruct(pub Plain);
    pub struct NewtypeVec(pub Vec<Plain>);
    pub struct NewtypeOption(pub Option<Plain>);

    #[serde(transparent)]
    pub struct TransparentString(pub String);
    #[serde(transparent)]
    pub struct TransparentStruct { pub inner: Plain }
    /// transparent wrapper with a doc comment
    #[serde(transparent)]
    #[schemars(title = "Titled transparent")]
    pub struct TransparentTitled(pub u16);

    pub struct EmptyStruct {}

    pub struct Recursive { pub v: u8, pub next: Option<Box<Recursive>> }
    pub struct Tree { pub label: String, pub kids: Vec<Tree> }
    pub struct MutA { pub b: Option<Box<MutB>>, pub n: u8 }
    pub struct MutB { pub a: Vec<MutA>, pub s: String }
    pub struct MapRec { pub m: BTreeMap<String, MapRec> }

    pub struct Nested { pub plain: Plain, pub ints: Box<AllInts>, pub deep: Nested2 }
    pub struct Nested2 { pub list: Vec<Nested3>, pub map: BTreeMap<String, Nested3> }
    pub struct Nested3 { pub e: MixedExternal, pub o: Option<Inner1> }

    pub struct Generic<T> { pub value: T, pub many: Vec<T> }

    pub struct Collections {
        pub v: Vec<String>, pub vv: Vec<Vec<u8>>, pub vo: Vec<Option<i32>>,
        pub arr: [u8; 4], pub arr_s: [String; 2], pub arr_p: [Plain; 1],
        pub set: BTreeSet<String>, pub set_n: BTreeSet<u32>,
        pub hset: std::collections::HashSet<i8>,
        pub map: BTreeMap<String, u32>, pub hmap: HashMap<String, Plain>,
        pub map_v: BTreeMap<String, Vec<String>>, pub map_any: BTreeMap<String, Value>,
        pub map_o: BTreeMap<String, Option<Plain>>,
        pub dq: std::collections::VecDeque<u8>,
    }

    pub struct Anything { pub any: Value, pub anys: Vec<Value>, pub opt_any: Option<Value> }

    pub struct StdThings {
        pub dur: std::time::Duration,
        pub range: std::ops::Range<u32>,
        pub bound: std::ops::Bound<u8>,
        pub res: Result<u8, String>,
        pub wrap: std::num::Wrapping<i16>,
        pub cow: std::borrow::Cow<'static, str>,
    }

    /// Constraints from schemars attributes.
    pub struct Ranged {
        #[schemars(range(min = 1, max = 10))] pub a: u32,
        #[schemars(range(min = -5, max = 5))] pub b: i64,
        #[schemars(range(min = 0.5, max = 99.75))] pub c: f64,
        #[schemars(range(min = 1))] pub d: u8,
        #[schemars(range(max = 1000))] pub e: i32,
        #[schemars(range(min = -1.5))] pub f: f32,
        #[schemars(range(min = 2, max = 3))] pub g: Option<u16>,
    }

    pub struct Lengths {
        #[schemars(length(min = 1, max = 8))] pub s: String,
        #[schemars(length(min = 2))] pub s2: String,
        #[schemars(length(max = 3))] pub v: Vec<u8>,
        #[schemars(length(min = 1, max = 2))] pub vs: Vec<String>,
        #[schemars(length(equal = 4))] pub exact: String,
        #[schemars(length(min = 1))] pub os: Option<String>,
        #[schemars(length(max = 2))] pub set: BTreeSet<u8>,
    }

    pub struct Patterns {
        #[schemars(regex(pattern = r"^[a-z]+$"))] pub lower: String,
        #[schemars(regex(pattern = r"^\d{3}-\d{4}$"))] pub phoneish: String,
        #[schemars(regex(pattern = "^x"), length(max = 5))] pub both: String,
        #[schemars(email)] pub mail: String,
        #[schemars(url)] pub link: String,
        #[schemars(contains(pattern = "ab"))] pub has_ab: String,
    }

    /// Type-level description from the doc comment.
    #[schemars(title = "A Custom Title", description = "custom description wins over docs")]
    pub struct Titled {
        /// field docs
        #[schemars(title = "Field title")] pub a: u8,
        #[schemars(description = "explicit field description")] pub b: String,
        /// documented reference field
        pub c: Plain,
        /// documented optional reference
        pub d: Option<Plain>,
        /// documented list
        pub e: Vec<Plain>,
    }

    #[schemars(example = "ex_examples")]
    pub struct Examples {
        #[schemars(example = "ex_u8")] pub a: u8,
        #[schemars(example = "ex_string")] pub s: String,
        #[schemars(example = "ex_plain")] pub p: Plain,
        #[schemars(example = "ex_string")] pub o: Option<String>,
    }

    #[deprecated]
    pub struct DeprecatedType { pub a: u8 }

    pub struct DeprecatedFields {
        #[deprecated] pub old: u8,
        #[deprecated] pub old_ref: Plain,
        #[deprecated] pub old_opt: Option<String>,
        pub new: u8,
    }

    pub struct WithExtension {
        #[schemars(schema_with = "schema_with_ext")] pub tagged: String,
        #[schemars(with = "String")] pub as_string: u64,
        pub plain: u8,
    }

    // ---- enums, externally tagged
    pub enum UnitEnum { Alpha, Beta, Gamma }

    /// Documented unit enum.
    pub enum UnitEnumDocs {
        /// the first
        First,
        /// the second
        Second,
        Third,
    }

    #[serde(rename_all = "snake_case")]
    pub enum UnitEnumRenamed { FirstOne, #[serde(rename = "2nd")] SecondOne, ThirdOne }

    /// Mixed externally tagged enum.
    pub enum MixedExternal {
        Unit,
        /// a newtype variant
        Newtype(u32),
        NewtypeStruct(Inner1),
        /// a struct variant
        Struct { a: String, b: Option<u8> },
        #[serde(rename = "renamed-variant")] Renamed { x: bool },
        OptNewtype(Option<String>),
    }

    #[serde(deny_unknown_fields)]
    pub enum ExternalDeny { A { x: u8 }, B { y: String } }

    // ---- internally tagged
    #[serde(tag = "type")]
    pub enum InternalTag {
        Unit,
        /// struct variant docs
        Struct { a: u8, b: Option<String> },
        NewtypeStruct(Inner1),
        #[serde(rename = "other-name")] Renamed { flag: bool },
    }

    #[serde(tag = "kind", rename_all = "lowercase", deny_unknown_fields)]
    pub enum InternalTagDeny { Aa { v: u8 }, Bb { w: String }, Cc }

    // ---- adjacently tagged
    #[serde(tag = "t", content = "c")]
    pub enum AdjacentTag {
        Unit,
        Newtype(u16),
        NewtypeString(String),
        /// struct docs
        Struct { a: bool, b: Vec<u8> },
        List(Vec<Inner1>),
    }

    #[serde(tag = "tag", content = "content", rename_all = "SCREAMING_SNAKE_CASE")]
    pub enum AdjacentTagRenamed { OneThing(Plain), TwoThings { first: u8, second: u8 } }

    // ---- untagged
    #[serde(untagged)]
    pub enum Untagged {
        Num(u32),
        Text(String),
        Struct { a: u8, b: bool },
        List(Vec<String>),
    }

    #[serde(untagged)]
    pub enum UntaggedStructs {
        /// first shape
        One { one: String },
        Two { two: u32, extra: Option<bool> },
        Three(Plain),
    }

    #[serde(untagged)]
    pub enum UntaggedWithUnit { Nothing, Something(u8) }

    pub struct EnumHolder {
        pub u: UnitEnum, pub d: UnitEnumDocs, pub m: MixedExternal, pub i: InternalTag,
        pub a: AdjacentTag, pub un: Untagged, pub ou: Option<UnitEnumDocs>,
        pub vm: Vec<MixedExternal>, pub mm: BTreeMap<String, InternalTag>,
    }

    // ---- null-typed things (F5 class)
    pub struct UnitStruct;
    pub struct HoldsUnit { pub u: (), pub ou: Option<()>, pub us: UnitStruct, pub n: u8 }

    // ---- parameter structs (query / path / headers)
    pub struct QScalars {
        pub s: String, pub n: u32, pub b: bool, pub f: f64, pub i: i8, pub c: char,
        pub id: uuid::Uuid, pub t: chrono::DateTime<chrono::Utc>, pub ip: std::net::IpAddr,
        pub nz: std::num::NonZeroU16, pub big: u64,
    }
    pub struct QOptional {
        pub req: String,
        pub os: Option<String>, pub on: Option<i32>, pub ob: Option<bool>,
        #[serde(default)] pub ds: String,
        #[serde(default = "d_forty_two")] pub dn: i32,
        #[serde(default)] pub db: bool,
        /// documented parameter
        pub doc: Option<u8>,
    }
    #[serde(rename_all = "kebab-case")]
    pub struct QRenamed { pub first_name: String, #[serde(rename = "N")] pub number: Option<u8> }
    pub struct QEnums {
        pub e: UnitEnum, pub oe: Option<UnitEnum>, pub de: UnitEnumDocs,
        #[serde(default = "d_enum")] pub dflt: UnitEnum, pub r: Option<UnitEnumRenamed>,
    }
    pub struct QFlatInner { pub fa: String, pub fb: Option<String> }
    pub struct QFlattened { pub own: u8, #[serde(flatten)] pub inner: QFlatInner }
    pub struct QConstrained {
        #[schemars(range(min = 1, max = 100))] pub page: u32,
        #[schemars(length(min = 1, max = 16))] pub name: String,
        #[schemars(regex(pattern = "^[a-z]*$"))] pub slug: Option<String>,
        #[deprecated] pub old: Option<u8>,
        #[schemars(example = "ex_u8")] pub exd: Option<u8>,
        pub nt: Option<NewtypeU32>, pub nts: Option<NewtypeString>,
    }
    /// documented query struct
    pub struct QDocumented {
        /// alpha docs
        pub alpha: String,
        /// beta docs, an enum
        pub beta: Option<UnitEnum>,
    }

    pub struct PTwo { pub a: String, pub b: u32 }
    pub struct PTyped { pub id: uuid::Uuid, pub e: UnitEnum, pub n: i64, pub f: bool }
    pub struct PNewtype { pub k: NewtypeString, pub d: UnitEnumDocs }
    /// documented path struct
    pub struct PDocs {
        /// the project
        #[schemars(length(min = 1, max = 63))] pub project: String,
        /// the index
        #[schemars(range(min = 1))] pub index: u16,
    }

    pub struct HOne { pub etag: String }
    pub struct HSeveral {
        /// documented header
        #[serde(rename = "x-first")] pub first: String,
        #[serde(rename = "x-second")] pub second: Option<String>,
        #[serde(rename = "x-third")] #[schemars(length(max = 10))] pub third: String,
    }
}

fn d_forty_two() -> i32 {
    42
}
fn d_plain() -> Plain {
    Plain { a: "dflt".into(), b: 7, c: true }
}
fn d_enum() -> UnitEnum {
    UnitEnum::Beta
}
fn d_float() -> f64 {
    2.5
}
fn ex_u8() -> u8 {
    200
}
fn ex_string() -> String {
    "an example".into()
}
fn ex_plain() -> Plain {
    Plain { a: "ex".into(), b: 1, c: false }
}
fn ex_examples() -> Examples {
    Examples { a: 1, s: "s".into(), p: ex_plain(), o: None }
}
fn schema_with_ext(_g: &mut SchemaGenerator) -> Schema {
    let mut o = SchemaObject {
        instance_type: Some(schemars::schema::InstanceType::String.into()),
        ..Default::default()
    };
    o.extensions.insert("x-rust-type".into(), json!({"crate": "corpus", "path": "a::B"}));
    o.extensions.insert("x-flag".into(), json!(true));
    o.into()
}

/// integer-repr enum (what `JsonSchema_repr` emits); serde by hand because
/// serde_repr is not in the vendored registry
#[derive(schemars::JsonSchema_repr, Debug, Clone, Copy)]
#[repr(u8)]
pub enum ReprEnum {
    One = 1,
    Two = 2,
    Ten = 10,
}
impl Serialize for ReprEnum {
    fn serialize<S: serde::Serializer>(&self, s: S) -> Result<S::Ok, S::Error> {
        s.serialize_u8(*self as u8)
    }
}
impl<'de> Deserialize<'de> for ReprEnum {
    fn deserialize<D: serde::Deserializer<'de>>(d: D) -> Result<Self, D::Error> {
        match u8::deserialize(d)? {
            1 => Ok(ReprEnum::One),
            2 => Ok(ReprEnum::Two),
            10 => Ok(ReprEnum::Ten),
            o => Err(serde::de::Error::custom(format!("bad repr {o}"))),
        }
    }
}
#[derive(Serialize, Deserialize, JsonSchema, Debug, Clone)]
pub struct HoldsRepr {
    pub r: ReprEnum,
    pub o: Option<ReprEnum>,
}

// same-named types in different modules (F7 class)
pub mod m1 {
    use super::*;
    #[derive(Serialize, Deserialize, JsonSchema, Debug, Clone)]
    pub enum Kind {
        A,
        B,
    }
    #[derive(Serialize, Deserialize, JsonSchema, Debug, Clone)]
    pub struct Item {
        pub id: u32,
    }
    #[derive(Serialize, Deserialize, JsonSchema, Debug, Clone)]
    pub struct Q {
        pub kind: Kind,
    }
    #[derive(Serialize, Deserialize, JsonSchema, Debug, Clone)]
    pub struct Holder {
        pub kind: Kind,
        pub item: Item,
    }
}
pub mod m2 {
    use super::*;
    #[derive(Serialize, Deserialize, JsonSchema, Debug, Clone)]
    pub enum Kind {
        X,
        Y,
        Z,
    }
    #[derive(Serialize, Deserialize, JsonSchema, Debug, Clone)]
    pub struct Item {
        pub name: String,
        pub tags: Vec<String>,
    }
    #[derive(Serialize, Deserialize, JsonSchema, Debug, Clone)]
    pub struct Q {
        pub kind: Kind,
    }
    #[derive(Serialize, Deserialize, JsonSchema, Debug, Clone)]
    pub struct Holder {
        pub kind: Kind,
        pub item: Item,
    }
}

// ---------------------------------------------------------------------------
// the corpus APIs
// ---------------------------------------------------------------------------

const G: &str = "general";
/// contains a `type: null` schema (unit type): F5 class
const NULLT: &str = "null-type";
/// same-named types from different modules: F7 class
const SAME: &str = "same-name";

// Named types whose RAW schema (what `json_schema()` returns) differs from the
// schema after the generator's visitors ran, placed both in bodies (shared,
// visited generator) and behind Query / Path / header structs (per-extractor
// generators whose raw definitions are merged into components afterwards).
fn ex_shared_kind() -> SharedKind {
    SharedKind::Warm
}
fn ex_shared_label() -> SharedLabel {
    SharedLabel("a label".into())
}
/// A unit enum carrying an example.
#[derive(Serialize, Deserialize, JsonSchema, Debug, Clone)]
#[schemars(example = "ex_shared_kind")]
pub enum SharedKind {
    Cold,
    Warm,
    Hot,
}
/// A string newtype carrying an example and a length limit.
#[derive(Serialize, Deserialize, JsonSchema, Debug, Clone)]
#[schemars(example = "ex_shared_label")]
pub struct SharedLabel(#[schemars(length(min = 1, max = 32))] pub String);
/// A documented newtype around a named type: raw schema is a `$ref` with siblings.
#[derive(Serialize, Deserialize, JsonSchema, Debug, Clone)]
pub struct SharedWrapper(pub SharedKind);
#[derive(Serialize, Deserialize, JsonSchema, Debug, Clone)]
pub struct SharedHolder {
    /// documented reference
    pub kind: SharedKind,
    pub label: Option<SharedLabel>,
    pub wrapped: SharedWrapper,
    #[deprecated]
    pub old: Option<SharedWrapper>,
}
#[derive(Serialize, Deserialize, JsonSchema, Debug, Clone)]
pub struct QShared {
    pub kind: SharedKind,
    pub label: Option<SharedLabel>,
    pub wrapped: Option<SharedWrapper>,
}
#[derive(Serialize, Deserialize, JsonSchema, Debug, Clone)]
pub struct PShared {
    pub kind: SharedKind,
    pub label: SharedLabel,
    pub wrapped: SharedWrapper,
}
#[derive(Serialize, Deserialize, JsonSchema, Debug, Clone)]
pub struct HShared {
    #[serde(rename = "x-label")]
    pub label: SharedLabel,
}

pub fn build_main() -> Reg {
    let mut r = Reg::new("main");
    // primitives and std types used directly as bodies (inline schemas)
    r.body::<bool>("bool", G);
    r.body::<i8>("i8", G);
    r.body::<i16>("i16", G);
    r.body::<i32>("i32", G);
    r.body::<i64>("i64", G);
    r.body::<isize>("isize", G);
    r.body::<u8>("u8", G);
    r.body::<u16>("u16", G);
    r.body::<u32>("u32", G);
    r.body::<u64>("u64", G);
    r.body::<usize>("usize", G);
    r.body::<i128>("i128", G);
    r.body::<u128>("u128", G);
    r.body::<f32>("f32", G);
    r.body::<f64>("f64", G);
    r.body::<char>("char", G);
    r.body::<String>("string", G);
    r.body::<uuid::Uuid>("uuid", G);
    r.body::<chrono::DateTime<chrono::Utc>>("datetime", G);
    r.body::<chrono::NaiveDate>("naivedate", G);
    r.body::<std::net::IpAddr>("ipaddr", G);
    r.body::<std::net::Ipv4Addr>("ipv4", G);
    r.body::<std::net::Ipv6Addr>("ipv6", G);
    r.body::<std::num::NonZeroU8>("nzu8", G);
    r.body::<std::num::NonZeroU32>("nzu32", G);
    r.body::<std::num::NonZeroU64>("nzu64", G);
    // NonZeroI*: schemars emits {type: integer, not: {const: 0}}; j2oas_schema_object panics
    // ("a schema can't have both a type and subschemas"): outside the supported domain
    r.body::<std::time::Duration>("duration", G);
    r.body::<Value>("value", G);
    r.body::<Option<u32>>("opt_u32", G);
    r.body::<Option<String>>("opt_string", G);
    r.body::<Option<Plain>>("opt_plain", G);
    r.body::<Option<Vec<Plain>>>("opt_vec_plain", G);
    r.body::<Option<UnitEnum>>("opt_unit_enum", G);
    r.body::<Vec<u8>>("vec_u8", G);
    r.body::<Vec<String>>("vec_string", G);
    r.body::<Vec<Plain>>("vec_plain", G);
    r.body::<Vec<Option<i32>>>("vec_opt_i32", G);
    r.body::<Vec<Option<Plain>>>("vec_opt_plain", G);
    r.body::<Vec<Vec<Plain>>>("vec_vec_plain", G);
    r.body::<[u8; 4]>("arr_u8_4", G);
    r.body::<[String; 2]>("arr_string_2", G);
    r.body::<[Plain; 3]>("arr_plain_3", G);
    r.body::<BTreeSet<String>>("set_string", G);
    r.body::<BTreeSet<u32>>("set_u32", G);
    r.body::<BTreeMap<String, u32>>("map_u32", G);
    r.body::<HashMap<String, Plain>>("hmap_plain", G);
    r.body::<BTreeMap<String, Vec<String>>>("map_vec_string", G);
    r.body::<BTreeMap<String, Value>>("map_value", G);
    r.body::<BTreeMap<String, Option<Plain>>>("map_opt_plain", G);
    r.body::<BTreeMap<String, BTreeMap<String, u8>>>("map_map", G);
    r.body::<Box<Plain>>("box_plain", G);
    r.body::<Result<u8, String>>("result", G);
    r.body::<std::ops::Range<u32>>("range", G);
    // structs
    r.body::<Plain>("plain", G);
    r.body::<AllInts>("all_ints", G);
    r.body::<AllFloats>("all_floats", G);
    r.body::<NonZeros>("nonzeros", G);
    r.body::<Stringy>("stringy", G);
    r.body::<WithOptions>("with_options", G);
    r.body::<WithDefaults>("with_defaults", G);
    r.body::<Renamed>("renamed", G);
    r.body::<RenamedContainer>("renamed_container", G);
    r.body::<Flattened>("flattened", G);
    r.body::<FlattenMap>("flatten_map", G);
    r.body::<DenyUnknown>("deny_unknown", G);
    r.body::<Skips>("skips", G);
    r.body::<NewtypeString>("newtype_string", G);
    r.body::<NewtypeU32>("newtype_u32", G);
    r.body::<NewtypeStruct>("newtype_struct", G);
    r.body::<NewtypeVec>("newtype_vec", G);
    r.body::<NewtypeOption>("newtype_option", G);
    r.body::<TransparentString>("transparent_string", G);
    r.body::<TransparentStruct>("transparent_struct", G);
    r.body::<TransparentTitled>("transparent_titled", G);
    r.body::<EmptyStruct>("empty_struct", G);
    r.body::<Recursive>("recursive", G);
    r.body::<Tree>("tree", G);
    r.body::<MutA>("mut_a", G);
    r.body::<MutB>("mut_b", G);
    r.body::<MapRec>("map_rec", G);
    r.body::<Nested>("nested", G);
    r.body::<Generic<u8>>("generic_u8", G);
    r.body::<Generic<Plain>>("generic_plain", G);
    r.body::<Generic<Option<String>>>("generic_opt_string", G);
    r.body::<Collections>("collections", G);
    r.body::<Anything>("anything", G);
    r.body::<StdThings>("std_things", G);
    r.body::<Ranged>("ranged", G);
    r.body::<Lengths>("lengths", G);
    r.body::<Patterns>("patterns", G);
    r.body::<Titled>("titled", G);
    r.body::<Examples>("examples", G);
    r.body::<DeprecatedType>("deprecated_type", G);
    r.body::<DeprecatedFields>("deprecated_fields", G);
    r.body::<WithExtension>("with_extension", G);
    // enums
    r.body::<UnitEnum>("unit_enum", G);
    r.body::<UnitEnumDocs>("unit_enum_docs", G);
    r.body::<UnitEnumRenamed>("unit_enum_renamed", G);
    r.body::<MixedExternal>("mixed_external", G);
    r.body::<ExternalDeny>("external_deny", G);
    r.body::<InternalTag>("internal_tag", G);
    r.body::<InternalTagDeny>("internal_tag_deny", G);
    r.body::<AdjacentTag>("adjacent_tag", G);
    r.body::<AdjacentTagRenamed>("adjacent_tag_renamed", G);
    r.body::<Untagged>("untagged", G);
    r.body::<UntaggedStructs>("untagged_structs", G);
    r.body::<EnumHolder>("enum_holder", G);
    r.body::<ReprEnum>("repr_enum", G);
    r.body::<HoldsRepr>("holds_repr", G);
    r.body::<Vec<MixedExternal>>("vec_mixed_external", G);
    r.body::<Option<InternalTag>>("opt_internal_tag", G);
    r.body::<dropshot::ResultsPage<Plain>>("results_page_plain", G);
    // null-typed (unit) things: F5 class
    r.body::<()>("unit", NULLT);
    r.body::<UnitStruct>("unit_struct", NULLT);
    r.body::<HoldsUnit>("holds_unit", NULLT);
    r.body::<UntaggedWithUnit>("untagged_with_unit", NULLT);
    r.body::<Option<()>>("opt_unit", NULLT);
    r.body::<Vec<()>>("vec_unit", NULLT);
    // parameter sites
    r.query::<QScalars>("scalars", G);
    r.query::<QOptional>("optional", G);
    r.query::<QRenamed>("renamed", G);
    r.query::<QEnums>("enums", G);
    r.query::<QFlattened>("flattened", G);
    r.query::<QConstrained>("constrained", G);
    r.query::<QDocumented>("documented", G);
    r.query::<Plain>("plain", G);
    r.query::<Ranged>("ranged", G);
    r.query::<WithDefaults2>("with_defaults", G);
    r.path::<PTwo>("two", G, &["a", "b"]);
    r.path::<PTyped>("typed", G, &["id", "e", "n", "f"]);
    r.path::<PNewtype>("newtype", G, &["k", "d"]);
    r.path::<PDocs>("docs", G, &["project", "index"]);
    // the same named types in bodies AND behind parameter / header structs
    r.body::<SharedKind>("shared_kind", G);
    r.body::<SharedLabel>("shared_label", G);
    r.body::<SharedWrapper>("shared_wrapper", G);
    r.body::<SharedHolder>("shared_holder", G);
    r.body::<Vec<SharedWrapper>>("vec_shared_wrapper", G);
    r.query::<QShared>("shared", G);
    r.path::<PShared>("shared", G, &["kind", "label", "wrapped"]);
    r.headers::<HShared>("shared", G);
    r.headers::<HOne>("one", G);
    r.headers::<HSeveral>("several", G);
    r
}

/// query struct with defaulted scalar members
#[derive(Serialize, Deserialize, JsonSchema, Debug, Clone)]
pub struct WithDefaults2 {
    #[serde(default = "d_forty_two")]
    pub limit: i32,
    #[serde(default = "d_float")]
    pub ratio: f64,
    #[serde(default = "d_enum")]
    pub mode: UnitEnum,
    #[serde(default)]
    pub flag: bool,
    #[serde(default = "ex_string")]
    pub text: String,
}

/// F7 class: same-named types reached through Static (parameter) schemas and
/// through the shared generator (bodies)
pub fn build_same_named_params() -> Reg {
    let mut r = Reg::new("same-named-params");
    r.query::<m1::Q>("m1", SAME);
    r.query::<m2::Q>("m2", SAME);
    r
}
pub fn build_same_named_bodies() -> Reg {
    let mut r = Reg::new("same-named-bodies");
    r.body::<m1::Holder>("m1_holder", SAME);
    r.body::<m2::Holder>("m2_holder", SAME);
    r
}
pub fn build_same_named_mixed() -> Reg {
    let mut r = Reg::new("same-named-mixed");
    r.body::<m2::Holder>("m2_holder", SAME);
    r.query::<m1::Q>("m1", SAME);
    r
}

macro_rules! error_type {
    ($name:ident { $($f:ident : $t:ty = $v:expr),* }) => {
        #[derive(Debug, Serialize, JsonSchema)]
        pub struct $name { $(pub $f: $t),* }
        impl std::fmt::Display for $name {
            fn fmt(&self, f: &mut std::fmt::Formatter) -> std::fmt::Result {
                f.write_str(stringify!($name))
            }
        }
        impl From<HttpError> for $name {
            fn from(_: HttpError) -> Self {
                $name { $($f: $v),* }
            }
        }
        impl dropshot::HttpResponseError for $name {
            fn status_code(&self) -> dropshot::ErrorStatusCode {
                dropshot::ErrorStatusCode::INTERNAL_SERVER_ERROR
            }
        }
    };
}
pub mod err_a {
    use super::*;
    error_type!(ApiError { message: String = String::new(), request_id: String = String::new() });
    error_type!(OnlyHere { a: u8 = 0 });
}
pub mod err_b {
    use super::*;
    error_type!(ApiError { code: u32 = 7, retry_after_secs: Option<u16> = None, kind: UnitEnum = d_enum() });
}
pub mod err_c {
    use super::*;
    error_type!(ApiError { code: String = String::new() });
}

/// user-defined error types, among them three of the same name from different modules
pub fn build_error_types() -> Reg {
    let mut r = Reg::new("error-types");
    r.error::<err_a::ApiError>("a_api_error", "error|same-name");
    r.error::<err_b::ApiError>("b_api_error", "error|same-name");
    r.error::<err_a::OnlyHere>("a_only_here", "error");
    r.error::<err_c::ApiError>("c_api_error", "error|same-name");
    r.error::<err_b::ApiError>("b_api_error_again", "error|same-name");
    r
}

/// a chain of named types reached ONLY from a header / parameter member: newtype of a
/// newtype of an enum (every link is a definition that is itself a bare `$ref`)
#[derive(Serialize, Deserialize, JsonSchema, Debug, Clone)]
pub struct ChainOuter(pub ChainMid);
#[derive(Serialize, Deserialize, JsonSchema, Debug, Clone)]
pub struct ChainMid(pub ChainLeaf);
#[derive(Serialize, Deserialize, JsonSchema, Debug, Clone)]
#[serde(rename_all = "lowercase")]
pub enum ChainLeaf {
    Red,
    Green,
}
#[derive(Serialize, Deserialize, JsonSchema, Debug, Clone)]
pub struct HChain {
    #[serde(rename = "x-chain")]
    pub chain: ChainOuter,
}

/// a parameter struct that flattens a NEWTYPE around a struct (schemars: type object +
/// a one-element allOf)
#[derive(Serialize, Deserialize, JsonSchema, Debug, Clone)]
pub struct FlatInner {
    pub b: String,
    pub c: Option<String>,
    pub d: String,
    pub e: Option<String>,
}
#[derive(Serialize, Deserialize, JsonSchema, Debug, Clone)]
pub struct FlatWrapper(pub FlatInner);
#[derive(Serialize, Deserialize, JsonSchema, Debug, Clone)]
pub struct QFlatNewtype {
    pub a: String,
    #[serde(flatten)]
    pub rest: FlatWrapper,
}

pub fn build_chains() -> Reg {
    let mut r = Reg::new("chains");
    r.headers::<HChain>("chain", "params|ref-chain");
    r.query::<QFlatNewtype>("flat_newtype", "params|flatten-newtype");
    r
}

pub fn all() -> Vec<Reg> {
    vec![
        build_main(),
        build_error_types(),
        build_chains(),
        build_same_named_params(),
        build_same_named_bodies(),
        build_same_named_mixed(),
    ]
}
