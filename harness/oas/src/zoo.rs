//! placeholder
pub fn serve(_doc: &str, _workers: usize) { unimplemented!() }
pub fn document() -> serde_json::Value { serde_json::Value::Null }
