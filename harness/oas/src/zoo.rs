//! C07 "API zoo": a live dropshot server whose published OpenAPI document is
//! replayed against it by /verif/py/oas_c07.py.  Endpoints cover every
//! extractor combination and response kind; handlers return arbitrary VALID
//! values of their response type drawn from a seed carried by the request
//! (header `x-vmon-seed`, else a hash of the URI) and never raise on valid
//! input.  The operation `tags` carry the case class (tagged classes isolate
//! the expected findings F5 / F6 and friends).
#![allow(dead_code)]

use crate::corpus::{
    AdjacentTag, Flattened, Inner1, InternalTag, MixedExternal, Plain, Renamed, Tree, UnitEnum,
    UnitEnumDocs, Untagged,
};
use dropshot::{
    endpoint, http_response_found, http_response_see_other, http_response_temporary_redirect,
    ApiDescription, Body, ConfigDropshot, ErrorStatusCode, FreeformBody, HandlerTaskMode,
    HttpError, HttpResponseAccepted, HttpResponseCreated, HttpResponseDeleted, HttpResponseError,
    HttpResponseFound, HttpResponseHeaders, HttpResponseOk, HttpResponseSeeOther,
    HttpResponseTemporaryRedirect, HttpResponseUpdatedNoContent, MultipartBody, PaginationParams,
    Path, Query, RequestContext, ResultsPage, ServerBuilder, StreamingBody, TypedBody,
    UntypedBody, WhichPage,
};
use futures::TryStreamExt;
use schemars::JsonSchema;
use serde::{Deserialize, Serialize};
use serde_json::Value;
use std::collections::{BTreeMap, BTreeSet, HashMap};
use vmon::rng::{fnv1a, Rng};

pub struct ZooCtx;
type Rq = RequestContext<ZooCtx>;

fn rng_of(rq: &Rq) -> Rng {
    let seed = rq
        .request
        .headers()
        .get("x-vmon-seed")
        .and_then(|v| v.to_str().ok())
        .and_then(|s| s.parse::<u64>().ok())
        .unwrap_or_else(|| fnv1a(rq.request.uri().to_string().as_bytes()));
    Rng::derive(seed, "c07-zoo", 0, 0)
}

// ---------------------------------------------------------------------------
// arbitrary valid values
// ---------------------------------------------------------------------------

pub trait Arb: Sized {
    fn arb(r: &mut Rng, d: u32) -> Self;
}

macro_rules! arb_int {
    ($($t:ty),*) => {$(
        impl Arb for $t {
            fn arb(r: &mut Rng, _d: u32) -> Self {
                match r.below(6) {
                    0 => <$t>::MIN,
                    1 => <$t>::MAX,
                    2 => 0,
                    3 => 1,
                    _ => r.next() as $t,
                }
            }
        }
    )*};
}
arb_int!(i8, i16, i32, i64, isize, u8, u16, u32, u64, usize);

macro_rules! arb_nz {
    ($($t:ty),*) => {$(
        impl Arb for $t {
            fn arb(r: &mut Rng, d: u32) -> Self {
                loop {
                    if let Some(v) = <$t>::new(Arb::arb(r, d)) {
                        return v;
                    }
                }
            }
        }
    )*};
}
arb_nz!(std::num::NonZeroU8, std::num::NonZeroU16, std::num::NonZeroU32, std::num::NonZeroU64);

impl Arb for bool {
    fn arb(r: &mut Rng, _d: u32) -> Self {
        r.bool()
    }
}
impl Arb for f64 {
    fn arb(r: &mut Rng, _d: u32) -> Self {
        match r.below(8) {
            0 => 0.0,
            1 => -0.0,
            2 => f64::MAX,
            3 => f64::MIN_POSITIVE,
            4 => -1.5e300,
            5 => r.range(-1000, 1000) as f64,
            _ => (r.f64() - 0.5) * 10f64.powi(r.range(-5, 12) as i32),
        }
    }
}
impl Arb for f32 {
    fn arb(r: &mut Rng, _d: u32) -> Self {
        match r.below(6) {
            0 => 0.0,
            1 => f32::MAX,
            2 => f32::MIN,
            3 => 0.1,
            _ => ((r.f64() - 0.5) * 10f64.powi(r.range(-5, 12) as i32)) as f32,
        }
    }
}
const CHARS: &[char] = &[
    'a', 'b', 'Z', '0', '9', ' ', '_', '-', '/', '?', '&', '=', '%', '+', '#', '"', '\\', '\'', '<',
    'é', 'ß', '中', '\u{1F600}', '\n', '\t', '\u{0}', '\u{7f}', '\u{2028}', '{', '}', ',', ':', '.',
];
impl Arb for char {
    fn arb(r: &mut Rng, _d: u32) -> Self {
        *r.pick(CHARS)
    }
}
impl Arb for String {
    fn arb(r: &mut Rng, _d: u32) -> Self {
        let n = *r.pick(&[0usize, 1, 1, 2, 3, 5, 8, 20]);
        (0..n).map(|_| *r.pick(CHARS)).collect()
    }
}
impl Arb for uuid::Uuid {
    fn arb(r: &mut Rng, _d: u32) -> Self {
        uuid::Uuid::from_u128(((r.next() as u128) << 64) | r.next() as u128)
    }
}
impl Arb for chrono::DateTime<chrono::Utc> {
    fn arb(r: &mut Rng, _d: u32) -> Self {
        let secs = r.range(-2_000_000_000, 8_000_000_000);
        let nanos = *r.pick(&[0u32, 1, 500_000_000, 999_999_999, 123_456_000]);
        chrono::DateTime::from_timestamp(secs, nanos).unwrap()
    }
}
impl Arb for std::net::IpAddr {
    fn arb(r: &mut Rng, _d: u32) -> Self {
        if r.bool() {
            std::net::IpAddr::V4(std::net::Ipv4Addr::from(r.next() as u32))
        } else {
            std::net::IpAddr::V6(std::net::Ipv6Addr::from(((r.next() as u128) << 64) | r.next() as u128))
        }
    }
}
impl<T: Arb> Arb for Option<T> {
    fn arb(r: &mut Rng, d: u32) -> Self {
        if r.chance(1, 3) {
            None
        } else {
            Some(T::arb(r, d))
        }
    }
}
impl<T: Arb> Arb for Box<T> {
    fn arb(r: &mut Rng, d: u32) -> Self {
        Box::new(T::arb(r, d))
    }
}
impl<T: Arb> Arb for Vec<T> {
    fn arb(r: &mut Rng, d: u32) -> Self {
        let n = if d > 3 { 0 } else { r.usize(4) };
        (0..n).map(|_| T::arb(r, d + 1)).collect()
    }
}
impl<T: Arb + Ord> Arb for BTreeSet<T> {
    fn arb(r: &mut Rng, d: u32) -> Self {
        Vec::<T>::arb(r, d).into_iter().collect()
    }
}
impl<T: Arb> Arb for BTreeMap<String, T> {
    fn arb(r: &mut Rng, d: u32) -> Self {
        let n = if d > 3 { 0 } else { r.usize(4) };
        (0..n).map(|_| (String::arb(r, d), T::arb(r, d + 1))).collect()
    }
}
impl<T: Arb> Arb for HashMap<String, T> {
    fn arb(r: &mut Rng, d: u32) -> Self {
        BTreeMap::<String, T>::arb(r, d).into_iter().collect()
    }
}
impl Arb for Value {
    fn arb(r: &mut Rng, d: u32) -> Self {
        match r.below(if d > 2 { 5 } else { 7 }) {
            0 => Value::Null,
            1 => Value::Bool(r.bool()),
            2 => serde_json::json!(i64::arb(r, d)),
            3 => serde_json::json!((r.f64() - 0.5) * 1e6),
            4 => Value::String(String::arb(r, d)),
            5 => Value::Array(Vec::<Value>::arb(r, d + 1)),
            _ => Value::Object(BTreeMap::<String, Value>::arb(r, d + 1).into_iter().collect()),
        }
    }
}

macro_rules! arb_struct {
    ($t:ident { $($f:ident),* $(,)? }) => {
        impl Arb for $t {
            fn arb(r: &mut Rng, d: u32) -> Self {
                $t { $($f: Arb::arb(r, d + 1)),* }
            }
        }
    };
}

arb_struct!(Plain { a, b, c });
arb_struct!(Inner1 { x, y });
impl Arb for UnitEnum {
    fn arb(r: &mut Rng, _d: u32) -> Self {
        match r.below(3) {
            0 => UnitEnum::Alpha,
            1 => UnitEnum::Beta,
            _ => UnitEnum::Gamma,
        }
    }
}
impl Arb for UnitEnumDocs {
    fn arb(r: &mut Rng, _d: u32) -> Self {
        match r.below(3) {
            0 => UnitEnumDocs::First,
            1 => UnitEnumDocs::Second,
            _ => UnitEnumDocs::Third,
        }
    }
}
impl Arb for MixedExternal {
    fn arb(r: &mut Rng, d: u32) -> Self {
        match r.below(6) {
            0 => MixedExternal::Unit,
            1 => MixedExternal::Newtype(Arb::arb(r, d)),
            2 => MixedExternal::NewtypeStruct(Arb::arb(r, d)),
            3 => MixedExternal::Struct { a: Arb::arb(r, d), b: Arb::arb(r, d) },
            4 => MixedExternal::Renamed { x: Arb::arb(r, d) },
            _ => MixedExternal::OptNewtype(Arb::arb(r, d)),
        }
    }
}
impl Arb for InternalTag {
    fn arb(r: &mut Rng, d: u32) -> Self {
        match r.below(4) {
            0 => InternalTag::Unit,
            1 => InternalTag::Struct { a: Arb::arb(r, d), b: Arb::arb(r, d) },
            2 => InternalTag::NewtypeStruct(Arb::arb(r, d)),
            _ => InternalTag::Renamed { flag: Arb::arb(r, d) },
        }
    }
}
impl Arb for AdjacentTag {
    fn arb(r: &mut Rng, d: u32) -> Self {
        match r.below(5) {
            0 => AdjacentTag::Unit,
            1 => AdjacentTag::Newtype(Arb::arb(r, d)),
            2 => AdjacentTag::NewtypeString(Arb::arb(r, d)),
            3 => AdjacentTag::Struct { a: Arb::arb(r, d), b: Arb::arb(r, d) },
            _ => AdjacentTag::List(Arb::arb(r, d)),
        }
    }
}
impl Arb for Untagged {
    fn arb(r: &mut Rng, d: u32) -> Self {
        match r.below(4) {
            0 => Untagged::Num(Arb::arb(r, d)),
            1 => Untagged::Text(Arb::arb(r, d)),
            2 => Untagged::Struct { a: Arb::arb(r, d), b: Arb::arb(r, d) },
            _ => Untagged::List(Arb::arb(r, d)),
        }
    }
}
impl Arb for Tree {
    fn arb(r: &mut Rng, d: u32) -> Self {
        Tree { label: Arb::arb(r, d), kids: if d > 2 { vec![] } else { Arb::arb(r, d + 1) } }
    }
}
impl Arb for Renamed {
    fn arb(r: &mut Rng, d: u32) -> Self {
        Renamed {
            first_field: Arb::arb(r, d),
            second_field: Arb::arb(r, d),
            third_field_name: Arb::arb(r, d),
            fourth: Arb::arb(r, d),
        }
    }
}
impl Arb for Flattened {
    fn arb(r: &mut Rng, d: u32) -> Self {
        Flattened {
            own: Arb::arb(r, d),
            one: Arb::arb(r, d),
            two: crate::corpus::Inner2 { z: Arb::arb(r, d), w: Arb::arb(r, d) },
        }
    }
}

// ---------------------------------------------------------------------------
// zoo types
// ---------------------------------------------------------------------------

macro_rules! sd {
    ($($i:item)*) => { $( #[derive(Serialize, Deserialize, JsonSchema, Debug, Clone)] $i )* };
}

sd! {
    pub struct PBasic { pub s: String, pub n: u32 }
    pub struct PTyped { pub id: uuid::Uuid, pub kind: UnitEnum, pub flag: bool, pub big: i64 }
    pub struct PId { pub id: u16 }

    pub struct QScalars {
        pub s: String, pub n: u32, pub b: bool, pub f: f64, pub i: i8, pub c: char,
        pub id: uuid::Uuid, pub t: chrono::DateTime<chrono::Utc>, pub ip: std::net::IpAddr,
        pub nz: std::num::NonZeroU16, pub big: u64,
    }
    pub struct QOptional {
        /// the only required one
        pub req: String,
        pub os: Option<String>, pub on: Option<i32>, pub ob: Option<bool>,
        #[serde(default)] pub ds: String,
        #[serde(default = "forty_two")] pub dn: i32,
        #[serde(default)] pub db: bool,
    }
    #[serde(rename_all = "kebab-case")]
    pub struct QRenamed { pub first_name: String, #[serde(rename = "N")] pub number: Option<u8> }
    pub struct QEnums { pub e: UnitEnum, pub oe: Option<UnitEnum>, pub de: UnitEnumDocs }
    pub struct QFlatInnerS { pub fa: String, pub fb: Option<String> }
    pub struct QFlattenedS { pub own: String, #[serde(flatten)] pub inner: QFlatInnerS }
    pub struct QFlatInnerT { pub n: u32, pub b: Option<bool> }
    pub struct QFlattenedT { pub own: String, #[serde(flatten)] pub inner: QFlatInnerT }
    pub struct QConstrained {
        #[schemars(range(min = 1, max = 100))] pub page: u32,
        #[schemars(length(min = 1, max = 16))] pub name: String,
        #[schemars(regex(pattern = "^[a-z]*$"))] pub slug: Option<String>,
    }
    #[serde(untagged)]
    pub enum QWhich { ById { id: String }, ByName { name: String } }
    pub struct QFlattenUntagged { pub req: String, #[serde(flatten)] pub which: QWhich }
    pub struct QSmall { pub q: Option<String>, pub n: u8 }

    pub struct Ints {
        pub i8_: i8, pub i16_: i16, pub i32_: i32, pub i64_: i64,
        pub u8_: u8, pub u16_: u16, pub u32_: u32, pub u64_: u64,
        pub nz: std::num::NonZeroU32, pub onz: Option<std::num::NonZeroU64>,
    }
    pub struct Floats { pub f: f32, pub d: f64, pub of: Option<f32>, pub vd: Vec<f64> }
    pub struct Options {
        pub a: Option<String>, pub b: Option<u32>, pub c: Option<bool>, pub d: Option<Plain>,
        pub e: Option<Vec<String>>, pub g: Option<UnitEnum>, pub i: Option<BTreeMap<String, u8>>,
    }
    pub struct Defaults {
        #[serde(default)] pub a: String,
        #[serde(default = "forty_two")] pub c: i32,
        #[serde(default)] pub e: Vec<u8>,
        #[serde(default)] pub f: Option<bool>,
        pub required_one: u8,
    }
    #[serde(deny_unknown_fields)]
    pub struct Deny { pub a: u8, pub b: Option<String> }
    pub struct Maps {
        pub m: BTreeMap<String, u32>, pub hm: HashMap<String, Plain>, pub set: BTreeSet<String>,
        pub mv: BTreeMap<String, Vec<String>>, pub arr: [u8; 3],
    }
    pub struct Nested { pub plain: Plain, pub list: Vec<NestedItem>, pub map: BTreeMap<String, NestedItem> }
    pub struct NestedItem { pub e: MixedExternal, pub o: Option<Inner1>, pub u: UnitEnumDocs }
    pub struct Stringy {
        pub s: String, pub c: char, pub id: uuid::Uuid, pub t: chrono::DateTime<chrono::Utc>,
        pub ip: std::net::IpAddr,
    }
    pub struct Form { pub name: String, pub age: u8, pub nick: Option<String>, pub admin: bool }
    pub struct Everything { pub note: String, pub plain: Plain, pub tags: Vec<String> }

    pub struct BytesInfo { pub len: u64, pub sum: u64 }
    pub struct Echo { pub what: String, pub values: BTreeMap<String, Value> }

    pub struct HdrOut {
        #[serde(rename = "x-zoo-etag")] pub etag: String,
        #[serde(rename = "x-zoo-second")] pub second: String,
    }

    pub struct ScanParams { pub project: String, #[serde(default = "sort_default")] pub sort: SortMode }
    #[serde(rename_all = "snake_case")]
    pub enum SortMode { ByNameAscending, ByNameDescending }
    pub struct PageSel { pub project: String, pub sort: SortMode, pub last: String }
    pub struct Item { pub name: String, pub n: u32 }
}

/// Values inside their documented ranges.
#[derive(Serialize, Deserialize, JsonSchema, Debug, Clone)]
pub struct RangedOut {
    #[schemars(range(min = 1, max = 10))]
    pub a: u32,
    #[schemars(range(min = -5, max = 5))]
    pub b: i64,
    #[schemars(length(min = 1, max = 8))]
    pub s: String,
    #[schemars(length(max = 3))]
    pub v: Vec<u8>,
    #[schemars(regex(pattern = "^[a-z]+$"))]
    pub lower: String,
}
impl Arb for RangedOut {
    fn arb(r: &mut Rng, d: u32) -> Self {
        RangedOut {
            a: r.range(1, 10) as u32,
            b: r.range(-5, 5),
            s: (0..r.range(1, 8)).map(|_| *r.pick(CHARS)).collect(),
            v: (0..r.range(0, 3)).map(|_| u8::arb(r, d)).collect(),
            lower: (0..r.range(1, 6)).map(|_| (b'a' + r.below(26) as u8) as char).collect(),
        }
    }
}

fn forty_two() -> i32 {
    42
}
fn sort_default() -> SortMode {
    SortMode::ByNameAscending
}

arb_struct!(PBasic { s, n });
arb_struct!(PTyped { id, kind, flag, big });
arb_struct!(QScalars { s, n, b, f, i, c, id, t, ip, nz, big });
arb_struct!(QOptional { req, os, on, ob, ds, dn, db });
arb_struct!(QRenamed { first_name, number });
arb_struct!(QEnums { e, oe, de });
arb_struct!(Ints { i8_, i16_, i32_, i64_, u8_, u16_, u32_, u64_, nz, onz });
arb_struct!(Floats { f, d, of, vd });
arb_struct!(Options { a, b, c, d, e, g, i });
arb_struct!(Defaults { a, c, e, f, required_one });
arb_struct!(Deny { a, b });
arb_struct!(Nested { plain, list, map });
arb_struct!(NestedItem { e, o, u });
arb_struct!(Stringy { s, c, id, t, ip });
arb_struct!(Form { name, age, nick, admin });
arb_struct!(Everything { note, plain, tags });
arb_struct!(BytesInfo { len, sum });
arb_struct!(Echo { what, values });
arb_struct!(Item { name, n });
impl Arb for Maps {
    fn arb(r: &mut Rng, d: u32) -> Self {
        Maps {
            m: Arb::arb(r, d),
            hm: Arb::arb(r, d),
            set: Arb::arb(r, d),
            mv: Arb::arb(r, d),
            arr: [Arb::arb(r, d), Arb::arb(r, d), Arb::arb(r, d)],
        }
    }
}

fn header_safe(r: &mut Rng) -> String {
    let n = r.range(0, 12);
    (0..n).map(|_| (0x21 + r.below(0x5e) as u8) as char).collect::<String>()
}
impl Arb for HdrOut {
    fn arb(r: &mut Rng, _d: u32) -> Self {
        // String fields only: the header serialiser (to_map) supports nothing else
        HdrOut { etag: header_safe(r), second: header_safe(r) }
    }
}

fn ok<T: Arb + Serialize + JsonSchema + Send + Sync + 'static>(rq: &Rq) -> Result<HttpResponseOk<T>, HttpError> {
    let mut r = rng_of(rq);
    Ok(HttpResponseOk(T::arb(&mut r, 0)))
}

// ---------------------------------------------------------------------------
// endpoints: parameters
// ---------------------------------------------------------------------------

#[endpoint { method = GET, path = "/zoo/path/{s}/{n}", tags = ["path"] }]
async fn path_basic(rq: Rq, _p: Path<PBasic>) -> Result<HttpResponseOk<PBasic>, HttpError> {
    ok(&rq)
}
#[endpoint { method = GET, path = "/zoo/path-typed/{id}/{kind}/{flag}/{big}", tags = ["path"] }]
async fn path_typed(rq: Rq, _p: Path<PTyped>) -> Result<HttpResponseOk<PTyped>, HttpError> {
    ok(&rq)
}
#[endpoint { method = GET, path = "/zoo/query/scalars", tags = ["query"] }]
async fn query_scalars(rq: Rq, _q: Query<QScalars>) -> Result<HttpResponseOk<QScalars>, HttpError> {
    ok(&rq)
}
#[endpoint { method = GET, path = "/zoo/query/optional", tags = ["query"] }]
async fn query_optional(rq: Rq, _q: Query<QOptional>) -> Result<HttpResponseOk<QOptional>, HttpError> {
    ok(&rq)
}
#[endpoint { method = GET, path = "/zoo/query/renamed", tags = ["query"] }]
async fn query_renamed(rq: Rq, _q: Query<QRenamed>) -> Result<HttpResponseOk<QRenamed>, HttpError> {
    ok(&rq)
}
#[endpoint { method = GET, path = "/zoo/query/enums", tags = ["query"] }]
async fn query_enums(rq: Rq, _q: Query<QEnums>) -> Result<HttpResponseOk<QEnums>, HttpError> {
    ok(&rq)
}
#[endpoint { method = GET, path = "/zoo/query/flattened-strings", tags = ["query"] }]
async fn query_flattened_strings(rq: Rq, _q: Query<QFlattenedS>) -> Result<HttpResponseOk<Plain>, HttpError> {
    ok(&rq)
}
/// flattened struct whose members are not strings
#[endpoint { method = GET, path = "/zoo/query/flattened-typed", tags = ["class:flattened-typed-query"] }]
async fn query_flattened_typed(rq: Rq, _q: Query<QFlattenedT>) -> Result<HttpResponseOk<Plain>, HttpError> {
    ok(&rq)
}
#[endpoint { method = GET, path = "/zoo/query/constrained", tags = ["query"] }]
async fn query_constrained(rq: Rq, _q: Query<QConstrained>) -> Result<HttpResponseOk<Plain>, HttpError> {
    ok(&rq)
}
/// F6: flattened untagged enum in a query type
#[endpoint { method = GET, path = "/zoo/query/flatten-untagged", tags = ["class:flattened-untagged-enum-query"] }]
async fn query_flatten_untagged(rq: Rq, _q: Query<QFlattenUntagged>) -> Result<HttpResponseOk<Plain>, HttpError> {
    ok(&rq)
}
#[endpoint { method = GET, path = "/zoo/path-query/{id}", tags = ["path", "query"] }]
async fn path_and_query(rq: Rq, _p: Path<PId>, _q: Query<QSmall>) -> Result<HttpResponseOk<Echo>, HttpError> {
    ok(&rq)
}

// ---------------------------------------------------------------------------
// endpoints: bodies
// ---------------------------------------------------------------------------

macro_rules! body_ep {
    ($fname:ident, $method:ident, $path:literal, $ty:ty, $tag:literal) => {
        #[endpoint { method = $method, path = $path, tags = [$tag] }]
        async fn $fname(rq: Rq, _b: TypedBody<$ty>) -> Result<HttpResponseOk<$ty>, HttpError> {
            ok(&rq)
        }
    };
}
body_ep!(body_plain, POST, "/zoo/body/plain", Plain, "body");
body_ep!(body_nested, PUT, "/zoo/body/nested", Nested, "body");
body_ep!(body_ints, POST, "/zoo/body/ints", Ints, "body");
body_ep!(body_floats, POST, "/zoo/body/floats", Floats, "body");
body_ep!(body_options, POST, "/zoo/body/options", Options, "body");
body_ep!(body_defaults, POST, "/zoo/body/defaults", Defaults, "body");
body_ep!(body_renamed, POST, "/zoo/body/renamed", Renamed, "body");
body_ep!(body_flattened, POST, "/zoo/body/flattened", Flattened, "body");
body_ep!(body_deny, POST, "/zoo/body/deny-unknown", Deny, "body");
body_ep!(body_maps, POST, "/zoo/body/maps", Maps, "body");
body_ep!(body_enum_external, POST, "/zoo/body/enum-external", MixedExternal, "body-enum");
body_ep!(body_enum_internal, POST, "/zoo/body/enum-internal", InternalTag, "body-enum");
body_ep!(body_enum_adjacent, POST, "/zoo/body/enum-adjacent", AdjacentTag, "body-enum");
body_ep!(body_enum_untagged, POST, "/zoo/body/enum-untagged", Untagged, "body-enum");
body_ep!(body_unit_enum, PATCH, "/zoo/body/unit-enum", UnitEnumDocs, "body-enum");
body_ep!(body_vec, POST, "/zoo/body/vec", Vec<Plain>, "body");
body_ep!(body_value, POST, "/zoo/body/value", Value, "body");
body_ep!(body_stringy, POST, "/zoo/body/stringy", Stringy, "body");
body_ep!(body_tree, POST, "/zoo/body/tree", Tree, "body");
body_ep!(body_map_top, PUT, "/zoo/body/map", BTreeMap<String, Plain>, "body");

#[endpoint { method = POST, path = "/zoo/body/urlencoded", content_type = "application/x-www-form-urlencoded", tags = ["body-urlencoded"] }]
async fn body_urlencoded(rq: Rq, _b: TypedBody<Form>) -> Result<HttpResponseOk<Form>, HttpError> {
    ok(&rq)
}
#[endpoint { method = PUT, path = "/zoo/body/untyped", tags = ["body-raw"] }]
async fn body_untyped(_rq: Rq, b: UntypedBody) -> Result<HttpResponseOk<BytesInfo>, HttpError> {
    let bytes = b.as_bytes();
    Ok(HttpResponseOk(BytesInfo { len: bytes.len() as u64, sum: bytes.iter().map(|b| *b as u64).sum() }))
}
#[endpoint { method = PUT, path = "/zoo/body/streaming", tags = ["body-raw"] }]
async fn body_streaming(_rq: Rq, b: StreamingBody) -> Result<HttpResponseOk<BytesInfo>, HttpError> {
    let mut len = 0u64;
    let mut sum = 0u64;
    let stream = b.into_stream();
    tokio::pin!(stream);
    while let Some(chunk) = stream.try_next().await? {
        len += chunk.len() as u64;
        sum += chunk.iter().map(|b| *b as u64).sum::<u64>();
    }
    Ok(HttpResponseOk(BytesInfo { len, sum }))
}
#[endpoint { method = POST, path = "/zoo/body/multipart", tags = ["class:multipart"] }]
async fn body_multipart(_rq: Rq, mut b: MultipartBody) -> Result<HttpResponseOk<BytesInfo>, HttpError> {
    let mut len = 0u64;
    let mut n = 0u64;
    while let Some(field) = b
        .content
        .next_field()
        .await
        .map_err(|e| HttpError::for_bad_request(None, format!("multipart: {e}")))?
    {
        let bytes = field
            .bytes()
            .await
            .map_err(|e| HttpError::for_bad_request(None, format!("multipart field: {e}")))?;
        len += bytes.len() as u64;
        n += 1;
    }
    Ok(HttpResponseOk(BytesInfo { len, sum: n }))
}
/// path + query + body together
#[endpoint { method = PUT, path = "/zoo/all/{id}", tags = ["path", "query", "body"] }]
async fn all_three(
    rq: Rq,
    _p: Path<PId>,
    _q: Query<QSmall>,
    _b: TypedBody<Everything>,
) -> Result<HttpResponseCreated<Everything>, HttpError> {
    let mut r = rng_of(&rq);
    Ok(HttpResponseCreated(Everything::arb(&mut r, 0)))
}

// ---------------------------------------------------------------------------
// endpoints: response kinds
// ---------------------------------------------------------------------------

#[endpoint { method = POST, path = "/zoo/resp/created", tags = ["response"] }]
async fn resp_created(rq: Rq) -> Result<HttpResponseCreated<Plain>, HttpError> {
    let mut r = rng_of(&rq);
    Ok(HttpResponseCreated(Plain::arb(&mut r, 0)))
}
#[endpoint { method = POST, path = "/zoo/resp/accepted", tags = ["response"] }]
async fn resp_accepted(rq: Rq) -> Result<HttpResponseAccepted<Vec<UnitEnum>>, HttpError> {
    let mut r = rng_of(&rq);
    Ok(HttpResponseAccepted(Arb::arb(&mut r, 0)))
}
#[endpoint { method = DELETE, path = "/zoo/resp/deleted/{id}", tags = ["response"] }]
async fn resp_deleted(_rq: Rq, _p: Path<PId>) -> Result<HttpResponseDeleted, HttpError> {
    Ok(HttpResponseDeleted())
}
#[endpoint { method = PUT, path = "/zoo/resp/updated", tags = ["response"] }]
async fn resp_updated(_rq: Rq) -> Result<HttpResponseUpdatedNoContent, HttpError> {
    Ok(HttpResponseUpdatedNoContent())
}
fn location(rq: &Rq) -> String {
    let mut r = rng_of(rq);
    format!("/zoo/target/{}", header_safe(&mut r))
}
#[endpoint { method = GET, path = "/zoo/resp/found", tags = ["response-redirect"] }]
async fn resp_found(rq: Rq) -> Result<HttpResponseFound, HttpError> {
    http_response_found(location(&rq))
}
#[endpoint { method = GET, path = "/zoo/resp/see-other", tags = ["response-redirect"] }]
async fn resp_see_other(rq: Rq) -> Result<HttpResponseSeeOther, HttpError> {
    http_response_see_other(location(&rq))
}
#[endpoint { method = GET, path = "/zoo/resp/temporary-redirect", tags = ["response-redirect"] }]
async fn resp_temporary_redirect(rq: Rq) -> Result<HttpResponseTemporaryRedirect, HttpError> {
    http_response_temporary_redirect(location(&rq))
}
#[endpoint { method = GET, path = "/zoo/resp/headers", tags = ["response-headers"] }]
async fn resp_headers(rq: Rq) -> Result<HttpResponseHeaders<HttpResponseOk<Plain>, HdrOut>, HttpError> {
    let mut r = rng_of(&rq);
    Ok(HttpResponseHeaders::new(HttpResponseOk(Plain::arb(&mut r, 0)), HdrOut::arb(&mut r, 0)))
}
#[endpoint { method = GET, path = "/zoo/resp/freeform", tags = ["response-freeform"] }]
async fn resp_freeform(rq: Rq) -> Result<http::Response<Body>, HttpError> {
    let mut r = rng_of(&rq);
    let status = *r.pick(&[200u16, 201, 202, 203, 206, 299]);
    let n = r.usize(64);
    let body = r.bytes(n);
    Ok(http::Response::builder()
        .status(status)
        .header("content-type", *r.pick(&["text/plain", "application/octet-stream", "image/png"]))
        .body(body.into())?)
}
#[endpoint { method = GET, path = "/zoo/resp/freeform-body", tags = ["response-freeform"] }]
async fn resp_freeform_body(rq: Rq) -> Result<HttpResponseOk<FreeformBody>, HttpError> {
    let mut r = rng_of(&rq);
    let n = r.usize(64);
    let body = r.bytes(n);
    Ok(HttpResponseOk(FreeformBody(body.into())))
}
#[endpoint { method = GET, path = "/zoo/resp/ranged", tags = ["response"] }]
async fn resp_ranged(rq: Rq) -> Result<HttpResponseOk<RangedOut>, HttpError> {
    ok(&rq)
}
#[endpoint { method = GET, path = "/zoo/resp/scalar", tags = ["response"] }]
async fn resp_scalar(rq: Rq) -> Result<HttpResponseOk<u64>, HttpError> {
    ok(&rq)
}
/// F5: the unit type as a response body
#[endpoint { method = GET, path = "/zoo/resp/unit", tags = ["class:unit-response"] }]
async fn resp_unit(_rq: Rq) -> Result<HttpResponseOk<()>, HttpError> {
    Ok(HttpResponseOk(()))
}
/// an optional referenceable type as a response body
#[endpoint { method = GET, path = "/zoo/resp/option", tags = ["class:option-of-reference-response"] }]
async fn resp_option(rq: Rq) -> Result<HttpResponseOk<Option<Plain>>, HttpError> {
    ok(&rq)
}
#[endpoint { method = GET, path = "/zoo/resp/option-inline", tags = ["response"] }]
async fn resp_option_inline(rq: Rq) -> Result<HttpResponseOk<Option<Vec<u8>>>, HttpError> {
    ok(&rq)
}

// ---------------------------------------------------------------------------
// endpoints: pagination
// ---------------------------------------------------------------------------

#[endpoint { method = GET, path = "/zoo/page/items", tags = ["pagination"] }]
async fn page_items(
    rq: Rq,
    q: Query<PaginationParams<ScanParams, PageSel>>,
) -> Result<HttpResponseOk<ResultsPage<Item>>, HttpError> {
    let p = q.into_inner();
    let limit = rq.page_limit(&p)?.get() as usize;
    let mut r = rng_of(&rq);
    let scan = match &p.page {
        WhichPage::First(s) => s.clone(),
        WhichPage::Next(sel) => ScanParams { project: sel.project.clone(), sort: sel.sort.clone() },
    };
    let n = limit.min(r.usize(5));
    let items: Vec<Item> = (0..n).map(|_| Item::arb(&mut r, 0)).collect();
    Ok(HttpResponseOk(ResultsPage::new(items, &scan, |item: &Item, scan: &ScanParams| PageSel {
        project: scan.project.clone(),
        sort: scan.sort.clone(),
        last: item.name.clone(),
    })?))
}

// ---------------------------------------------------------------------------
// endpoints: custom error types
// ---------------------------------------------------------------------------

#[derive(Debug, Serialize, JsonSchema)]
pub struct StructError {
    message: String,
    kind: ErrKind,
    #[serde(skip)]
    status: ErrorStatusCode,
}
#[derive(Debug, Serialize, JsonSchema)]
pub enum ErrKind {
    /// a framework error
    Framework,
    Other,
}
impl std::fmt::Display for StructError {
    fn fmt(&self, f: &mut std::fmt::Formatter<'_>) -> std::fmt::Result {
        f.write_str(&self.message)
    }
}
impl From<HttpError> for StructError {
    fn from(e: HttpError) -> Self {
        StructError { message: e.external_message, kind: ErrKind::Framework, status: e.status_code }
    }
}
impl HttpResponseError for StructError {
    fn status_code(&self) -> ErrorStatusCode {
        self.status
    }
}

#[derive(Debug, Serialize, JsonSchema)]
pub enum EnumError {
    Custom { badness: i32 },
    Http {
        message: String,
        error_code: Option<String>,
        #[serde(skip)]
        status: ErrorStatusCode,
    },
}
impl std::fmt::Display for EnumError {
    fn fmt(&self, f: &mut std::fmt::Formatter<'_>) -> std::fmt::Result {
        write!(f, "{self:?}")
    }
}
impl From<HttpError> for EnumError {
    fn from(e: HttpError) -> Self {
        EnumError::Http { message: e.external_message, error_code: e.error_code, status: e.status_code }
    }
}
impl HttpResponseError for EnumError {
    fn status_code(&self) -> ErrorStatusCode {
        match self {
            EnumError::Custom { .. } => ErrorStatusCode::INTERNAL_SERVER_ERROR,
            EnumError::Http { status, .. } => *status,
        }
    }
}

#[endpoint { method = POST, path = "/zoo/err/struct", tags = ["custom-error"] }]
async fn err_struct(rq: Rq, _q: Query<QSmall>, _b: TypedBody<Plain>) -> Result<HttpResponseOk<Plain>, StructError> {
    let mut r = rng_of(&rq);
    Ok(HttpResponseOk(Plain::arb(&mut r, 0)))
}
#[endpoint { method = POST, path = "/zoo/err/enum", tags = ["custom-error"] }]
async fn err_enum(rq: Rq, _q: Query<QSmall>, _b: TypedBody<Plain>) -> Result<HttpResponseOk<Plain>, EnumError> {
    let mut r = rng_of(&rq);
    Ok(HttpResponseOk(Plain::arb(&mut r, 0)))
}


// ---------------------------------------------------------------------------
// endpoints: the framework fails AFTER the handler returned Ok (custom error types)
// ---------------------------------------------------------------------------
//
// The handlers below always succeed.  When the (documented, optional) query
// parameter `fail` is true the value they return cannot be turned into an HTTP
// response (Serialize errors / a structured header value that is not a legal
// field value), so the *framework* answers 500.  The document says 5XX bodies
// of these operations are the endpoint's error type.

#[derive(Serialize, Deserialize, JsonSchema, Debug, Clone)]
pub struct QFail {
    /// ask for a response value the framework cannot serialise
    pub fail: Option<bool>,
}

/// JsonSchema derived, Serialize by hand: errors when `fail` is set.
#[derive(JsonSchema, Debug, Clone)]
pub struct Fragile {
    pub value: u32,
    pub note: String,
    #[schemars(skip)]
    pub fail: bool,
}
impl Serialize for Fragile {
    fn serialize<S: serde::Serializer>(&self, s: S) -> Result<S::Ok, S::Error> {
        use serde::ser::SerializeStruct;
        if self.fail {
            return Err(serde::ser::Error::custom("Fragile refuses to be serialised (asked to)"));
        }
        let mut st = s.serialize_struct("Fragile", 2)?;
        st.serialize_field("value", &self.value)?;
        st.serialize_field("note", &self.note)?;
        st.end()
    }
}

#[endpoint { method = GET, path = "/zoo/err/serialize-fails/struct", tags = ["class:framework-5xx-on-demand"] }]
async fn err_serialize_struct(rq: Rq, q: Query<QFail>) -> Result<HttpResponseOk<Fragile>, StructError> {
    let mut r = rng_of(&rq);
    let fail = q.into_inner().fail.unwrap_or(false);
    Ok(HttpResponseOk(Fragile { value: Arb::arb(&mut r, 0), note: Arb::arb(&mut r, 0), fail }))
}
#[endpoint { method = GET, path = "/zoo/err/serialize-fails/enum", tags = ["class:framework-5xx-on-demand"] }]
async fn err_serialize_enum(rq: Rq, q: Query<QFail>) -> Result<HttpResponseCreated<Fragile>, EnumError> {
    let mut r = rng_of(&rq);
    let fail = q.into_inner().fail.unwrap_or(false);
    Ok(HttpResponseCreated(Fragile { value: Arb::arb(&mut r, 0), note: Arb::arb(&mut r, 0), fail }))
}
#[endpoint { method = GET, path = "/zoo/err/bad-header/struct", tags = ["class:framework-5xx-on-demand"] }]
async fn err_bad_header_struct(
    rq: Rq,
    q: Query<QFail>,
) -> Result<HttpResponseHeaders<HttpResponseOk<Plain>, HdrOut>, StructError> {
    let mut r = rng_of(&rq);
    let mut h = HdrOut::arb(&mut r, 0);
    if q.into_inner().fail.unwrap_or(false) {
        // not a legal header field value
        h.second = format!("two\nlines {}", header_safe(&mut r));
    }
    Ok(HttpResponseHeaders::new(HttpResponseOk(Plain::arb(&mut r, 0)), h))
}
#[endpoint { method = GET, path = "/zoo/err/bad-header/enum", tags = ["class:framework-5xx-on-demand"] }]
async fn err_bad_header_enum(
    rq: Rq,
    q: Query<QFail>,
) -> Result<HttpResponseHeaders<HttpResponseAccepted<Plain>, HdrOut>, EnumError> {
    let mut r = rng_of(&rq);
    let mut h = HdrOut::arb(&mut r, 0);
    if q.into_inner().fail.unwrap_or(false) {
        h.etag = "nul\u{0}byte".to_string();
    }
    Ok(HttpResponseHeaders::new(HttpResponseAccepted(Plain::arb(&mut r, 0)), h))
}

// ---------------------------------------------------------------------------
// endpoints: untagged enums whose variants overlap (anyOf, NOT oneOf)
// ---------------------------------------------------------------------------

/// every value of A is also a value of B, and vice versa when `y` is absent
#[derive(Serialize, Deserialize, JsonSchema, Debug, Clone)]
#[serde(untagged)]
pub enum OverlapStructs {
    A { x: u32 },
    B { x: u32, y: Option<u32> },
}
/// every u32 is a u64
#[derive(Serialize, Deserialize, JsonSchema, Debug, Clone)]
#[serde(untagged)]
pub enum OverlapNums {
    Small(u32),
    Big(u64),
    Text(String),
}
#[derive(Serialize, Deserialize, JsonSchema, Debug, Clone)]
pub struct OverlapHolder {
    pub s: OverlapStructs,
    pub n: OverlapNums,
    pub list: Vec<OverlapNums>,
}
impl Arb for OverlapStructs {
    fn arb(r: &mut Rng, d: u32) -> Self {
        match r.below(3) {
            0 => OverlapStructs::A { x: Arb::arb(r, d) },
            1 => OverlapStructs::B { x: Arb::arb(r, d), y: None },
            _ => OverlapStructs::B { x: Arb::arb(r, d), y: Some(Arb::arb(r, d)) },
        }
    }
}
impl Arb for OverlapNums {
    fn arb(r: &mut Rng, d: u32) -> Self {
        match r.below(4) {
            0 => OverlapNums::Small(Arb::arb(r, d)),
            // inside the overlap: a Big that fits a u32
            1 => OverlapNums::Big(u32::arb(r, d) as u64),
            2 => OverlapNums::Big(Arb::arb(r, d)),
            _ => OverlapNums::Text(Arb::arb(r, d)),
        }
    }
}
arb_struct!(OverlapHolder { s, n, list });

#[endpoint { method = GET, path = "/zoo/resp/untagged-overlap/structs", tags = ["response-enum-overlap"] }]
async fn resp_overlap_structs(rq: Rq) -> Result<HttpResponseOk<OverlapStructs>, HttpError> {
    ok(&rq)
}
#[endpoint { method = GET, path = "/zoo/resp/untagged-overlap/nums", tags = ["response-enum-overlap"] }]
async fn resp_overlap_nums(rq: Rq) -> Result<HttpResponseOk<OverlapNums>, HttpError> {
    ok(&rq)
}
#[endpoint { method = GET, path = "/zoo/resp/untagged-overlap/holder", tags = ["response-enum-overlap"] }]
async fn resp_overlap_holder(rq: Rq) -> Result<HttpResponseOk<OverlapHolder>, HttpError> {
    ok(&rq)
}
body_ep!(body_overlap_holder, POST, "/zoo/body/untagged-overlap", OverlapHolder, "body-enum-overlap");
body_ep!(body_overlap_structs, PUT, "/zoo/body/untagged-overlap/structs", OverlapStructs, "body-enum-overlap");


// ---------------------------------------------------------------------------
// endpoints: two DIFFERENT custom error types with the SAME Rust name
// ---------------------------------------------------------------------------
//
// `errs_a::ApiError` and `errs_b::ApiError` have incompatible bodies.  Each is
// the error type of its own operations; framework errors on those operations
// (missing parameter, malformed body) must match the error schema documented
// for *that* operation.

pub mod errs_a {
    use super::*;
    #[derive(Debug, Serialize, JsonSchema)]
    pub struct ApiError {
        pub message: String,
        pub code: u16,
        #[serde(skip)]
        pub status: ErrorStatusCode,
    }
    impl std::fmt::Display for ApiError {
        fn fmt(&self, f: &mut std::fmt::Formatter<'_>) -> std::fmt::Result {
            f.write_str(&self.message)
        }
    }
    impl From<HttpError> for ApiError {
        fn from(e: HttpError) -> Self {
            ApiError { code: e.status_code.as_u16(), message: e.external_message, status: e.status_code }
        }
    }
    impl HttpResponseError for ApiError {
        fn status_code(&self) -> ErrorStatusCode {
            self.status
        }
    }
}
pub mod errs_b {
    use super::*;
    #[derive(Debug, Serialize, JsonSchema)]
    pub enum Origin {
        Framework,
        Handler,
    }
    #[derive(Debug, Serialize, JsonSchema)]
    #[serde(deny_unknown_fields)]
    pub struct ApiError {
        pub detail: String,
        pub origin: Origin,
        pub retryable: bool,
        #[serde(skip)]
        pub status: ErrorStatusCode,
    }
    impl std::fmt::Display for ApiError {
        fn fmt(&self, f: &mut std::fmt::Formatter<'_>) -> std::fmt::Result {
            f.write_str(&self.detail)
        }
    }
    impl From<HttpError> for ApiError {
        fn from(e: HttpError) -> Self {
            ApiError {
                detail: e.external_message,
                origin: Origin::Framework,
                retryable: e.status_code.as_u16() >= 500,
                status: e.status_code,
            }
        }
    }
    impl HttpResponseError for ApiError {
        fn status_code(&self) -> ErrorStatusCode {
            self.status
        }
    }
}

#[endpoint { method = POST, path = "/zoo/err/same-name/a", tags = ["custom-error-same-name"] }]
async fn err_same_name_a(rq: Rq, _q: Query<QSmall>, _b: TypedBody<Plain>) -> Result<HttpResponseOk<Plain>, errs_a::ApiError> {
    let mut r = rng_of(&rq);
    Ok(HttpResponseOk(Plain::arb(&mut r, 0)))
}
#[endpoint { method = GET, path = "/zoo/err/same-name/a/{id}", tags = ["custom-error-same-name"] }]
async fn err_same_name_a_get(rq: Rq, _p: Path<PId>, _q: Query<QSmall>) -> Result<HttpResponseOk<Plain>, errs_a::ApiError> {
    let mut r = rng_of(&rq);
    Ok(HttpResponseOk(Plain::arb(&mut r, 0)))
}
#[endpoint { method = POST, path = "/zoo/err/same-name/b", tags = ["custom-error-same-name"] }]
async fn err_same_name_b(rq: Rq, _q: Query<QSmall>, _b: TypedBody<Plain>) -> Result<HttpResponseOk<Plain>, errs_b::ApiError> {
    let mut r = rng_of(&rq);
    Ok(HttpResponseOk(Plain::arb(&mut r, 0)))
}
#[endpoint { method = GET, path = "/zoo/err/same-name/b/{id}", tags = ["custom-error-same-name"] }]
async fn err_same_name_b_get(rq: Rq, _p: Path<PId>, _q: Query<QSmall>) -> Result<HttpResponseOk<Plain>, errs_b::ApiError> {
    let mut r = rng_of(&rq);
    Ok(HttpResponseOk(Plain::arb(&mut r, 0)))
}

// ---------------------------------------------------------------------------
// endpoints: optional named types NESTED inside inline containers
// ---------------------------------------------------------------------------

#[endpoint { method = GET, path = "/zoo/resp/vec-of-option", tags = ["response-nested-option"] }]
async fn resp_vec_of_option(rq: Rq) -> Result<HttpResponseOk<Vec<Option<Plain>>>, HttpError> {
    let mut r = rng_of(&rq);
    // always at least one element, and a real None in most answers
    let mut v: Vec<Option<Plain>> = Arb::arb(&mut r, 0);
    v.push(if r.chance(2, 3) { None } else { Some(Plain::arb(&mut r, 0)) });
    Ok(HttpResponseOk(v))
}
#[endpoint { method = GET, path = "/zoo/resp/map-of-option", tags = ["response-nested-option"] }]
async fn resp_map_of_option(rq: Rq) -> Result<HttpResponseOk<BTreeMap<String, Option<Plain>>>, HttpError> {
    let mut r = rng_of(&rq);
    let mut m: BTreeMap<String, Option<Plain>> = Arb::arb(&mut r, 0);
    m.insert("always".to_string(), if r.chance(2, 3) { None } else { Some(Plain::arb(&mut r, 0)) });
    Ok(HttpResponseOk(m))
}
#[endpoint { method = GET, path = "/zoo/resp/vec-of-option-enum", tags = ["response-nested-option"] }]
async fn resp_vec_of_option_enum(rq: Rq) -> Result<HttpResponseCreated<Vec<Option<UnitEnum>>>, HttpError> {
    let mut r = rng_of(&rq);
    let mut v: Vec<Option<UnitEnum>> = Arb::arb(&mut r, 0);
    v.push(None);
    Ok(HttpResponseCreated(v))
}
body_ep!(body_vec_of_option, POST, "/zoo/body/vec-of-option", Vec<Option<Plain>>, "body-nested-option");
body_ep!(body_map_of_option, PUT, "/zoo/body/map-of-option", BTreeMap<String, Option<Plain>>, "body-nested-option");

// ---------------------------------------------------------------------------

pub fn api() -> ApiDescription<ZooCtx> {
    let mut api = ApiDescription::new();
    macro_rules! reg {
        ($($e:ident),* $(,)?) => { $( api.register($e).unwrap_or_else(|e| panic!("register {}: {:?}", stringify!($e), e)); )* };
    }
    reg!(
        path_basic, path_typed, query_scalars, query_optional, query_renamed, query_enums,
        query_flattened_strings, query_flattened_typed, query_constrained, query_flatten_untagged,
        path_and_query, body_plain, body_nested, body_ints, body_floats, body_options, body_defaults,
        body_renamed, body_flattened, body_deny, body_maps, body_enum_external, body_enum_internal,
        body_enum_adjacent, body_enum_untagged, body_unit_enum, body_vec, body_value, body_stringy,
        body_tree, body_map_top, body_urlencoded, body_untyped, body_streaming, body_multipart,
        all_three, resp_created, resp_accepted, resp_deleted, resp_updated, resp_found,
        resp_see_other, resp_temporary_redirect, resp_headers, resp_freeform, resp_freeform_body,
        resp_ranged, resp_scalar, resp_unit, resp_option, resp_option_inline, page_items,
        err_struct, err_enum, err_serialize_struct, err_serialize_enum, err_bad_header_struct,
        err_bad_header_enum, resp_overlap_structs, resp_overlap_nums, resp_overlap_holder,
        body_overlap_holder, body_overlap_structs, err_same_name_a, err_same_name_a_get,
        err_same_name_b, err_same_name_b_get, resp_vec_of_option, resp_map_of_option,
        resp_vec_of_option_enum, body_vec_of_option, body_map_of_option,
    );
    api
}

// ---------------------------------------------------------------------------
// a trait-based API: its DOCUMENT comes from the stub description (no
// implementation involved) while the SERVER is built from the implementation.
// Users of API traits publish the former and run the latter, so the C07 clauses
// must hold across the two.
// ---------------------------------------------------------------------------

#[dropshot::api_description]
pub trait TraitZoo {
    type Context;

    #[endpoint { method = POST, path = "/tz/json/{s}/{n}", tags = ["trait"] }]
    async fn tz_json(
        rqctx: RequestContext<Self::Context>,
        path: Path<PBasic>,
        query: Query<QRenamed>,
        body: TypedBody<Plain>,
    ) -> Result<HttpResponseOk<Plain>, HttpError>;

    #[endpoint { method = POST, path = "/tz/form", content_type = "application/x-www-form-urlencoded", tags = ["trait"] }]
    async fn tz_form(rqctx: RequestContext<Self::Context>, body: TypedBody<Form>) -> Result<HttpResponseCreated<Form>, HttpError>;

    #[endpoint { method = PUT, path = "/tz/raw", tags = ["trait"] }]
    async fn tz_raw(rqctx: RequestContext<Self::Context>, body: UntypedBody) -> Result<HttpResponseOk<BytesInfo>, HttpError>;

    #[endpoint { method = GET, path = "/tz/headers", tags = ["trait"] }]
    async fn tz_headers(
        rqctx: RequestContext<Self::Context>,
        query: Query<QEnums>,
    ) -> Result<HttpResponseHeaders<HttpResponseOk<Plain>, HdrOut>, HttpError>;

    #[endpoint { method = DELETE, path = "/tz/item/{s}/{n}", tags = ["trait"] }]
    async fn tz_delete(rqctx: RequestContext<Self::Context>, path: Path<PBasic>) -> Result<HttpResponseDeleted, HttpError>;

    #[endpoint { method = PUT, path = "/tz/nested", tags = ["trait"] }]
    async fn tz_nested(rqctx: RequestContext<Self::Context>, body: TypedBody<Nested>) -> Result<HttpResponseAccepted<Nested>, HttpError>;
}

pub enum TraitZooImpl {}

impl TraitZoo for TraitZooImpl {
    type Context = ZooCtx;

    async fn tz_json(rq: Rq, _p: Path<PBasic>, _q: Query<QRenamed>, _b: TypedBody<Plain>) -> Result<HttpResponseOk<Plain>, HttpError> {
        ok(&rq)
    }
    async fn tz_form(rq: Rq, _b: TypedBody<Form>) -> Result<HttpResponseCreated<Form>, HttpError> {
        let mut r = rng_of(&rq);
        Ok(HttpResponseCreated(Form::arb(&mut r, 0)))
    }
    async fn tz_raw(_rq: Rq, b: UntypedBody) -> Result<HttpResponseOk<BytesInfo>, HttpError> {
        let bytes = b.as_bytes();
        Ok(HttpResponseOk(BytesInfo { len: bytes.len() as u64, sum: bytes.iter().map(|b| *b as u64).sum() }))
    }
    async fn tz_headers(rq: Rq, _q: Query<QEnums>) -> Result<HttpResponseHeaders<HttpResponseOk<Plain>, HdrOut>, HttpError> {
        let mut r = rng_of(&rq);
        Ok(HttpResponseHeaders::new(HttpResponseOk(Plain::arb(&mut r, 0)), HdrOut::arb(&mut r, 0)))
    }
    async fn tz_delete(_rq: Rq, _p: Path<PBasic>) -> Result<HttpResponseDeleted, HttpError> {
        Ok(HttpResponseDeleted())
    }
    async fn tz_nested(rq: Rq, _b: TypedBody<Nested>) -> Result<HttpResponseAccepted<Nested>, HttpError> {
        let mut r = rng_of(&rq);
        Ok(HttpResponseAccepted(Nested::arb(&mut r, 0)))
    }
}

/// the document a user of the trait publishes: from the stub, no implementation
pub fn trait_document() -> Value {
    trait_zoo_mod::stub_api_description()
        .expect("stub description")
        .openapi("trait-zoo", semver::Version::new(1, 0, 0))
        .json()
        .expect("openapi json")
}

pub fn trait_api() -> ApiDescription<ZooCtx> {
    trait_zoo_mod::api_description::<TraitZooImpl>().expect("trait api description")
}

pub fn document() -> Value {
    api().openapi("zoo", semver::Version::new(1, 0, 0)).json().expect("openapi json")
}

/// `c07-zoo-serve`: print `PORT <n>` and `DOC <path>`, serve until stdin closes.
pub fn serve(doc_path: &str, workers: usize, trait_based: bool) {
    use std::io::{Read, Write};
    let doc = if trait_based { trait_document() } else { document() };
    let path = if doc_path.is_empty() {
        std::env::temp_dir().join(format!("vmon_oas_zoo_{}.json", std::process::id())).to_string_lossy().to_string()
    } else {
        doc_path.to_string()
    };
    std::fs::write(&path, serde_json::to_string_pretty(&doc).unwrap()).expect("write document");
    let rt = tokio::runtime::Builder::new_multi_thread()
        .worker_threads(workers.max(1))
        .enable_all()
        .build()
        .expect("runtime");
    let config = ConfigDropshot {
        bind_address: "127.0.0.1:0".parse().unwrap(),
        default_request_body_max_bytes: 1 << 20,
        default_handler_task_mode: HandlerTaskMode::Detached,
        log_headers: vec![],
    };
    let server = rt
        .block_on(async move {
            ServerBuilder::new(if trait_based { trait_api() } else { api() }, ZooCtx, vmon::srv::discard_logger()).config(config).start()
        })
        .expect("start zoo server");
    let out = std::io::stdout();
    {
        let mut o = out.lock();
        writeln!(o, "PORT {}", server.local_addr().port()).unwrap();
        writeln!(o, "DOC {}", path).unwrap();
        o.flush().unwrap();
    }
    // serve until stdin closes
    let mut buf = [0u8; 256];
    let mut stdin = std::io::stdin();
    loop {
        match stdin.read(&mut buf) {
            Ok(0) | Err(_) => break,
            Ok(_) => {}
        }
    }
    let _ = rt.block_on(async {
        tokio::time::timeout(std::time::Duration::from_secs(10), server.close()).await
    });
    rt.shutdown_background();
}
