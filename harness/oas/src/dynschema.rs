//! C08 dynamic schemas: a harness type whose `JsonSchema` impl returns a
//! schema chosen at run time (thread-local slot), so that 10^3..10^4 schemas
//! per run pass through the real `gen_openapi` / `j2oas_*` code without
//! compiling anything.
//!
//! The generator is restricted to the fragment `#[derive(JsonSchema)]` plus
//! schemars attributes can emit, in the *raw* form `json_schema()` returns
//! (i.e. before the generator's visitors ran: `$ref` may have siblings,
//! `examples` is still a list, `true` stands for "any").

use dropshot::{
    ApiDescription, ApiEndpoint, ApiEndpointVersions, HttpError, HttpResponseHeaders,
    HttpResponseOk, Query, RequestContext, TypedBody,
};
use http::Method;
use schemars::gen::{SchemaGenerator, SchemaSettings};
use schemars::schema::Schema;
use schemars::JsonSchema;
use serde_json::{json, Map, Value};
use std::cell::RefCell;
use vmon::rng::Rng;

#[derive(Clone)]
pub struct DynSpec {
    pub name: String,
    pub referenceable: bool,
    pub schema: Schema,
    pub defs: Vec<(String, Schema)>,
}

thread_local! {
    static SLOTS: RefCell<[Option<DynSpec>; 3]> = const { RefCell::new([None, None, None]) };
}

/// slot 0: body/response type, slot 1: query struct, slot 2: header struct
pub struct Dyn<const N: usize>;

impl<const N: usize> serde::Serialize for Dyn<N> {
    fn serialize<S: serde::Serializer>(&self, s: S) -> Result<S::Ok, S::Error> {
        s.serialize_unit()
    }
}
impl<'de, const N: usize> serde::Deserialize<'de> for Dyn<N> {
    fn deserialize<D: serde::Deserializer<'de>>(d: D) -> Result<Self, D::Error> {
        serde::de::IgnoredAny::deserialize(d)?;
        Ok(Dyn)
    }
}

fn with_slot<const N: usize, R>(f: impl FnOnce(&DynSpec) -> R) -> R {
    SLOTS.with(|s| f(s.borrow()[N].as_ref().expect("dyn slot not set")))
}

impl<const N: usize> JsonSchema for Dyn<N> {
    fn schema_name() -> String {
        with_slot::<N, _>(|s| s.name.clone())
    }
    fn schema_id() -> std::borrow::Cow<'static, str> {
        std::borrow::Cow::Owned(format!("vmon_oas::dyn::{}", Self::schema_name()))
    }
    fn is_referenceable() -> bool {
        with_slot::<N, _>(|s| s.referenceable)
    }
    fn json_schema(gen: &mut SchemaGenerator) -> Schema {
        with_slot::<N, _>(|s| {
            for (n, d) in &s.defs {
                if !gen.definitions().contains_key(n) {
                    gen.definitions_mut().insert(n.clone(), d.clone());
                }
            }
            s.schema.clone()
        })
    }
}

async fn h_dyn(
    _rq: RequestContext<()>,
    _b: TypedBody<Dyn<0>>,
) -> Result<HttpResponseOk<Dyn<0>>, HttpError> {
    unreachable!()
}
async fn h_dyn_q(
    _rq: RequestContext<()>,
    _q: Query<Dyn<1>>,
) -> Result<HttpResponseHeaders<HttpResponseOk<Dyn<0>>, Dyn<2>>, HttpError> {
    unreachable!()
}

// ---------------------------------------------------------------------------
// generator
// ---------------------------------------------------------------------------

pub struct Gen<'a> {
    pub r: &'a mut Rng,
    pub defs: Vec<String>,
    /// allow `type: null` nodes (F5 class)
    pub null_type: bool,
    /// raw `$ref` siblings other than `nullable`, and `examples` lists
    pub rich_raw: bool,
    pub features: std::collections::BTreeSet<&'static str>,
    /// index of the definition being generated (-1: the root); a `$ref` at a
    /// position not guarded by properties/items may only point to a LATER
    /// definition, so that every reference cycle passes through an instance
    /// level (derive-generated recursion always does)
    pub cur_def: i64,
    pub guarded: bool,
}

const PROP_NAMES: &[&str] = &["a", "b", "id", "name", "kind", "value", "items", "x-y", "nullable", "type", "é"];
const PATTERNS: &[&str] = &["^[a-z]+$", "^\\d{3}$", "^x", "ab", "^[A-Z][a-z]*$"];
const STR_FORMATS: &[&str] = &["uuid", "date-time", "date", "ip", "ipv4", "ipv6", "password", "byte", "binary", "hostname", "partial-date-time", "my-format"];
const INT_FORMATS: &[&str] = &["int32", "int64", "uint8", "uint16", "uint32", "uint64", "int8", "int16", "uint", "int128"];
const WORDS: &[&str] = &["alpha", "beta", "x", "", "Gamma Delta", "a\"b", "ünï", "0", "null", "true"];

impl<'a> Gen<'a> {
    fn word(&mut self) -> String {
        self.r.pick(WORDS).to_string()
    }

    fn any_value(&mut self, d: u32) -> Value {
        match self.r.below(if d > 1 { 5 } else { 7 }) {
            0 => Value::Null,
            1 => json!(self.r.bool()),
            2 => json!(self.r.range(-50, 50)),
            3 => json!(self.r.range(-200, 200) as f64 / 4.0 + 0.125),
            4 => json!(self.word()),
            5 => {
                let n = self.r.usize(3);
                Value::Array((0..n).map(|_| self.any_value(d + 1)).collect())
            }
            _ => {
                let n = self.r.usize(3);
                let mut m = Map::new();
                for _ in 0..n {
                    let k = self.r.pick(PROP_NAMES).to_string();
                    m.insert(k, self.any_value(d + 1));
                }
                Value::Object(m)
            }
        }
    }

    fn metadata(&mut self, o: &mut Map<String, Value>, examples_ok: bool) {
        if self.r.chance(10, 100) {
            o.insert("title".into(), json!(format!("T {}", self.word())));
            self.features.insert("title");
        }
        if self.r.chance(25, 100) {
            o.insert("description".into(), json!(format!("desc {}\nline2", self.word())));
            self.features.insert("description");
        }
        if self.r.chance(10, 100) {
            o.insert("default".into(), self.any_value(0));
            self.features.insert("default");
        }
        if self.r.chance(6, 100) {
            o.insert("deprecated".into(), json!(true));
            self.features.insert("deprecated");
        }
        if self.r.chance(2, 100) {
            o.insert("readOnly".into(), json!(true));
            self.features.insert("readOnly");
        }
        if self.r.chance(2, 100) {
            o.insert("writeOnly".into(), json!(true));
            self.features.insert("writeOnly");
        }
        if examples_ok && self.r.chance(8, 100) {
            let n = 1 + self.r.usize(2);
            let ex: Vec<Value> = (0..n).map(|_| self.any_value(0)).collect();
            o.insert("examples".into(), Value::Array(ex));
            self.features.insert("example");
        }
        if self.r.chance(8, 100) {
            let k = *self.r.pick(&["x-rust-type", "x-flag", "x-é", "x-"]);
            o.insert(k.into(), self.any_value(0));
            self.features.insert("x-ext");
        }
    }

    fn string(&mut self) -> Map<String, Value> {
        let mut o = Map::new();
        o.insert("type".into(), json!("string"));
        if self.r.chance(15, 100) {
            let n = 1 + self.r.usize(4);
            let mut vals: Vec<Value> = vec![];
            for _ in 0..n {
                let w = json!(self.word());
                if !vals.contains(&w) {
                    vals.push(w);
                }
            }
            o.insert("enum".into(), Value::Array(vals));
            self.features.insert("enum-string");
            return o;
        }
        if self.r.chance(30, 100) {
            let lo = self.r.below(4);
            match self.r.below(3) {
                0 => {
                    o.insert("minLength".into(), json!(lo));
                }
                1 => {
                    o.insert("maxLength".into(), json!(lo + self.r.below(6)));
                }
                _ => {
                    o.insert("minLength".into(), json!(lo));
                    o.insert("maxLength".into(), json!(lo + self.r.below(6)));
                }
            }
            self.features.insert("length");
        }
        if self.r.chance(15, 100) {
            o.insert("pattern".into(), json!(*self.r.pick(PATTERNS)));
            self.features.insert("pattern");
        }
        if self.r.chance(25, 100) {
            o.insert("format".into(), json!(*self.r.pick(STR_FORMATS)));
            self.features.insert("format-string");
        }
        o
    }

    fn bounds(&mut self, o: &mut Map<String, Value>, float: bool) {
        let big = self.r.chance(1, 8);
        let pick = |g: &mut Self| -> Value {
            if float {
                json!(g.r.range(-400, 400) as f64 / 4.0)
            } else if big {
                json!(g.r.range(-(1i64 << 52), 1i64 << 52))
            } else {
                json!(g.r.range(-100, 100))
            }
        };
        let lo = pick(self);
        let hi = {
            let l = lo.as_f64().unwrap();
            let span = if float { self.r.range(0, 200) as f64 / 4.0 } else { self.r.range(0, 100) as f64 };
            if float {
                json!(l + span)
            } else {
                json!((l + span) as i64)
            }
        };
        let which = self.r.below(3);
        if which != 1 {
            let k = if self.r.chance(1, 4) { "exclusiveMinimum" } else { "minimum" };
            o.insert(k.into(), lo);
        }
        if which != 0 {
            let k = if self.r.chance(1, 4) { "exclusiveMaximum" } else { "maximum" };
            o.insert(k.into(), hi);
        }
        self.features.insert(if float { "bounds-number" } else { "bounds-integer" });
    }

    fn integer(&mut self) -> Map<String, Value> {
        let mut o = Map::new();
        o.insert("type".into(), json!("integer"));
        if self.r.chance(60, 100) {
            o.insert("format".into(), json!(*self.r.pick(INT_FORMATS)));
            self.features.insert("format-integer");
        }
        if self.r.chance(8, 100) {
            let n = 1 + self.r.usize(4);
            let mut vals: Vec<Value> = vec![];
            for _ in 0..n {
                let w = json!(self.r.range(-3, 12));
                if !vals.contains(&w) {
                    vals.push(w);
                }
            }
            o.insert("enum".into(), Value::Array(vals));
            self.features.insert("enum-integer");
            return o;
        }
        if self.r.chance(45, 100) {
            self.bounds(&mut o, false);
        }
        if self.r.chance(10, 100) {
            o.insert("multipleOf".into(), json!(self.r.range(2, 10)));
            self.features.insert("multipleOf-integer");
        }
        o
    }

    fn number(&mut self) -> Map<String, Value> {
        let mut o = Map::new();
        o.insert("type".into(), json!("number"));
        if self.r.chance(60, 100) {
            o.insert("format".into(), json!(*self.r.pick(&["float", "double", "decimal"])));
            self.features.insert("format-number");
        }
        if self.r.chance(5, 100) {
            o.insert("enum".into(), json!([0.5, 1.5, 2]));
            self.features.insert("enum-number");
            return o;
        }
        if self.r.chance(45, 100) {
            self.bounds(&mut o, true);
        }
        if self.r.chance(10, 100) {
            o.insert("multipleOf".into(), json!(*self.r.pick(&[0.25, 0.5, 2.0, 1.5])));
            self.features.insert("multipleOf-number");
        }
        o
    }

    fn boolean(&mut self) -> Map<String, Value> {
        let mut o = Map::new();
        o.insert("type".into(), json!("boolean"));
        if self.r.chance(10, 100) {
            o.insert("enum".into(), json!([self.r.bool()]));
            self.features.insert("enum-boolean");
        }
        o
    }

    fn array(&mut self, d: u32) -> Map<String, Value> {
        let mut o = Map::new();
        o.insert("type".into(), json!("array"));
        let g0 = std::mem::replace(&mut self.guarded, true);
        let items = self.node(d + 1);
        self.guarded = g0;
        o.insert("items".into(), items);
        if self.r.chance(30, 100) {
            let lo = self.r.below(3);
            match self.r.below(3) {
                0 => {
                    o.insert("minItems".into(), json!(lo));
                }
                1 => {
                    o.insert("maxItems".into(), json!(lo + self.r.below(4)));
                }
                _ => {
                    o.insert("minItems".into(), json!(lo));
                    o.insert("maxItems".into(), json!(lo + self.r.below(4)));
                }
            }
            self.features.insert("items-bounds");
        }
        if self.r.chance(20, 100) {
            o.insert("uniqueItems".into(), json!(true));
            self.features.insert("uniqueItems");
        } else if self.r.chance(3, 100) {
            o.insert("uniqueItems".into(), json!(false));
        }
        o
    }

    fn object(&mut self, d: u32) -> Map<String, Value> {
        let g0 = std::mem::replace(&mut self.guarded, true);
        let o = self.object_inner(d);
        self.guarded = g0;
        o
    }

    fn object_inner(&mut self, d: u32) -> Map<String, Value> {
        let mut o = Map::new();
        o.insert("type".into(), json!("object"));
        let map_like = self.r.chance(15, 100);
        let n = if map_like { 0 } else { self.r.usize(5) };
        let mut props = Map::new();
        let mut req: Vec<Value> = vec![];
        for _ in 0..n {
            let k = self.r.pick(PROP_NAMES).to_string();
            if props.contains_key(&k) {
                continue;
            }
            props.insert(k.clone(), self.node(d + 1));
            if self.r.chance(55, 100) {
                req.push(json!(k));
            }
        }
        if !props.is_empty() {
            o.insert("properties".into(), Value::Object(props));
            self.features.insert("properties");
        }
        if !req.is_empty() {
            o.insert("required".into(), Value::Array(req));
            self.features.insert("required");
        }
        let ap = if map_like { 3 } else { self.r.below(10) };
        match ap {
            0 | 1 => {
                o.insert("additionalProperties".into(), json!(false));
                self.features.insert("additionalProperties-false");
            }
            2 => {
                o.insert("additionalProperties".into(), json!(true));
                self.features.insert("additionalProperties-true");
            }
            3 | 4 => {
                let s = self.node(d + 1);
                // `additionalProperties: <object schema>`; a bare `true` is the map-of-any form
                o.insert("additionalProperties".into(), s);
                self.features.insert("additionalProperties-schema");
            }
            _ => {}
        }
        if self.r.chance(6, 100) {
            let lo = self.r.below(3);
            if self.r.bool() {
                o.insert("minProperties".into(), json!(lo));
            } else {
                o.insert("maxProperties".into(), json!(lo + 1 + self.r.below(4)));
            }
            self.features.insert("properties-bounds");
        }
        o
    }

    fn refs_allowed(&self) -> Vec<String> {
        if self.guarded {
            self.defs.clone()
        } else {
            self.defs.iter().enumerate().filter(|(i, _)| (*i as i64) > self.cur_def).map(|(_, n)| n.clone()).collect()
        }
    }

    fn reference(&mut self) -> Map<String, Value> {
        let mut o = Map::new();
        let allowed = self.refs_allowed();
        let name = self.r.pick(&allowed).clone();
        o.insert("$ref".into(), json!(format!("#/components/schemas/{name}")));
        self.features.insert("ref");
        o
    }

    /// an enum-variant-like object: `{type: object, required: [tag], properties: {tag: {type: string, enum: [v]}, ...}}`
    fn variant(&mut self, d: u32, i: usize) -> Value {
        let mut props = Map::new();
        props.insert("t".into(), json!({"type": "string", "enum": [format!("v{i}")]}));
        let mut req = vec![json!("t")];
        if self.r.bool() {
            let g0 = std::mem::replace(&mut self.guarded, true);
            let c = self.node(d + 1);
            self.guarded = g0;
            props.insert("c".into(), c);
            if self.r.bool() {
                req.push(json!("c"));
            }
        }
        let mut o = Map::new();
        o.insert("type".into(), json!("object"));
        o.insert("properties".into(), Value::Object(props));
        o.insert("required".into(), Value::Array(req));
        if self.r.chance(1, 4) {
            o.insert("additionalProperties".into(), json!(false));
        }
        if self.r.chance(1, 3) {
            o.insert("description".into(), json!("variant docs"));
        }
        Value::Object(o)
    }

    fn subschemas(&mut self, d: u32) -> Map<String, Value> {
        let mut o = Map::new();
        match self.r.below(8) {
            0 | 1 => {
                let n = 1 + self.r.usize(3);
                let v: Vec<Value> = (0..n)
                    .map(|_| {
                        if !self.refs_allowed().is_empty() && self.r.bool() {
                            Value::Object(self.reference())
                        } else {
                            Value::Object(self.object(d + 1))
                        }
                    })
                    .collect();
                o.insert("allOf".into(), Value::Array(v));
                self.features.insert("allOf");
            }
            2 | 3 => {
                let n = 2 + self.r.usize(2);
                let v: Vec<Value> = (0..n).map(|_| self.node(d + 1)).collect();
                o.insert("anyOf".into(), Value::Array(v));
                self.features.insert("anyOf");
            }
            4 | 5 | 6 => {
                let n = 1 + self.r.usize(3);
                let tagged = self.r.chance(2, 3);
                let v: Vec<Value> = (0..n)
                    .map(|i| if tagged { self.variant(d, i) } else { self.node(d + 1) })
                    .collect();
                o.insert("oneOf".into(), Value::Array(v));
                self.features.insert("oneOf");
            }
            _ => {
                // `not` of a proper (typed) schema
                let inner = match self.r.below(4) {
                    0 => self.string(),
                    1 => self.integer(),
                    2 => self.object(d + 1),
                    _ => self.boolean(),
                };
                o.insert("not".into(), Value::Object(inner));
                self.features.insert("not");
            }
        }
        o
    }

    /// one schema node in raw form
    pub fn node(&mut self, d: u32) -> Value {
        let deep = d >= 3;
        let has_defs = !self.refs_allowed().is_empty();
        let w = self.r.below(100);
        let mut o = if w < 18 {
            self.string()
        } else if w < 33 {
            self.integer()
        } else if w < 41 {
            self.number()
        } else if w < 47 {
            self.boolean()
        } else if w < 60 {
            if has_defs {
                let mut o = self.reference();
                // raw `$ref` siblings: Option<T> adds `nullable`, field attributes add metadata
                if self.r.chance(35, 100) {
                    o.insert("nullable".into(), json!(true));
                    self.features.insert("ref+nullable");
                }
                if self.rich_raw && self.r.chance(30, 100) {
                    self.metadata(&mut o, true);
                    self.features.insert("ref+metadata");
                }
                return Value::Object(o);
            }
            self.string()
        } else if w < 62 {
            if self.r.bool() {
                return Value::Bool(true);
            }
            Map::new()
        } else if w < 64 && self.null_type {
            let mut o = Map::new();
            o.insert("type".into(), json!("null"));
            self.features.insert("null-type");
            o
        } else if deep {
            self.string()
        } else if w < 76 {
            self.array(d)
        } else if w < 92 {
            self.object(d)
        } else {
            self.subschemas(d)
        };
        let ex_ok = self.rich_raw;
        if self.r.chance(45, 100) {
            self.metadata(&mut o, ex_ok);
        }
        if self.r.chance(12, 100) && o.get("type") != Some(&json!("null")) {
            o.insert("nullable".into(), json!(true));
            self.features.insert("nullable");
            // Option<UnitEnum>-like: the enum lists null as well
            if let Some(Value::Array(e)) = o.get_mut("enum") {
                if self.r.bool() {
                    e.push(Value::Null);
                }
            }
        }
        Value::Object(o)
    }

    /// scalar member of a parameter / header struct
    fn scalar_member(&mut self, strings_only: bool, enum_def: Option<&str>) -> Value {
        let mut o = if strings_only {
            self.string()
        } else {
            match self.r.below(10) {
                0..=3 => self.string(),
                4..=6 => self.integer(),
                7 => self.number(),
                8 => self.boolean(),
                _ => match enum_def {
                    Some(n) => {
                        let mut o = Map::new();
                        o.insert("$ref".into(), json!(format!("#/components/schemas/{n}")));
                        if self.r.bool() {
                            o.insert("nullable".into(), json!(true));
                        }
                        self.features.insert("param-ref");
                        o
                    }
                    None => self.string(),
                },
            }
        };
        if self.r.chance(45, 100) {
            self.metadata(&mut o, true);
        }
        if !o.contains_key("$ref") && self.r.chance(12, 100) {
            o.insert("nullable".into(), json!(true));
        }
        Value::Object(o)
    }

    fn member_struct(&mut self, strings_only: bool, enum_def: Option<&str>, names: &[&str]) -> Value {
        let n = 1 + self.r.usize(4);
        let mut props = Map::new();
        let mut req = vec![];
        for _ in 0..n {
            let k = self.r.pick(names).to_string();
            if props.contains_key(&k) {
                continue;
            }
            props.insert(k.clone(), self.scalar_member(strings_only, enum_def));
            if self.r.chance(55, 100) {
                req.push(json!(k));
            }
        }
        let mut o = Map::new();
        o.insert("type".into(), json!("object"));
        o.insert("properties".into(), Value::Object(props));
        if !req.is_empty() {
            o.insert("required".into(), Value::Array(req));
        }
        if self.r.chance(20, 100) {
            o.insert("description".into(), json!("struct docs"));
        }
        Value::Object(o)
    }
}

fn to_schema(v: &Value) -> Schema {
    serde_json::from_value(v.clone()).expect("generated schema deserialises")
}

fn source_of_slot<const N: usize>() -> Value {
    crate::corpus::source_of::<Dyn<N>>()
}

/// Generate dynamic case `index` of `(seed, shard)` and run it through
/// dropshot.  Returns the dump entry.
pub fn dyn_case(seed: u64, shard: u64, index: u64) -> Value {
    let mut r = Rng::derive(seed, "c08-dyn", shard, index);
    let null_type = r.chance(1, 12);
    let referenceable = r.chance(3, 4);
    let ndefs = r.usize(4);
    let defs: Vec<String> = (0..ndefs).map(|i| format!("Def{}", (b'A' + i as u8) as char)).collect();
    let mut g = Gen {
        r: &mut r,
        defs: defs.clone(),
        null_type,
        // an inline (non-referenceable) root only carries what inline std
        // types (Option/Vec/Map of references) can carry in raw form
        rich_raw: referenceable,
        features: Default::default(),
        cur_def: -1,
        guarded: false,
    };
    let root = loop {
        let n = g.node(0);
        // `true`, `{}` and trivial `not` roots say nothing
        if let Value::Object(o) = &n {
            if !o.is_empty() {
                break n;
            }
        }
    };
    // definitions are always visited by the generator's visitors
    let was_rich = g.rich_raw;
    g.rich_raw = true;
    let mut def_schemas: Vec<(String, Value)> = vec![];
    for (di, n) in defs.iter().enumerate() {
        g.cur_def = di as i64;
        g.guarded = false;
        let s = loop {
            let s = if g.r.chance(2, 3) { Value::Object(g.object(1)) } else { g.node(1) };
            if let Value::Object(o) = &s {
                if !o.is_empty() && !o.contains_key("$ref") {
                    break s;
                }
            }
        };
        def_schemas.push((n.clone(), s));
    }
    g.rich_raw = was_rich;
    // parameter / header structs (always through root_schema_for => visited)
    g.rich_raw = true;
    g.cur_def = -1;
    let with_params = g.r.chance(1, 2);
    let enum_def = json!({"type": "string", "enum": ["p", "q", "r"]});
    let qschema = g.member_struct(false, Some("DefEnum"), &["a", "b", "limit", "sort-by", "id", "Name"]);
    let hschema = g.member_struct(true, None, &["etag", "x-one", "x-two", "location"]);
    let features: Vec<&str> = g.features.iter().copied().collect();
    let root_kind = root_kind(&root);

    let mk = |name: &str, refable: bool, schema: &Value, defs: &[(String, Value)]| DynSpec {
        name: name.to_string(),
        referenceable: refable,
        schema: to_schema(schema),
        defs: defs.iter().map(|(n, s)| (n.clone(), to_schema(s))).collect(),
    };
    let spec0 = mk("DynRoot", referenceable, &root, &def_schemas);
    let spec1 = mk("DynQuery", true, &qschema, &[("DefEnum".to_string(), enum_def.clone())]);
    let spec2 = mk("DynHeaders", true, &hschema, &[]);
    SLOTS.with(|s| {
        let mut s = s.borrow_mut();
        s[0] = Some(spec0);
        s[1] = Some(spec1);
        s[2] = Some(spec2);
    });

    let class = format!(
        "{}|{}|{}{}",
        if referenceable { "referenceable" } else { "inline" },
        root_kind,
        if null_type && features.contains(&"null-type") { "null-type" } else { "general" },
        if with_params { "|params" } else { "" }
    );
    let raw = json!({"root": root, "definitions": def_schemas.iter().cloned().collect::<Map<String, Value>>(),
                     "query": if with_params { qschema.clone() } else { Value::Null },
                     "headers": if with_params { hschema.clone() } else { Value::Null }});

    let result = vmon::panics::catch_quiet(std::panic::AssertUnwindSafe(|| {
        let mut api = ApiDescription::<()>::new();
        api.register(ApiEndpoint::new(
            "dyn_body".to_string(),
            h_dyn,
            Method::PUT,
            "application/json",
            "/dyn",
            ApiEndpointVersions::All,
        ))
        .map_err(|e| format!("{e:?}"))?;
        if with_params {
            api.register(ApiEndpoint::new(
                "dyn_params".to_string(),
                h_dyn_q,
                Method::GET,
                "application/json",
                "/dynq",
                ApiEndpointVersions::All,
            ))
            .map_err(|e| format!("{e:?}"))?;
        }
        let doc = api
            .openapi("t", semver::Version::new(1, 0, 0))
            .json()
            .map_err(|e| format!("json: {e}"))?;
        let mut entries = vec![json!({
            "name": "DynRoot", "class": class, "api": "dyn",
            "sites": [
                {"site": "request_body", "method": "put", "path": "/dyn"},
                {"site": "response_body", "method": "put", "path": "/dyn", "status": "200"},
            ],
            "source": source_of_slot::<0>(),
        })];
        if with_params {
            entries.push(json!({
                "name": "DynQuery@query", "class": class, "api": "dyn",
                "sites": [{"site": "query", "method": "get", "path": "/dynq"}],
                "source": source_of_slot::<1>(),
            }));
            entries.push(json!({
                "name": "DynHeaders@headers", "class": class, "api": "dyn",
                "sites": [{"site": "headers", "method": "get", "path": "/dynq", "status": "200"}],
                "source": source_of_slot::<2>(),
            }));
        }
        Ok::<_, String>((doc, entries))
    }));
    let id = json!({"seed": seed, "shard": shard, "index": index});
    match result {
        Ok(Ok((doc, entries))) => json!({
            "kind": "dyn", "id": id, "class": class, "features": features, "raw": raw,
            "document": doc, "entries": entries,
        }),
        Ok(Err(e)) => json!({
            "kind": "dyn", "id": id, "class": class, "features": features, "raw": raw,
            "refused": e,
        }),
        Err(p) => json!({
            "kind": "dyn", "id": id, "class": class, "features": features, "raw": raw,
            "panicked": {"location": p.location, "message": p.message},
        }),
    }
}

fn root_kind(v: &Value) -> String {
    let o = match v.as_object() {
        Some(o) => o,
        None => return "any".into(),
    };
    if o.contains_key("$ref") {
        return "ref".into();
    }
    for k in ["allOf", "anyOf", "oneOf", "not"] {
        if o.contains_key(k) {
            return k.into();
        }
    }
    match o.get("type").and_then(|t| t.as_str()) {
        Some(t) => {
            if o.contains_key("enum") {
                format!("{t}-enum")
            } else {
                t.to_string()
            }
        }
        None => "any".into(),
    }
}

/// the settings are the ones dropshot uses; referenced so that a change of
/// name there is a build failure here, not a silent divergence
#[allow(dead_code)]
fn _settings() -> SchemaSettings {
    SchemaSettings::openapi3()
}
