//! vmon_tls: the HTTPS variants of the C18 (a stalled or broken TLS handshake
//! must not wedge the server) and C09 (each handler sees its own peer address)
//! monitors.  A real dropshot server with ConfigTls, a hand-driven rustls
//! client so that the handshake can be stalled at a chosen byte.
use dropshot::{ConfigDropshot, ConfigTls, HandlerTaskMode, ServerBuilder};
use serde_json::json;
use std::io::{Read, Write};
use std::net::{SocketAddr, TcpStream};
use std::sync::Arc;
use std::time::{Duration, Instant};
use vmon::client::{parse_one, Req};
use vmon::evlog::{next_uid, EvLog};
use vmon::live::echo_api;
use vmon::report::Report;
use vmon::rng::Rng;
use vmon::srv::{discard_logger, Ctx};

#[derive(Debug)]
struct AcceptAny(Arc<rustls::crypto::CryptoProvider>);
impl rustls::client::danger::ServerCertVerifier for AcceptAny {
    fn verify_server_cert(
        &self,
        _end_entity: &rustls::pki_types::CertificateDer<'_>,
        _intermediates: &[rustls::pki_types::CertificateDer<'_>],
        _server_name: &rustls::pki_types::ServerName<'_>,
        _ocsp: &[u8],
        _now: rustls::pki_types::UnixTime,
    ) -> Result<rustls::client::danger::ServerCertVerified, rustls::Error> {
        Ok(rustls::client::danger::ServerCertVerified::assertion())
    }
    fn verify_tls12_signature(
        &self,
        message: &[u8],
        cert: &rustls::pki_types::CertificateDer<'_>,
        dss: &rustls::DigitallySignedStruct,
    ) -> Result<rustls::client::danger::HandshakeSignatureValid, rustls::Error> {
        rustls::crypto::verify_tls12_signature(message, cert, dss, &self.0.signature_verification_algorithms)
    }
    fn verify_tls13_signature(
        &self,
        message: &[u8],
        cert: &rustls::pki_types::CertificateDer<'_>,
        dss: &rustls::DigitallySignedStruct,
    ) -> Result<rustls::client::danger::HandshakeSignatureValid, rustls::Error> {
        rustls::crypto::verify_tls13_signature(message, cert, dss, &self.0.signature_verification_algorithms)
    }
    fn supported_verify_schemes(&self) -> Vec<rustls::SignatureScheme> {
        self.0.signature_verification_algorithms.supported_schemes()
    }
}

fn client_config() -> Arc<rustls::ClientConfig> {
    let provider = Arc::new(rustls::crypto::ring::default_provider());
    let mut cfg = rustls::ClientConfig::builder()
        .dangerous()
        .with_custom_certificate_verifier(Arc::new(AcceptAny(provider)))
        .with_no_client_auth();
    cfg.alpn_protocols = vec![b"http/1.1".to_vec()];
    Arc::new(cfg)
}

struct TlsClient {
    conn: rustls::ClientConnection,
    sock: TcpStream,
    local: SocketAddr,
}

impl TlsClient {
    /// TCP connect only; the ClientHello is produced but not sent
    fn connect(addr: SocketAddr, cfg: &Arc<rustls::ClientConfig>) -> Result<(TlsClient, Vec<u8>), String> {
        let sock = TcpStream::connect_timeout(&addr, Duration::from_secs(10)).map_err(|e| format!("connect: {e}"))?;
        sock.set_nodelay(true).ok();
        let local = sock.local_addr().map_err(|e| e.to_string())?;
        let name = rustls::pki_types::ServerName::try_from("localhost").unwrap();
        let mut conn = rustls::ClientConnection::new(cfg.clone(), name).map_err(|e| e.to_string())?;
        let mut hello = vec![];
        while conn.wants_write() {
            conn.write_tls(&mut hello).map_err(|e| e.to_string())?;
        }
        Ok((TlsClient { conn, sock, local }, hello))
    }

    /// finish the handshake (after the ClientHello bytes have been sent) and do one request
    fn request(&mut self, req: &[u8], watchdog: Duration) -> Result<vmon::client::Resp, String> {
        self.sock.set_read_timeout(Some(watchdog)).ok();
        self.sock.set_write_timeout(Some(watchdog)).ok();
        let deadline = Instant::now() + watchdog;
        let mut tls = rustls::Stream::new(&mut self.conn, &mut self.sock);
        tls.write_all(req).map_err(|e| format!("tls write: {e}"))?;
        tls.flush().map_err(|e| format!("tls flush: {e}"))?;
        let mut buf = vec![];
        let mut tmp = [0u8; 8192];
        loop {
            if let Ok((r, _)) = parse_one(&buf, false) {
                return Ok(r);
            }
            if Instant::now() > deadline {
                return Err("watchdog".into());
            }
            match tls.read(&mut tmp) {
                Ok(0) => return Err(format!("eof after {} bytes", buf.len())),
                Ok(n) => buf.extend_from_slice(&tmp[..n]),
                Err(e) => return Err(format!("tls read: {e}")),
            }
        }
    }
}

struct TlsServer {
    rt: tokio::runtime::Runtime,
    server: Option<dropshot::HttpServer<vmon::srv::C>>,
    addr: SocketAddr,
}

fn start_tls(log: &EvLog, mode: HandlerTaskMode) -> Result<TlsServer, String> {
    let ck = rcgen::generate_simple_self_signed(vec!["localhost".to_string()]).map_err(|e| e.to_string())?;
    let tls = ConfigTls::AsBytes { certs: ck.cert.pem().into_bytes(), key: ck.key_pair.serialize_pem().into_bytes() };
    let rt = tokio::runtime::Builder::new_multi_thread().worker_threads(4).enable_all().build().map_err(|e| e.to_string())?;
    let config = ConfigDropshot {
        bind_address: "127.0.0.1:0".parse().unwrap(),
        default_request_body_max_bytes: 4096,
        default_handler_task_mode: mode,
        log_headers: vec![],
    };
    let ctx = Ctx::new(log.clone());
    let b = ServerBuilder::new(echo_api(&[]), ctx, discard_logger()).config(config).tls(Some(tls));
    let server = rt.block_on(async move { b.start() }).map_err(|e| format!("start: {e}"))?;
    let addr = server.local_addr();
    Ok(TlsServer { rt, server: Some(server), addr })
}

impl Drop for TlsServer {
    fn drop(&mut self) {
        if let Some(s) = self.server.take() {
            let _ = self.rt.block_on(async { tokio::time::timeout(Duration::from_secs(10), s.close()).await });
        }
    }
}

fn health(addr: SocketAddr, cfg: &Arc<rustls::ClientConfig>, watchdog: Duration) -> Result<SocketAddr, String> {
    let (mut c, hello) = TlsClient::connect(addr, cfg)?;
    c.sock.write_all(&hello).map_err(|e| format!("hello: {e}"))?;
    let uid = next_uid();
    let r = c.request(&Req::new("GET", "/health").uid(uid).encode(), watchdog)?;
    let j = r.json().ok_or("health body not json")?;
    if r.status != 200 || j["meta"]["uid"].as_u64() != Some(uid) {
        return Err(format!("health answered {} {}", r.status, j));
    }
    Ok(c.local)
}

/// C18 over TLS: stalled / broken handshakes must not keep other connections from being served.
fn run_c18(seed: u64, rounds: usize) -> Report {
    let mut rep = Report::new(
        "C18",
        "E2-tls-hostile",
        "an HTTPS server (ConfigTls) in both task modes; per round k connections are opened that stall the TLS handshake (nothing sent / \
         a prefix of the ClientHello / a complete ClientHello but no further flight / random bytes / a plain-HTTP request) and are HELD \
         open while fresh TLS connections must still complete a handshake and be answered 200 with the right uid; bounded-progress rule: \
         a probe that fails while the stalled connections are held AND succeeds right after they are released is a violation (blocking \
         dependence), failing both times is inconclusive; class = (stall kind, k, mode)",
    );
    let cfg = client_config();
    for mode in [HandlerTaskMode::Detached, HandlerTaskMode::CancelOnDisconnect] {
        let log = EvLog::new();
        let srv = match start_tls(&log, mode) {
            Ok(s) => s,
            Err(e) => {
                rep.inconclusive(&format!("tls server start: {e}"));
                continue;
            }
        };
        let mode_tag = if matches!(mode, HandlerTaskMode::Detached) { "det" } else { "cod" };
        if let Err(e) = health(srv.addr, &cfg, Duration::from_secs(20)) {
            rep.inconclusive(&format!("tls client cannot talk to an idle server: {e}"));
            continue;
        }
        for r in 0..rounds {
            let mut rng = Rng::derive(seed, "c18-tls", if mode_tag == "det" { 0 } else { 1 }, r as u64);
            let kind = *rng.pick(&["silent", "hello-prefix", "hello-only", "random-bytes", "plain-http", "tls-record-header-only"]);
            let k = 1 + rng.usize(4);
            let mut held: Vec<TcpStream> = vec![];
            for _ in 0..k {
                let Ok((c, hello)) = TlsClient::connect(srv.addr, &cfg) else {
                    rep.inconclusive("connect");
                    continue;
                };
                let mut sock = c.sock;
                let bytes: Vec<u8> = match kind {
                    "silent" => vec![],
                    "hello-prefix" => hello[..1 + rng.usize(hello.len() - 1)].to_vec(),
                    "hello-only" => hello.clone(),
                    "random-bytes" => {
                        let n = 1 + rng.usize(300);
                        rng.bytes(n)
                    }
                    "plain-http" => b"GET /health HTTP/1.1\r\nhost: a\r\n\r\n".to_vec(),
                    _ => vec![0x16, 0x03, 0x01, 0x40, 0x00],
                };
                let _ = sock.write_all(&bytes);
                held.push(sock);
            }
            std::thread::sleep(Duration::from_millis(30));
            rep.eval(format!("{kind}|k{k}|{mode_tag}"));
            let first = health(srv.addr, &cfg, Duration::from_secs(12));
            match first {
                Ok(_) => {
                    rep.count("probes_served_while_handshakes_stalled", 1);
                    if rep.want_sample() {
                        rep.sample(json!({"stall": kind, "held_connections": k, "mode": mode_tag, "probe": "200 while held"}));
                    }
                }
                Err(e1) => {
                    drop(held);
                    held = vec![];
                    std::thread::sleep(Duration::from_millis(100));
                    match health(srv.addr, &cfg, Duration::from_secs(12)) {
                        Ok(_) => rep.violate(
                            "C18:tls:stalled-handshake-blocks-other-connections",
                            json!({"seed": seed, "round": r, "mode": mode_tag, "stall": kind, "held_connections": k,
                                   "probe_while_held": e1, "probe_after_release": "200"}),
                        ),
                        Err(e2) => rep.inconclusive(&format!(
                            "tls probe failed with and without stalled peers: {} / {}",
                            e1.chars().take(40).collect::<String>(),
                            e2.chars().take(40).collect::<String>()
                        )),
                    }
                }
            }
            drop(held);
        }
        drop(srv);
    }
    rep
}

/// C09 over TLS: the peer address a handler sees is its own connection's,
/// whatever the order in which handshakes complete.
fn run_c09(seed: u64, rounds: usize) -> Report {
    let mut rep = Report::new(
        "C09",
        "E2-tls-peer-address",
        "an HTTPS server; per round n clients connect in a random order, send their ClientHello (some stall it: a prefix first, the rest \
         later) and complete their handshakes in another random order, then each sends a request; the `remote` address echoed by the \
         handler must be the local address of the very socket the request was sent on; class = (n, #stalled, accept order vs completion \
         order relation)",
    );
    let cfg = client_config();
    let log = EvLog::new();
    let srv = match start_tls(&log, HandlerTaskMode::Detached) {
        Ok(s) => s,
        Err(e) => {
            rep.inconclusive(&format!("tls server start: {e}"));
            return rep;
        }
    };
    for r in 0..rounds {
        let mut rng = Rng::derive(seed, "c09-tls", 0, r as u64);
        let n = 2 + rng.usize(5);
        let mut clients: Vec<(TlsClient, Vec<u8>, usize)> = vec![];
        for _ in 0..n {
            match TlsClient::connect(srv.addr, &cfg) {
                Ok((c, hello)) => {
                    // how much of the hello goes out now
                    let now = match rng.below(3) {
                        0 => 0,
                        1 => 1 + rng.usize(hello.len() - 1),
                        _ => hello.len(),
                    };
                    clients.push((c, hello, now));
                }
                Err(_) => rep.inconclusive("connect"),
            }
            std::thread::sleep(Duration::from_millis(2));
        }
        for (c, hello, now) in clients.iter_mut() {
            let _ = c.sock.write_all(&hello[..*now]);
        }
        std::thread::sleep(Duration::from_millis(20));
        let stalled = clients.iter().filter(|c| c.2 < c.1.len()).count();
        // completion order
        let mut order: Vec<usize> = (0..clients.len()).collect();
        rng.shuffle(&mut order);
        let inverted = order.windows(2).filter(|w| w[0] > w[1]).count();
        rep.eval(format!("n{n}|stalled{stalled}|inversions{}", inverted.min(4)));
        for &i in &order {
            let (c, hello, now) = &mut clients[i];
            if c.sock.write_all(&hello[*now..]).is_err() {
                rep.inconclusive("server closed a stalled connection");
                continue;
            }
            let uid = next_uid();
            match c.request(&Req::new("GET", "/health").uid(uid).encode(), Duration::from_secs(20)) {
                Ok(resp) => {
                    let j = resp.json().unwrap_or(json!(null));
                    rep.count("tls_requests_answered", 1);
                    let want = c.local.to_string();
                    if resp.status != 200 || j["meta"]["uid"].as_u64() != Some(uid) {
                        rep.violate("C09:tls:request-not-served-correctly", json!({"status": resp.status, "echo": j}));
                    } else if j["meta"]["remote"].as_str() != Some(want.as_str()) {
                        rep.violate(
                            "C09:request-context:peer-address-differs",
                            json!({"seed": seed, "round": r, "transport": "tls", "client_index_in_accept_order": i,
                                   "completion_order": order, "sent_from": want, "handler_saw": j["meta"]["remote"],
                                   "all_client_addresses": clients.iter().map(|c| c.0.local.to_string()).collect::<Vec<_>>()}),
                        );
                    } else if rep.want_sample() {
                        rep.sample(json!({"clients": n, "stalled": stalled, "completion_order": order, "sent_from": want,
                                          "handler_saw": j["meta"]["remote"]}));
                    }
                }
                Err(e) => rep.inconclusive(&format!("tls request failed: {}", e.chars().take(40).collect::<String>())),
            }
        }
    }
    drop(srv);
    rep
}

fn main() {
    vmon::panics::install();
    let mut a = std::env::args().skip(1);
    let engine = a.next().unwrap_or_default();
    let (mut seed, mut tier, mut out) = (1u64, "quick".to_string(), String::new());
    while let Some(k) = a.next() {
        match k.as_str() {
            "--seed" => seed = a.next().and_then(|s| s.parse().ok()).unwrap_or(1),
            "--tier" => tier = a.next().unwrap_or_default(),
            "--out" => out = a.next().unwrap_or_default(),
            "--threads" => {
                a.next();
            }
            _ => {}
        }
    }
    let t0 = Instant::now();
    let quick = tier != "thorough";
    let mut rep = match engine.as_str() {
        "c18-tls" => run_c18(seed, if quick { 40 } else { 1500 }),
        "c09-tls" => run_c09(seed, if quick { 60 } else { 3000 }),
        _ => {
            eprintln!("usage: vmon_tls c18-tls|c09-tls --seed N --tier T --out F");
            std::process::exit(2)
        }
    };
    for p in vmon::panics::take_unexpected() {
        rep.violate(format!("{}:unexpected-panic", rep.property), json!({"location": p.location, "message": p.message}));
    }
    let mut j = rep.to_json();
    j["wall_s"] = json!(t0.elapsed().as_secs_f64());
    j["seed"] = json!(seed);
    j["tier"] = json!(tier);
    let text = serde_json::to_string_pretty(&j).unwrap();
    if out.is_empty() {
        println!("{text}");
    } else {
        std::fs::write(&out, text).expect("write report");
    }
}
