//! vmon_tls: the HTTPS variants of the C18 (a stalled or broken TLS handshake
//! must not wedge the server) and C09 (each handler sees its own peer address)
//! monitors.  A real dropshot server with ConfigTls, a hand-driven rustls
//! client so that the handshake can be stalled at a chosen byte.
use dropshot::{
    ConfigDropshot, ConfigTls, HandlerTaskMode, RequestContext, ServerBuilder,
    WebsocketChannelResult, WebsocketConnection,
};
use serde_json::json;
use std::io::{Read, Write};
use std::net::{SocketAddr, TcpStream};
use std::sync::Arc;
use std::time::{Duration, Instant};
use vmon::client::{parse_one, Req};
use vmon::evlog::{next_uid, EvLog};
use vmon::live::echo_api;
use vmon::report::Report;
use vmon::rng::Rng;
use vmon::srv::{discard_logger, Ctx};

#[derive(Debug)]
struct AcceptAny(Arc<rustls::crypto::CryptoProvider>);
impl rustls::client::danger::ServerCertVerifier for AcceptAny {
    fn verify_server_cert(
        &self,
        _end_entity: &rustls::pki_types::CertificateDer<'_>,
        _intermediates: &[rustls::pki_types::CertificateDer<'_>],
        _server_name: &rustls::pki_types::ServerName<'_>,
        _ocsp: &[u8],
        _now: rustls::pki_types::UnixTime,
    ) -> Result<rustls::client::danger::ServerCertVerified, rustls::Error> {
        Ok(rustls::client::danger::ServerCertVerified::assertion())
    }
    fn verify_tls12_signature(
        &self,
        message: &[u8],
        cert: &rustls::pki_types::CertificateDer<'_>,
        dss: &rustls::DigitallySignedStruct,
    ) -> Result<rustls::client::danger::HandshakeSignatureValid, rustls::Error> {
        rustls::crypto::verify_tls12_signature(message, cert, dss, &self.0.signature_verification_algorithms)
    }
    fn verify_tls13_signature(
        &self,
        message: &[u8],
        cert: &rustls::pki_types::CertificateDer<'_>,
        dss: &rustls::DigitallySignedStruct,
    ) -> Result<rustls::client::danger::HandshakeSignatureValid, rustls::Error> {
        rustls::crypto::verify_tls13_signature(message, cert, dss, &self.0.signature_verification_algorithms)
    }
    fn supported_verify_schemes(&self) -> Vec<rustls::SignatureScheme> {
        self.0.signature_verification_algorithms.supported_schemes()
    }
}

fn client_config() -> Arc<rustls::ClientConfig> {
    let provider = Arc::new(rustls::crypto::ring::default_provider());
    let mut cfg = rustls::ClientConfig::builder()
        .dangerous()
        .with_custom_certificate_verifier(Arc::new(AcceptAny(provider)))
        .with_no_client_auth();
    cfg.alpn_protocols = vec![b"http/1.1".to_vec()];
    Arc::new(cfg)
}

struct TlsClient {
    conn: rustls::ClientConnection,
    sock: TcpStream,
    local: SocketAddr,
    /// bytes received after the end of the last parsed response
    pending: Vec<u8>,
}

impl TlsClient {
    /// TCP connect only; the ClientHello is produced but not sent
    fn connect(addr: SocketAddr, cfg: &Arc<rustls::ClientConfig>) -> Result<(TlsClient, Vec<u8>), String> {
        let sock = TcpStream::connect_timeout(&addr, Duration::from_secs(10)).map_err(|e| format!("connect: {e}"))?;
        sock.set_nodelay(true).ok();
        let local = sock.local_addr().map_err(|e| e.to_string())?;
        let name = rustls::pki_types::ServerName::try_from("localhost").unwrap();
        let mut conn = rustls::ClientConnection::new(cfg.clone(), name).map_err(|e| e.to_string())?;
        let mut hello = vec![];
        while conn.wants_write() {
            conn.write_tls(&mut hello).map_err(|e| e.to_string())?;
        }
        Ok((TlsClient { conn, sock, local, pending: vec![] }, hello))
    }

    /// the same over a socket the caller has connected (and tuned) itself
    fn over(sock: TcpStream, cfg: &Arc<rustls::ClientConfig>) -> Result<(TlsClient, Vec<u8>), String> {
        let local = sock.local_addr().map_err(|e| e.to_string())?;
        let name = rustls::pki_types::ServerName::try_from("localhost").unwrap();
        let mut conn = rustls::ClientConnection::new(cfg.clone(), name).map_err(|e| e.to_string())?;
        let mut hello = vec![];
        while conn.wants_write() {
            conn.write_tls(&mut hello).map_err(|e| e.to_string())?;
        }
        Ok((TlsClient { conn, sock, local, pending: vec![] }, hello))
    }

    /// finish the handshake (after the ClientHello bytes have been sent) and do one request
    fn request(&mut self, req: &[u8], watchdog: Duration) -> Result<vmon::client::Resp, String> {
        self.sock.set_read_timeout(Some(watchdog)).ok();
        self.sock.set_write_timeout(Some(watchdog)).ok();
        let deadline = Instant::now() + watchdog;
        let mut tls = rustls::Stream::new(&mut self.conn, &mut self.sock);
        tls.write_all(req).map_err(|e| format!("tls write: {e}"))?;
        tls.flush().map_err(|e| format!("tls flush: {e}"))?;
        let mut buf = vec![];
        let mut tmp = [0u8; 8192];
        loop {
            if let Ok((r, used)) = parse_one(&buf, false) {
                self.pending = buf[used..].to_vec();
                return Ok(r);
            }
            if Instant::now() > deadline {
                return Err("watchdog".into());
            }
            match tls.read(&mut tmp) {
                Ok(0) => return Err(format!("eof after {} bytes", buf.len())),
                Ok(n) => buf.extend_from_slice(&tmp[..n]),
                Err(e) => return Err(format!("tls read: {e}")),
            }
        }
    }
}

/// raw byte echo (each byte XOR 0x5a) over the upgraded connection
#[dropshot::channel { protocol = WEBSOCKETS, path = "/ws" }]
async fn ws_echo(rqctx: RequestContext<vmon::srv::C>, upgraded: WebsocketConnection) -> WebsocketChannelResult {
    use tokio::io::{AsyncReadExt, AsyncWriteExt};
    let uid = vmon::api::uid_of(&rqctx);
    rqctx.context().log.push("CH_ENTER", uid, 0, "");
    let mut io = upgraded.into_inner();
    let mut buf = [0u8; 4096];
    loop {
        let n = io.read(&mut buf).await?;
        if n == 0 {
            break;
        }
        for b in &mut buf[..n] {
            *b ^= 0x5a;
        }
        io.write_all(&buf[..n]).await?;
        io.flush().await?;
    }
    Ok(())
}

/// deterministic bytes for (uid, n)
fn burst_payload(uid: u64, n: usize) -> Vec<u8> {
    let mut x = uid.wrapping_mul(0x9E37_79B9_7F4A_7C15) | 1;
    (0..n)
        .map(|_| {
            x = x.wrapping_mul(6364136223846793005).wrapping_add(1442695040888963407);
            (x >> 33) as u8
        })
        .collect()
}

/// the handler speaks first and last: it writes x-vmon-size bytes, flushes, and ends
#[dropshot::channel { protocol = WEBSOCKETS, path = "/ws-burst" }]
async fn ws_burst(rqctx: RequestContext<vmon::srv::C>, upgraded: WebsocketConnection) -> WebsocketChannelResult {
    use tokio::io::AsyncWriteExt;
    let uid = vmon::api::uid_of(&rqctx);
    let n: usize = rqctx.request.headers().get("x-vmon-size").and_then(|v| v.to_str().ok()).and_then(|s| s.parse().ok()).unwrap_or(0);
    rqctx.context().log.push("CH_ENTER", uid, 0, "burst");
    let mut io = upgraded.into_inner();
    if rqctx.request.headers().get("x-vmon-end").map(|v| v.as_bytes() == b"stall").unwrap_or(false) {
        // write until nothing moves any more (the peer is not reading and every buffer on
        // the way is full), flush, say how much was accepted, wait for the peer's ack
        use tokio::io::AsyncReadExt;
        let data = burst_payload(uid, 64 << 20);
        let mut total = 0usize;
        while total < data.len() {
            let end = (total + 32 * 1024).min(data.len());
            // a single write() is cancel-safe: still pending => nothing of the chunk accepted
            match tokio::time::timeout(std::time::Duration::from_millis(400), io.write(&data[total..end])).await {
                Ok(Ok(k)) => total += k,
                Ok(Err(e)) => return Err(e.into()),
                Err(_) => break,
            }
        }
        // (said BEFORE the flush: a flush cannot finish while the peer reads nothing)
        rqctx.context().log.push("CH_WROTE", uid, total as i64, "stall");
        io.flush().await?;
        rqctx.context().log.push("CH_FLUSHED", uid, total as i64, "");
        let mut ack = [0u8; 1];
        let _ = tokio::time::timeout(std::time::Duration::from_secs(60), io.read(&mut ack)).await;
        return Ok(());
    }
    let data = burst_payload(uid, n);
    for chunk in data.chunks(48 * 1024) {
        io.write_all(chunk).await?;
    }
    io.flush().await?;
    rqctx.context().log.push("CH_WROTE", uid, n as i64, "");
    // either an orderly end (close_notify) or simply letting go of the connection: what
    // was written and flushed must arrive in both cases
    let end = rqctx.request.headers().get("x-vmon-end").map(|v| v.as_bytes().to_vec()).unwrap_or_default();
    if end == b"drop" {
        return Ok(());
    }
    io.shutdown().await?;
    rqctx.context().log.push("CH_SHUTDOWN_RET", uid, 0, "");
    if end == b"shutdown-then-read" {
        // half-close: our side is finished, the peer's is not; keep reading until it ends
        use tokio::io::AsyncReadExt;
        let mut buf = [0u8; 1024];
        let mut got = 0usize;
        loop {
            match tokio::time::timeout(std::time::Duration::from_secs(60), io.read(&mut buf)).await {
                Ok(Ok(0)) | Ok(Err(_)) | Err(_) => break,
                Ok(Ok(k)) => got += k,
            }
        }
        rqctx.context().log.push("CH_PEER_BYTES_AFTER_SHUTDOWN", uid, got as i64, "");
    }
    Ok(())
}

impl TlsClient {
    fn raw_write(&mut self, data: &[u8]) -> Result<(), String> {
        let mut tls = rustls::Stream::new(&mut self.conn, &mut self.sock);
        tls.write_all(data).and_then(|_| tls.flush()).map_err(|e| format!("tls write: {e}"))
    }
    fn raw_read_exact(&mut self, n: usize, watchdog: Duration) -> Result<Vec<u8>, String> {
        self.sock.set_read_timeout(Some(watchdog)).ok();
        let mut tls = rustls::Stream::new(&mut self.conn, &mut self.sock);
        let mut out = vec![0u8; n];
        let take = self.pending.len().min(n);
        out[..take].copy_from_slice(&self.pending[..take]);
        self.pending.drain(..take);
        let mut got = take;
        while got < n {
            match tls.read(&mut out[got..]) {
                Ok(0) => return Err(format!("eof after {got} of {n} bytes")),
                Ok(k) => got += k,
                Err(e) => return Err(format!("tls read after {got} of {n} bytes: {e}")),
            }
        }
        Ok(out)
    }
}

struct TlsServer {
    rt: tokio::runtime::Runtime,
    server: Option<dropshot::HttpServer<vmon::srv::C>>,
    addr: SocketAddr,
}

fn start_tls(log: &EvLog, mode: HandlerTaskMode) -> Result<TlsServer, String> {
    start_tls_with(log, mode, 4096)
}

fn start_tls_with(log: &EvLog, mode: HandlerTaskMode, body_max: usize) -> Result<TlsServer, String> {
    let ck = rcgen::generate_simple_self_signed(vec!["localhost".to_string()]).map_err(|e| e.to_string())?;
    let tls = ConfigTls::AsBytes { certs: ck.cert.pem().into_bytes(), key: ck.key_pair.serialize_pem().into_bytes() };
    let rt = tokio::runtime::Builder::new_multi_thread().worker_threads(4).enable_all().build().map_err(|e| e.to_string())?;
    let config = ConfigDropshot {
        bind_address: "127.0.0.1:0".parse().unwrap(),
        default_request_body_max_bytes: body_max,
        default_handler_task_mode: mode,
        log_headers: vec![],
    };
    let ctx = Ctx::new(log.clone());
    let mut api = echo_api(&[]);
    api.register(ws_echo).map_err(|e| e.to_string())?;
    api.register(ws_burst).map_err(|e| e.to_string())?;
    api.register(h_big).map_err(|e| e.to_string())?;
    let b = ServerBuilder::new(api, ctx, discard_logger()).config(config).tls(Some(tls));
    let server = rt.block_on(async move { b.start() }).map_err(|e| format!("start: {e}"))?;
    let addr = server.local_addr();
    Ok(TlsServer { rt, server: Some(server), addr })
}

impl Drop for TlsServer {
    fn drop(&mut self) {
        if let Some(s) = self.server.take() {
            let _ = self.rt.block_on(async { tokio::time::timeout(Duration::from_secs(10), s.close()).await });
        }
    }
}

fn health(addr: SocketAddr, cfg: &Arc<rustls::ClientConfig>, watchdog: Duration) -> Result<SocketAddr, String> {
    let (mut c, hello) = TlsClient::connect(addr, cfg)?;
    c.sock.write_all(&hello).map_err(|e| format!("hello: {e}"))?;
    let uid = next_uid();
    let r = c.request(&Req::new("GET", "/health").uid(uid).encode(), watchdog)?;
    let j = r.json().ok_or("health body not json")?;
    if r.status != 200 || j["meta"]["uid"].as_u64() != Some(uid) {
        return Err(format!("health answered {} {}", r.status, j));
    }
    Ok(c.local)
}

/// C18 over TLS: stalled / broken handshakes must not keep other connections from being served.
fn run_c18(seed: u64, rounds: usize) -> Report {
    let mut rep = Report::new(
        "C18",
        "E2-tls-hostile",
        "an HTTPS server (ConfigTls) in both task modes; per round k connections are opened that stall the TLS handshake (nothing sent / \
         a prefix of the ClientHello / a complete ClientHello but no further flight / random bytes / a plain-HTTP request) and are HELD \
         open while fresh TLS connections must still complete a handshake and be answered 200 with the right uid; bounded-progress rule: \
         a probe that fails while the stalled connections are held AND succeeds right after they are released is a violation (blocking \
         dependence), failing both times is inconclusive; class = (stall kind, k, mode)",
    );
    let cfg = client_config();
    for mode in [HandlerTaskMode::Detached, HandlerTaskMode::CancelOnDisconnect] {
        let log = EvLog::new();
        let srv = match start_tls(&log, mode) {
            Ok(s) => s,
            Err(e) => {
                rep.inconclusive(&format!("tls server start: {e}"));
                continue;
            }
        };
        let mode_tag = if matches!(mode, HandlerTaskMode::Detached) { "det" } else { "cod" };
        if let Err(e) = health(srv.addr, &cfg, Duration::from_secs(20)) {
            rep.inconclusive(&format!("tls client cannot talk to an idle server: {e}"));
            continue;
        }
        for r in 0..rounds {
            let mut rng = Rng::derive(seed, "c18-tls", if mode_tag == "det" { 0 } else { 1 }, r as u64);
            let kind = *rng.pick(&["silent", "hello-prefix", "hello-only", "random-bytes", "plain-http", "tls-record-header-only"]);
            let k = 1 + rng.usize(4);
            let mut held: Vec<TcpStream> = vec![];
            for _ in 0..k {
                let Ok((c, hello)) = TlsClient::connect(srv.addr, &cfg) else {
                    rep.inconclusive("connect");
                    continue;
                };
                let mut sock = c.sock;
                let bytes: Vec<u8> = match kind {
                    "silent" => vec![],
                    "hello-prefix" => hello[..1 + rng.usize(hello.len() - 1)].to_vec(),
                    "hello-only" => hello.clone(),
                    "random-bytes" => {
                        let n = 1 + rng.usize(300);
                        rng.bytes(n)
                    }
                    "plain-http" => b"GET /health HTTP/1.1\r\nhost: a\r\n\r\n".to_vec(),
                    _ => vec![0x16, 0x03, 0x01, 0x40, 0x00],
                };
                let _ = sock.write_all(&bytes);
                held.push(sock);
            }
            std::thread::sleep(Duration::from_millis(30));
            rep.eval(format!("{kind}|k{k}|{mode_tag}"));
            let first = health(srv.addr, &cfg, Duration::from_secs(12));
            match first {
                Ok(_) => {
                    rep.count("probes_served_while_handshakes_stalled", 1);
                    if rep.want_sample() {
                        rep.sample(json!({"stall": kind, "held_connections": k, "mode": mode_tag, "probe": "200 while held"}));
                    }
                }
                Err(e1) => {
                    drop(held);
                    held = vec![];
                    std::thread::sleep(Duration::from_millis(100));
                    match health(srv.addr, &cfg, Duration::from_secs(12)) {
                        Ok(_) => rep.violate(
                            "C18:tls:stalled-handshake-blocks-other-connections",
                            json!({"seed": seed, "round": r, "mode": mode_tag, "stall": kind, "held_connections": k,
                                   "probe_while_held": e1, "probe_after_release": "200"}),
                        ),
                        Err(e2) => match patient_health(srv.addr, &cfg) {
                            Ok(()) => rep.inconclusive(&format!(
                                "tls probe failed with and without stalled peers, then was served: {} / {}",
                                e1.chars().take(40).collect::<String>(),
                                e2.chars().take(40).collect::<String>()
                            )),
                            Err(e3) => {
                                // nothing hostile is connected any more and the server still
                                // does not complete a handshake, though its port accepts
                                if TcpStream::connect_timeout(&srv.addr, Duration::from_secs(5)).is_ok() {
                                    rep.violate(
                                        "C18:tls:server-stopped-serving-after-broken-handshakes",
                                        json!({"seed": seed, "round": r, "mode": mode_tag, "last_stall": kind, "held_connections": k,
                                               "probe_errors": [e1, e2, e3], "tcp_connect_still_accepted": true}),
                                    );
                                } else {
                                    rep.inconclusive("tls server unreachable even at TCP level");
                                }
                                break;
                            }
                        },
                    }
                }
            }
            drop(held);
        }
        drop(srv);
    }
    rep
}

/// C09 over TLS: the peer address a handler sees is its own connection's,
/// whatever the order in which handshakes complete.
fn run_c09(seed: u64, rounds: usize) -> Report {
    let mut rep = Report::new(
        "C09",
        "E2-tls-peer-address",
        "an HTTPS server; per round n clients connect in a random order, send their ClientHello (some stall it: a prefix first, the rest \
         later) and complete their handshakes in another random order, then each sends a request; the `remote` address echoed by the \
         handler must be the local address of the very socket the request was sent on; class = (n, #stalled, accept order vs completion \
         order relation)",
    );
    let cfg = client_config();
    let log = EvLog::new();
    let srv = match start_tls(&log, HandlerTaskMode::Detached) {
        Ok(s) => s,
        Err(e) => {
            rep.inconclusive(&format!("tls server start: {e}"));
            return rep;
        }
    };
    for r in 0..rounds {
        let mut rng = Rng::derive(seed, "c09-tls", 0, r as u64);
        let n = 2 + rng.usize(5);
        let mut clients: Vec<(TlsClient, Vec<u8>, usize)> = vec![];
        for _ in 0..n {
            match TlsClient::connect(srv.addr, &cfg) {
                Ok((c, hello)) => {
                    // how much of the hello goes out now
                    let now = match rng.below(3) {
                        0 => 0,
                        1 => 1 + rng.usize(hello.len() - 1),
                        _ => hello.len(),
                    };
                    clients.push((c, hello, now));
                }
                Err(_) => rep.inconclusive("connect"),
            }
            std::thread::sleep(Duration::from_millis(2));
        }
        for (c, hello, now) in clients.iter_mut() {
            let _ = c.sock.write_all(&hello[..*now]);
        }
        std::thread::sleep(Duration::from_millis(20));
        let stalled = clients.iter().filter(|c| c.2 < c.1.len()).count();
        // completion order
        let mut order: Vec<usize> = (0..clients.len()).collect();
        rng.shuffle(&mut order);
        let inverted = order.windows(2).filter(|w| w[0] > w[1]).count();
        rep.eval(format!("n{n}|stalled{stalled}|inversions{}", inverted.min(4)));
        for &i in &order {
            let (c, hello, now) = &mut clients[i];
            if c.sock.write_all(&hello[*now..]).is_err() {
                rep.inconclusive("server closed a stalled connection");
                continue;
            }
            let uid = next_uid();
            match c.request(&Req::new("GET", "/health").uid(uid).encode(), Duration::from_secs(20)) {
                Ok(resp) => {
                    let j = resp.json().unwrap_or(json!(null));
                    rep.count("tls_requests_answered", 1);
                    let want = c.local.to_string();
                    if resp.status != 200 || j["meta"]["uid"].as_u64() != Some(uid) {
                        rep.violate("C09:tls:request-not-served-correctly", json!({"status": resp.status, "echo": j}));
                    } else if j["meta"]["remote"].as_str() != Some(want.as_str()) {
                        rep.violate(
                            "C09:request-context:peer-address-differs",
                            json!({"seed": seed, "round": r, "transport": "tls", "client_index_in_accept_order": i,
                                   "completion_order": order, "sent_from": want, "handler_saw": j["meta"]["remote"],
                                   "all_client_addresses": clients.iter().map(|c| c.0.local.to_string()).collect::<Vec<_>>()}),
                        );
                    } else if rep.want_sample() {
                        rep.sample(json!({"clients": n, "stalled": stalled, "completion_order": order, "sent_from": want,
                                          "handler_saw": j["meta"]["remote"]}));
                    }
                }
                Err(e) => rep.inconclusive(&format!("tls request failed: {}", e.chars().take(40).collect::<String>())),
            }
        }
    }
    drop(srv);
    rep
}

/// C09 / C16-style multiplexing over the path real clients take to HTTP/2: TLS with
/// ALPN (dropshot's acceptor offers h2 first).
fn run_c09_h2(seed: u64, rounds: usize) -> Report {
    let mut rep = Report::new(
        "C09",
        "E2-tls-h2-echo",
        "an HTTPS server (both task modes) reached by a tokio-rustls client offering ALPN h2 (the negotiated protocol must be h2) and          the h2 crate's client on top: per round 1-12 concurrent streams on one connection carry typed echo requests from the c09          generators (path strings/numbers, wildcard, query, pagination query, JSON / urlencoded / raw / streaming bodies cut into 1-4 DATA          frames); each echo (typed arguments, method, URI, uid, peer address = the TLS connection's own socket) must equal what was sent;          class = (kind, value classes, #streams, #frames, mode)",
    );
    let mut ccfg = (*client_config()).clone();
    ccfg.alpn_protocols = vec![b"h2".to_vec(), b"http/1.1".to_vec()];
    let connector = tokio_rustls::TlsConnector::from(Arc::new(ccfg));
    let kinds: Vec<&'static str> = vec!["paths", "pathn", "pathw", "pathsw", "query", "pagq", "form", "json", "raw", "stream"];
    for mode in [HandlerTaskMode::Detached, HandlerTaskMode::CancelOnDisconnect] {
        let log = EvLog::new();
        let srv = match start_tls_with(&log, mode, 1 << 20) {
            Ok(s) => s,
            Err(e) => {
                rep.inconclusive(&format!("tls server start: {e}"));
                continue;
            }
        };
        let addr = srv.addr;
        let mode_tag = if matches!(mode, HandlerTaskMode::Detached) { "det" } else { "cod" };
        let rt = match tokio::runtime::Builder::new_multi_thread().worker_threads(2).enable_all().build() {
            Ok(r) => r,
            Err(e) => {
                rep.inconclusive(&format!("client runtime: {e}"));
                continue;
            }
        };
        let reports: Vec<Report> = rt.block_on(async {
            let mut out = vec![];
            for r in 0..rounds {
                let mut rep = Report::new("C09", "E2-tls-h2-echo", "");
                let mut rng = Rng::derive(seed, "c09-tls-h2", if mode_tag == "det" { 0 } else { 1 }, r as u64);
                let conn = async {
                    let tcp = tokio::time::timeout(Duration::from_secs(10), tokio::net::TcpStream::connect(addr)).await.map_err(|_| "connect timeout".to_string())?.map_err(|e| e.to_string())?;
                    let local = tcp.local_addr().map_err(|e| e.to_string())?;
                    let name = rustls::pki_types::ServerName::try_from("localhost").unwrap();
                    let tls = tokio::time::timeout(Duration::from_secs(10), connector.connect(name, tcp)).await.map_err(|_| "tls handshake timeout".to_string())?.map_err(|e| format!("tls: {e}"))?;
                    let alpn = tls.get_ref().1.alpn_protocol().map(|p| p.to_vec());
                    let mut hb = h2::client::Builder::new();
                    hb.initial_window_size(8 << 20).initial_connection_window_size(64 << 20);
                    let (client, conn) = tokio::time::timeout(Duration::from_secs(10), hb.handshake::<_, bytes::Bytes>(tls)).await.map_err(|_| "h2 handshake timeout".to_string())?.map_err(|e| format!("h2: {e}"))?;
                    Ok::<_, String>((client, conn, local, alpn))
                };
                let (client, conn, local, alpn) = match conn.await {
                    Ok(x) => x,
                    Err(e) => {
                        rep.inconclusive(&format!("tls+h2 connect: {}", e.chars().take(50).collect::<String>()));
                        out.push(rep);
                        continue;
                    }
                };
                if alpn.as_deref() != Some(b"h2") {
                    rep.violate("C09:tls:alpn-h2-offered-but-not-negotiated", json!({"negotiated": alpn.map(|a| String::from_utf8_lossy(&a).to_string())}));
                }
                let task = tokio::spawn(async move {
                    let _ = conn.await;
                });
                let nstreams = 1 + rng.usize(12);
                let mut jobs = vec![];
                for k in 0..nstreams {
                    let mut crng = Rng::derive(seed, "c09-tls-h2-case", r as u64, k as u64);
                    let case = vmon::c09::gen_case(&mut crng, &kinds);
                    let uri = format!("https://localhost:{}{}", addr.port(), case.target);
                    let mut b = http::Request::builder().method(case.req.method.as_str()).uri(&uri);
                    for (n, v) in &case.req.headers {
                        b = b.header(n.as_str(), v.as_slice());
                    }
                    let Ok(req) = b.body(()) else {
                        rep.inconclusive("h2 client cannot express this request");
                        continue;
                    };
                    let nframes = 1 + crng.usize(4);
                    let client = client.clone();
                    jobs.push(tokio::spawn(async move {
                        let r = tokio::time::timeout(Duration::from_secs(30), async {
                            let mut c = client.ready().await.map_err(|e| format!("ready: {e}"))?;
                            let body = case.req.body.clone();
                            let (resp, mut send) = c.send_request(req, body.is_empty()).map_err(|e| format!("send_request: {e}"))?;
                            if !body.is_empty() {
                                let step = body.len().div_ceil(nframes).max(1);
                                let mut off = 0;
                                while off < body.len() {
                                    let end = (off + step).min(body.len());
                                    send.send_data(bytes::Bytes::copy_from_slice(&body[off..end]), end == body.len()).map_err(|e| format!("send_data: {e}"))?;
                                    off = end;
                                }
                            }
                            let resp = resp.await.map_err(|e| format!("response: {e}"))?;
                            let status = resp.status().as_u16();
                            let mut rb = resp.into_body();
                            let mut got = vec![];
                            while let Some(chunk) = rb.data().await {
                                let chunk = chunk.map_err(|e| format!("body: {e}"))?;
                                let _ = rb.flow_control().release_capacity(chunk.len());
                                got.extend_from_slice(&chunk);
                            }
                            Ok::<_, String>((status, got))
                        })
                        .await
                        .unwrap_or_else(|_| Err("watchdog".into()));
                        (case, nframes, r)
                    }));
                }
                let n_jobs = jobs.len();
                for j in jobs {
                    let Ok((case, nframes, res)) = j.await else {
                        rep.inconclusive("client task failed");
                        continue;
                    };
                    match res {
                        Err(e) => rep.inconclusive(&format!("h2-over-tls request: {}", e.chars().take(40).collect::<String>())),
                        Ok((status, body)) => {
                            rep.eval(format!("{}|tls-h2|streams{}|frames{nframes}|{mode_tag}", case.class, n_jobs.min(8)));
                            rep.count("tls_h2_responses", 1);
                            let fake = vmon::client::Resp { version: "HTTP/2".into(), status, reason: String::new(), headers: vec![], body, framing: "h2", chunks: 0 };
                            if let Some((sig, detail)) = vmon::c09::check_echo_ex(&case, &fake, Some(local), true) {
                                rep.violate(sig, json!({"seed": seed, "transport": "h2 over TLS (ALPN)", "round": r, "mode": mode_tag,
                                    "kind": case.kind, "target": case.target, "detail": detail}));
                            }
                        }
                    }
                }
                drop(client);
                task.abort();
                out.push(rep);
            }
            out
        });
        drop(rt);
        for r in reports {
            rep.merge(r);
        }
        drop(srv);
    }
    rep
}

/// C20 over TLS: a channel endpoint on an HTTPS server answers 101 with the RFC
/// 6455 digest, enters the handler and carries bytes both ways.
fn run_c20(seed: u64, rounds: usize) -> Report {
    let mut rep = Report::new(
        "C20",
        "E2-tls-channel",
        "a channel endpoint on an HTTPS server (ConfigTls), both task modes: complete handshakes (fixed RFC 6455 sample key, so the          expected accept value is the RFC's own test vector) must get 101 + the digest, a CH_ENTER event, and an XOR-echo of payloads of          1 B - 256 KiB sent after the 101 or coalesced with the handshake; handshakes without a key / with version 8 must get 4xx and          no CH_ENTER; class = (mode, case, payload size class, coalesced?)",
    );
    let cfg = client_config();
    for mode in [HandlerTaskMode::Detached, HandlerTaskMode::CancelOnDisconnect] {
        let log = EvLog::new();
        let srv = match start_tls(&log, mode) {
            Ok(s) => s,
            Err(e) => {
                rep.inconclusive(&format!("tls server start: {e}"));
                continue;
            }
        };
        let mode_tag = if matches!(mode, HandlerTaskMode::Detached) { "det" } else { "cod" };
        let mut blocked_verdict = false;
        for r in 0..rounds {
            let mut rng = Rng::derive(seed, "c20-tls", if mode_tag == "det" { 0 } else { 1 }, r as u64);
            if rng.chance(1, 3) {
                burst_round(&mut rep, &mut rng, srv.addr, &cfg, &log, seed, r, mode_tag);
                continue;
            }
            let case = *rng.pick(&["complete", "complete", "complete", "no-key", "version-8"]);
            let uid = next_uid();
            let mut req = Req::new("GET", "/ws").uid(uid).header("connection", "Upgrade").header("upgrade", "websocket");
            if case != "version-8" {
                req = req.header("sec-websocket-version", "13");
            } else {
                req = req.header("sec-websocket-version", "8");
            }
            if case != "no-key" {
                req = req.header("sec-websocket-key", "dGhlIHNhbXBsZSBub25jZQ==");
            }
            let n = *rng.pick(&[1usize, 17, 4096, 70_000, 262_144]);
            let payload = rng.bytes(n);
            let coalesce = rng.bool() && n <= 4096;
            // sometimes another peer has connected to the HTTPS port and says nothing (its
            // TLS handshake never starts) while this upgrade is attempted
            let silent_peer = if !blocked_verdict && rng.chance(1, 4) { TcpStream::connect_timeout(&srv.addr, Duration::from_secs(5)).ok() } else { None };
            if silent_peer.is_some() {
                std::thread::sleep(Duration::from_millis(5));
            }
            let (mut c, hello) = match TlsClient::connect(srv.addr, &cfg) {
                Ok(x) => x,
                Err(e) => {
                    rep.inconclusive(&format!("connect: {e}"));
                    continue;
                }
            };
            if c.sock.write_all(&hello).is_err() {
                rep.inconclusive("hello write");
                continue;
            }
            let mut wire = req.encode();
            if coalesce && case == "complete" {
                wire.extend_from_slice(&payload);
            }
            rep.eval(format!("{mode_tag}|{case}|n{}|co{}|silent-peer{}", n.min(99999), coalesce as u8, silent_peer.is_some() as u8));
            let resp = match c.request(&wire, Duration::from_secs(if silent_peer.is_some() { 8 } else { 20 })) {
                Ok(r) => r,
                Err(e) if silent_peer.is_some() => {
                    // bounded progress: release the silent peer; the SAME connection must then
                    // be answered
                    drop(silent_peer);
                    // (the request was not taken by the TLS layer: its handshake had not finished)
                    match c.request(&wire, Duration::from_secs(20)) {
                        Ok(late) if case != "complete" || late.status == 101 => {
                            blocked_verdict = true;
                            rep.violate(
                                "C20:tls:handshake-held-up-by-a-silent-peer",
                                json!({"seed": seed, "round": r, "mode": mode_tag, "case": case, "while_peer_connected": e,
                                       "after_peer_released": late.status,
                                       "what": "an upgrade request on its own TLS connection got no answer while another TCP peer sat silent on the port, and was answered once that peer had gone"}),
                            );
                        }
                        _ => rep.inconclusive("no handshake response with and without the silent peer"),
                    }
                    continue;
                }
                Err(e) => {
                    rep.inconclusive(&format!("no handshake response: {}", e.chars().take(40).collect::<String>()));
                    continue;
                }
            };
            drop(silent_peer);
            let wit = |extra: serde_json::Value| json!({"seed": seed, "round": r, "mode": mode_tag, "transport": "tls", "case": case,
                "payload_len": n, "coalesced": coalesce, "status": resp.status, "detail": extra});
            let entered = |log: &EvLog| log.snapshot().iter().any(|e| e.kind == "CH_ENTER" && e.uid == uid);
            if case != "complete" {
                if resp.status == 101 {
                    rep.violate(format!("C20:incomplete-handshake-upgraded:tls:{case}"), wit(json!({})));
                } else if !(400..500).contains(&resp.status) {
                    rep.violate(format!("C20:incomplete-handshake-not-4xx:tls:{case}"), wit(json!({})));
                }
                std::thread::sleep(Duration::from_millis(5));
                if entered(&log) {
                    rep.violate(format!("C20:incomplete-handshake-entered-handler:tls:{case}"), wit(json!({})));
                }
                continue;
            }
            if resp.status != 101 {
                rep.violate("C20:complete-handshake-refused:tls", wit(json!({"body": String::from_utf8_lossy(&resp.body)})));
                continue;
            }
            if resp.header_str("sec-websocket-accept").as_deref() != Some("s3pPLMBiTxaQ9kYGzzhZRbK+xOo=") {
                rep.violate("C20:accept-digest-mismatch:tls", wit(json!({"accept": resp.header_str("sec-websocket-accept")})));
            }
            if !coalesce {
                if let Err(e) = c.raw_write(&payload) {
                    rep.violate("C20:post-upgrade-bytes-lost:tls:write-failed", wit(json!({"error": e})));
                    continue;
                }
            }
            match c.raw_read_exact(n, Duration::from_secs(20)) {
                Ok(echo) => {
                    let ok = echo.iter().zip(payload.iter()).all(|(a, b)| *a == (*b ^ 0x5a));
                    if !ok {
                        rep.violate("C20:post-upgrade-bytes-altered:tls", wit(json!({})));
                    } else {
                        rep.count("tls_bytes_echoed", n as u64);
                        if rep.want_sample() {
                            rep.sample(wit(json!({"echo": "intact"})));
                        }
                    }
                }
                Err(e) if e.contains("eof") => {
                    rep.violate(
                        "C20:post-upgrade-bytes-lost:tls",
                        wit(json!({"error": e, "handler_entered": entered(&log)})),
                    );
                }
                Err(e) => rep.inconclusive(&format!("echo read: {}", e.chars().take(40).collect::<String>())),
            }
            if !entered(&log) {
                rep.violate("C20:upgraded-connection-not-handed-to-handler:tls", wit(json!({})));
            }
        }
        drop(srv);
    }
    rep
}

/// inode of a LISTEN socket on 127.0.0.1:<port> that is open in this very process
/// server-speaks-first burst over TLS: everything the handler wrote and flushed before
/// it ended must arrive, however late the client starts reading
#[allow(clippy::too_many_arguments)]
fn burst_round(rep: &mut Report, rng: &mut Rng, addr: SocketAddr, cfg: &Arc<rustls::ClientConfig>, log: &EvLog, seed: u64, r: usize, mode_tag: &str) {
    let uid = next_uid();
    // large enough, with the client's small receive buffer, for the handler's writes to
    // meet back-pressure (kernel buffers on loopback hold several megabytes)
    let n = *rng.pick(&[1usize, 1000, 65_536, 1 << 20, 6 << 20, 12 << 20, 20 << 20]);
    let delay_ms = *rng.pick(&[0u64, 5, 50, 200]);
    let end = *rng.pick(&["shutdown", "drop", "stall", "shutdown-then-read"]);
    let slow_reader = rng.chance(1, 4);
    // debugging aid only (never set by bin/check): VMON_BURST="<n>,<shutdown|drop>,<0|1>"
    let dbg: Option<Vec<String>> = std::env::var("VMON_BURST").ok().map(|s| s.split(',').map(|x| x.to_string()).collect());
    let (n, end, slow_reader) = match &dbg {
        Some(v) if v.len() == 3 => (v[0].parse().unwrap_or(n), match v[1].as_str() { "drop" => "drop", "stall" => "stall", "shutdown-then-read" => "shutdown-then-read", _ => "shutdown" }, v[2] == "1"),
        _ => (n, end, slow_reader),
    };
    let req = Req::new("GET", "/ws-burst")
        .uid(uid)
        .header("connection", "Upgrade")
        .header("upgrade", "websocket")
        .header("sec-websocket-version", "13")
        .header("sec-websocket-key", "dGhlIHNhbXBsZSBub25jZQ==")
        .header("x-vmon-size", &n.to_string())
        .header("x-vmon-end", end);
    let Ok((mut c, hello)) = TlsClient::connect(addr, cfg) else {
        rep.inconclusive("connect");
        return;
    };
    {
        use std::os::fd::AsRawFd;
        let sz: libc::c_int = 16 * 1024;
        unsafe {
            libc::setsockopt(c.sock.as_raw_fd(), libc::SOL_SOCKET, libc::SO_RCVBUF, &sz as *const _ as *const libc::c_void, std::mem::size_of::<libc::c_int>() as u32);
        }
    }
    if c.sock.write_all(&hello).is_err() {
        rep.inconclusive("hello write");
        return;
    }
    rep.eval(format!("{mode_tag}|burst|n{n}|delay{delay_ms}|{end}|{}", if slow_reader { "slow-reader" } else { "fast-reader" }));
    let resp = match c.request(&req.encode(), Duration::from_secs(20)) {
        Ok(r) => r,
        Err(e) => {
            rep.inconclusive(&format!("no handshake response: {}", e.chars().take(40).collect::<String>()));
            return;
        }
    };
    let wit = |extra: serde_json::Value| json!({"seed": seed, "round": r, "mode": mode_tag, "transport": "tls", "case": "server-burst",
        "burst_len": n, "client_read_delay_ms": delay_ms, "handler_ends_with": end, "status": resp.status, "detail": extra});
    if resp.status != 101 {
        rep.violate("C20:complete-handshake-refused:tls", wit(json!({"body": String::from_utf8_lossy(&resp.body)})));
        return;
    }
    if end == "stall" {
        // the client reads nothing until the handler has written all it could, flushed,
        // and said how much that was; then exactly that much must arrive
        let Some(ev) = log.wait_for(|e| e.kind == "CH_WROTE" && e.uid == uid, Duration::from_secs(60)) else {
            rep.inconclusive("stall handler did not report within 60 s");
            let _ = c.raw_write(b"k");
            return;
        };
        let total = ev.n as usize;
        c.sock.set_read_timeout(Some(Duration::from_secs(20))).ok();
        let mut got = c.pending.len();
        let want = burst_payload(uid, 64 << 20);
        let mut ok_content = c.pending[..] == want[..got.min(want.len())];
        let mut tmp = vec![0u8; 1 << 16];
        let mut ended = "complete";
        {
            let mut tls = rustls::Stream::new(&mut c.conn, &mut c.sock);
            while got < total {
                match tls.read(&mut tmp) {
                    Ok(0) => {
                        ended = "eof";
                        break;
                    }
                    Ok(k) => {
                        ok_content &= got + k <= want.len() && tmp[..k] == want[got..got + k];
                        got += k;
                    }
                    Err(e) if e.kind() == std::io::ErrorKind::WouldBlock || e.kind() == std::io::ErrorKind::TimedOut => {
                        ended = "no more bytes for 20 s";
                        break;
                    }
                    Err(_) => {
                        ended = "read error";
                        break;
                    }
                }
            }
        }
        let flushed = log.snapshot().iter().any(|e| e.kind == "CH_FLUSHED" && e.uid == uid);
        let _ = c.raw_write(b"k");
        if got < total && ok_content && !flushed {
            rep.inconclusive("stalled writer: tail missing but the handler's flush() had not returned either");
            return;
        }
        if got >= total && ok_content {
            rep.count("tls_burst_bytes_received", total as u64);
            rep.count("tls_stalled_writers_drained_completely", 1);
        } else if !ok_content {
            rep.violate("C20:post-upgrade-bytes-altered:tls:server-burst", wit(json!({"received": got, "accepted_and_flushed_by_handler": total})));
        } else {
            rep.violate(
                "C20:post-upgrade-bytes-lost:tls:server-burst",
                wit(json!({"received": got, "missing": total - got, "accepted_and_flushed_by_handler": total, "read_ended_by": ended,
                           "what": "the handler's write()s accepted this many bytes and its flush() returned Ok; the reading client never got the tail"})),
            );
        }
        return;
    }
    // the client does not read for a while: the handler's writes meet back-pressure
    std::thread::sleep(Duration::from_millis(delay_ms));
    c.sock.set_read_timeout(Some(Duration::from_secs(20))).ok();
    let mut got = c.pending.clone();
    let mut tmp = [0u8; 65536];
    let mut ended = "eof";
    {
        let mut tls = rustls::Stream::new(&mut c.conn, &mut c.sock);
        loop {
            match tls.read(&mut tmp) {
                Ok(0) => break,
                Ok(k) => {
                    got.extend_from_slice(&tmp[..k]);
                    if slow_reader {
                        // stay behind the writer: its last writes must meet back-pressure too
                        std::thread::sleep(Duration::from_micros(1500));
                    }
                }
                Err(e) if e.kind() == std::io::ErrorKind::WouldBlock || e.kind() == std::io::ErrorKind::TimedOut => {
                    ended = "timeout";
                    break;
                }
                // a close without close_notify is still the end of the stream
                Err(_) => break,
            }
            if got.len() >= n && end != "shutdown-then-read" {
                // everything is here; what follows can only be the close
                break;
            }
        }
    }
    if dbg.is_some() {
        eprintln!("burst n={n} end={end} slow={slow_reader} delay={delay_ms} got={} ended={ended}", got.len());
    }
    if end == "shutdown-then-read" && got.len() >= n {
        // the handler shut its side down after the burst: the client must see the end of
        // the stream (not merely the bytes) while the handler goes on reading
        let shut = log.snapshot().iter().any(|e| e.kind == "CH_SHUTDOWN_RET" && e.uid == uid);
        if ended == "eof" {
            rep.count("tls_half_close_seen_by_client", 1);
            let _ = c.raw_write(b"after-your-shutdown");
        } else if shut {
            rep.violate(
                "C20:post-upgrade-end-of-stream-not-delivered:tls",
                wit(json!({"received": got.len(), "read_ended_by": ended, "handler_shutdown_returned": true,
                           "what": "the handler's shutdown() returned Ok, all its bytes arrived, but the reading client saw no end of stream within 20 s"})),
            );
        } else {
            rep.inconclusive("half-close: no end of stream yet, and the handler's shutdown() had not returned");
        }
        let _ = c.sock.shutdown(std::net::Shutdown::Both);
    }
    let want = burst_payload(uid, n);
    let wrote = log.snapshot().iter().any(|e| e.kind == "CH_WROTE" && e.uid == uid);
    if got.len() >= n && got[..n] == want[..] {
        rep.count("tls_burst_bytes_received", n as u64);
    } else if ended == "timeout" && !wrote {
        rep.inconclusive("burst handler had not finished writing at the read watchdog");
    } else if got.len() < n {
        rep.violate(
            "C20:post-upgrade-bytes-lost:tls:server-burst",
            wit(json!({"received": got.len(), "missing": n - got.len(), "handler_finished_writing_and_flushed": wrote, "read_ended_by": ended})),
        );
    } else {
        rep.violate("C20:post-upgrade-bytes-altered:tls:server-burst", wit(json!({"received": got.len()})));
    }
}

// ------------------------------------------------------------------ C15 over TLS

#[derive(serde::Deserialize, serde::Serialize, schemars::JsonSchema, Clone, Debug)]
struct BigScan {
    tag: Option<String>,
}
#[derive(serde::Deserialize, serde::Serialize, schemars::JsonSchema, Clone, Debug)]
struct BigSel {
    last: u32,
}
#[derive(serde::Serialize, schemars::JsonSchema)]
struct BigItem {
    id: u32,
    blob: String,
}
const BIG_N: u32 = 210;

fn big_blob(id: u32) -> String {
    let mut x = u64::from(id).wrapping_mul(0x9E37_79B9_7F4A_7C15) | 1;
    (0..2000)
        .map(|_| {
            x = x.wrapping_mul(6364136223846793005).wrapping_add(1442695040888963407);
            (b'a' + ((x >> 40) % 26) as u8) as char
        })
        .collect()
}

/// a collection of 210 items of 2 kB each: the default page (100 items) is 200 kB
#[dropshot::endpoint { method = GET, path = "/big" }]
async fn h_big(
    rqctx: RequestContext<vmon::srv::C>,
    q: dropshot::Query<dropshot::PaginationParams<BigScan, BigSel>>,
) -> Result<dropshot::HttpResponseOk<dropshot::ResultsPage<BigItem>>, dropshot::HttpError> {
    let p = q.into_inner();
    let limit = rqctx.page_limit(&p)?.get();
    let start = match &p.page {
        dropshot::WhichPage::First(_) => 0,
        dropshot::WhichPage::Next(s) => s.last + 1,
    };
    let end = BIG_N.min(start.saturating_add(limit));
    let items: Vec<BigItem> = (start..end).map(|id| BigItem { id, blob: big_blob(id) }).collect();
    Ok(dropshot::HttpResponseOk(dropshot::ResultsPage::new(items, &BigScan { tag: None }, |it: &BigItem, _: &BigScan| BigSel { last: it.id })?))
}

fn slow_reader_socket(addr: SocketAddr, rcvbuf: libc::c_int) -> Option<TcpStream> {
    use std::os::fd::FromRawFd;
    let SocketAddr::V4(a) = addr else { return None };
    unsafe {
        let fd = libc::socket(libc::AF_INET, libc::SOCK_STREAM | libc::SOCK_CLOEXEC, 0);
        if fd < 0 {
            return None;
        }
        let mss: libc::c_int = 1460;
        libc::setsockopt(fd, libc::SOL_SOCKET, libc::SO_RCVBUF, &rcvbuf as *const _ as *const libc::c_void, 4);
        libc::setsockopt(fd, libc::IPPROTO_TCP, libc::TCP_MAXSEG, &mss as *const _ as *const libc::c_void, 4);
        let sa = libc::sockaddr_in {
            sin_family: libc::AF_INET as libc::sa_family_t,
            sin_port: a.port().to_be(),
            sin_addr: libc::in_addr { s_addr: u32::from_ne_bytes(a.ip().octets()) },
            sin_zero: [0; 8],
        };
        if libc::connect(fd, &sa as *const _ as *const libc::sockaddr, std::mem::size_of::<libc::sockaddr_in>() as u32) != 0 {
            libc::close(fd);
            return None;
        }
        let s = TcpStream::from_raw_fd(fd);
        s.set_nodelay(true).ok();
        Some(s)
    }
}

/// C15 over HTTPS with a client like a remote one: small receive buffer, small
/// segments, one keep-alive connection per scan.
fn run_c15(seed: u64, rounds: usize) -> Report {
    let mut rep = Report::new(
        "C15",
        "E2-tls-scan",
        "an HTTPS server (both task modes) with a paginated collection of 210 items of 2 kB; per scan one keep-alive TLS connection          whose socket has a 4-16 KiB receive buffer and a 1460-byte MSS (a reader no faster than the writer), limit in {7, 60, default          100, 250}; every page must arrive completely (20 s watchdog per page; on expiry a fresh TLS health probe decides: healthy server          + undelivered page = violation), the concatenation of the pages is items 0..210 in order with intact content, page <= limit,          and the scan ends with a page without token; class = (limit, receive buffer, mode)",
    );
    let cfg = client_config();
    for mode in [HandlerTaskMode::Detached, HandlerTaskMode::CancelOnDisconnect] {
        let log = EvLog::new();
        let srv = match start_tls_with(&log, mode, 4096) {
            Ok(s) => s,
            Err(e) => {
                rep.inconclusive(&format!("tls server start: {e}"));
                continue;
            }
        };
        let mode_tag = if matches!(mode, HandlerTaskMode::Detached) { "det" } else { "cod" };
        let mut verdict = false;
        for r in 0..rounds {
            if verdict {
                break;
            }
            let mut rng = Rng::derive(seed, "c15-tls", if mode_tag == "det" { 0 } else { 1 }, r as u64);
            // (the first scans of a run are the ones with whole 200 kB pages)
            let limit: Option<u32> = if r < 2 { [None, Some(250)][r] } else { *rng.pick(&[Some(7), Some(60), None, Some(250)]) };
            let rcvbuf: libc::c_int = if r < 2 { 4096 } else { *rng.pick(&[4096, 16384]) };
            let eff = limit.unwrap_or(100);
            // receive buffer and segment size are set BEFORE connect(), so that they shape
            // the window advertised from the first segment on
            let Some(sock) = slow_reader_socket(srv.addr, rcvbuf) else {
                rep.inconclusive("connect");
                continue;
            };
            let Ok((mut c, hello)) = TlsClient::over(sock, &cfg) else {
                rep.inconclusive("tls client");
                continue;
            };
            if c.sock.write_all(&hello).is_err() {
                rep.inconclusive("hello write");
                continue;
            }
            rep.eval(format!("scan|limit{}|rcvbuf{rcvbuf}|{mode_tag}", limit.map(|l| l.to_string()).unwrap_or_else(|| "default".into())));
            let wit = |extra: serde_json::Value| json!({"seed": seed, "round": r, "mode": mode_tag, "transport": "tls", "limit": limit, "client_rcvbuf": rcvbuf, "detail": extra});
            let mut next: Option<String> = None;
            let mut got: Vec<u32> = vec![];
            let mut pages = 0;
            loop {
                let mut target = "/big".to_string();
                let mut qs = vec![];
                if let Some(t) = &next {
                    qs.push(format!("page_token={}", t.replace('=', "%3D")));
                }
                if let Some(l) = limit {
                    qs.push(format!("limit={l}"));
                }
                if !qs.is_empty() {
                    target = format!("/big?{}", qs.join("&"));
                }
                let resp = match c.request(&Req::new("GET", &target).uid(next_uid()).encode(), Duration::from_secs(20)) {
                    Ok(r) => r,
                    Err(e) => {
                        // bounded progress: is the server alive for somebody else right now?
                        match health(srv.addr, &cfg, Duration::from_secs(20)) {
                            Ok(_) => {
                                verdict = true;
                                rep.violate(
                                    "C15:tls:page-not-delivered-to-a-slow-reader",
                                    wit(json!({"page": pages, "items_so_far": got.len(), "error": e,
                                               "control": "a fresh TLS connection was served meanwhile"})),
                                );
                            }
                            Err(_) => rep.inconclusive("page not delivered and the control probe failed too"),
                        }
                        break;
                    }
                };
                pages += 1;
                let Some(j) = resp.json() else {
                    rep.violate("C15:tls:page-is-not-json", wit(json!({"status": resp.status, "page": pages})));
                    break;
                };
                if resp.status != 200 {
                    rep.violate(format!("C15:tls:page-request-refused:status-{}", resp.status), wit(json!({"page": pages, "body": j})));
                    break;
                }
                let items = j["items"].as_array().cloned().unwrap_or_default();
                if items.len() as u32 > eff {
                    rep.violate("C15:tls:page-longer-than-effective-limit", wit(json!({"page": pages, "items": items.len()})));
                }
                for it in &items {
                    let id = it["id"].as_u64().unwrap_or(u64::MAX) as u32;
                    if it["blob"].as_str() != Some(big_blob(id).as_str()) {
                        rep.violate("C15:tls:item-content-altered", wit(json!({"page": pages, "id": id})));
                    }
                    got.push(id);
                }
                next = j["next_page"].as_str().map(|s| s.to_string());
                if next.is_none() || pages > 200 {
                    break;
                }
            }
            if verdict {
                break;
            }
            let want: Vec<u32> = (0..BIG_N).collect();
            if next.is_none() && pages > 0 && got != want && !got.is_empty() {
                rep.violate("C15:tls:scan-is-not-the-collection", wit(json!({"pages": pages, "items": got.len(), "first_ids": got.iter().take(5).collect::<Vec<_>>()})));
            } else if got == want {
                rep.count("tls_scans_complete", 1);
                rep.count("tls_pages", pages as u64);
            }
        }
        drop(srv);
    }
    rep
}

fn own_listen_inode(port: u16) -> Option<u64> {
    let tcp = std::fs::read_to_string("/proc/self/net/tcp").ok()?;
    let want = format!(":{:04X}", port);
    let mut inodes = vec![];
    for line in tcp.lines().skip(1) {
        let f: Vec<&str> = line.split_whitespace().collect();
        if f.len() > 9 && f[1].ends_with(&want) && f[3] == "0A" {
            if let Ok(i) = f[9].parse::<u64>() {
                inodes.push(i);
            }
        }
    }
    for e in std::fs::read_dir("/proc/self/fd").ok()?.flatten() {
        if let Ok(t) = std::fs::read_link(e.path()) {
            let t = t.to_string_lossy().to_string();
            for i in &inodes {
                if t == format!("socket:[{i}]") {
                    return Some(*i);
                }
            }
        }
    }
    None
}

/// C17 over TLS: idle keep-alive TLS connections must not hold up shutdown;
/// a started handler whose client stays still gets its response.
fn run_c17(seed: u64, rounds: usize) -> Report {
    let mut rep = Report::new(
        "C17",
        "E2-tls-shutdown",
        "HTTPS servers in both task modes with k idle keep-alive TLS connections (one request served, then idle) and j connections          that only completed the handshake, all HELD open while close() is called; bounded-progress rule: close() must return while the          idle clients are still connected; if it has not after a 15 s watchdog the clients are released, and a return right after          that release is a violation (shutdown was waiting for idle clients), no return at all is inconclusive; afterwards the port          must refuse connections; class = (mode, k, j)",
    );
    let cfg = client_config();
    for r in 0..rounds {
        let mut rng = Rng::derive(seed, "c17-tls", 0, r as u64);
        let mode = if rng.bool() { HandlerTaskMode::Detached } else { HandlerTaskMode::CancelOnDisconnect };
        let mode_tag = if matches!(mode, HandlerTaskMode::Detached) { "det" } else { "cod" };
        let log = EvLog::new();
        let mut srv = match start_tls(&log, mode) {
            Ok(s) => s,
            Err(e) => {
                rep.inconclusive(&format!("tls server start: {e}"));
                continue;
            }
        };
        let (k, j) = (rng.usize(4), rng.usize(3));
        let mut held: Vec<TlsClient> = vec![];
        let mut ok = true;
        for i in 0..(k + j) {
            let Ok((mut c, hello)) = TlsClient::connect(srv.addr, &cfg) else {
                ok = false;
                break;
            };
            if c.sock.write_all(&hello).is_err() {
                ok = false;
                break;
            }
            let uid = next_uid();
            if i < k {
                match c.request(&Req::new("GET", "/health").uid(uid).encode(), Duration::from_secs(20)) {
                    Ok(resp) if resp.status == 200 => {}
                    _ => {
                        ok = false;
                        break;
                    }
                }
            } else {
                // handshake only: drive it by writing nothing at application level
                let mut tls = rustls::Stream::new(&mut c.conn, &mut c.sock);
                let _ = tls.flush();
                while c.conn.is_handshaking() {
                    if c.conn.complete_io(&mut c.sock).is_err() {
                        break;
                    }
                }
            }
            held.push(c);
        }
        if !ok {
            rep.inconclusive("could not set up idle tls connections");
            continue;
        }
        rep.eval(format!("{mode_tag}|k{k}|j{j}"));
        let server = srv.server.take().unwrap();
        let handle = srv.rt.handle().clone();
        let (tx, rx) = std::sync::mpsc::channel();
        std::thread::spawn(move || {
            let r = handle.block_on(server.close());
            let _ = tx.send(r);
        });
        let wit = |extra: serde_json::Value| json!({"seed": seed, "round": r, "mode": mode_tag, "transport": "tls",
            "idle_keep_alive_connections": k, "handshake_only_connections": j, "detail": extra});
        let mut closed_ok = false;
        match rx.recv_timeout(Duration::from_secs(15)) {
            Ok(res) => {
                closed_ok = true;
                rep.count("close_returned_with_idle_tls_clients_connected", 1);
                if res.is_err() {
                    rep.violate("C17:tls:close-returned-error", wit(json!({"result": format!("{res:?}")})));
                }
                if rep.want_sample() {
                    rep.sample(wit(json!({"close": "returned while clients held"})));
                }
            }
            Err(_) => {
                held.clear();
                match rx.recv_timeout(Duration::from_secs(15)) {
                    Ok(_) => rep.violate(
                        "C17:tls:shutdown-held-up-by-idle-connections",
                        wit(json!({"close": "returned only after the idle clients disconnected"})),
                    ),
                    Err(_) => rep.inconclusive("tls close() did not return within the watchdogs"),
                }
            }
        }
        // the port must refuse now.  A listening socket on the old port that still
        // belongs to THIS process (no other harness server runs in it at this moment)
        // is the old server's.
        if closed_ok {
            std::thread::sleep(Duration::from_millis(20));
            if let Some(inode) = own_listen_inode(srv.addr.port()) {
                rep.violate(
                    "C17:tls:port-still-listening-after-close",
                    wit(json!({"port": srv.addr.port(), "listen_socket_inode": inode,
                               "connect_after_close": TcpStream::connect_timeout(&srv.addr, Duration::from_secs(2)).is_ok()})),
                );
            } else {
                rep.count("port_released_after_close", 1);
            }
        }
        drop(held);
    }
    rep
}

fn rst_close(sock: TcpStream) {
    use std::os::fd::AsRawFd;
    let l = libc::linger { l_onoff: 1, l_linger: 0 };
    unsafe {
        libc::setsockopt(sock.as_raw_fd(), libc::SOL_SOCKET, libc::SO_LINGER, &l as *const _ as *const libc::c_void, std::mem::size_of::<libc::linger>() as u32);
    }
    drop(sock);
}

/// a patient third opinion once a probe has failed twice: everything hostile is closed,
/// wait, then probe up to three times with a long watchdog
fn patient_health(addr: SocketAddr, cfg: &Arc<rustls::ClientConfig>) -> Result<(), String> {
    let mut last = String::new();
    for _ in 0..3 {
        std::thread::sleep(Duration::from_secs(1));
        match health(addr, cfg, Duration::from_secs(30)) {
            Ok(_) => return Ok(()),
            Err(e) => last = e,
        }
    }
    Err(last)
}

/// C16 over TLS: clients that go away at every stage of a TLS connection's life.
fn run_c16(seed: u64, rounds: usize) -> Report {
    let mut rep = Report::new(
        "C16",
        "E2-tls-disconnect",
        "an HTTPS server in both task modes; per round one client S stays connected with a slow request in flight while 1-4 other clients          quit (FIN or RST) at a chosen stage: after TCP connect, after a prefix of the ClientHello, after the whole ClientHello, after the          completed handshake, after part of a request, after a whole request (handler running or about to).  Oracle: S receives its complete          200 answer with its own uid; a fresh TLS client is served afterwards (twice failing => patient third probe; failing that too while          the port still accepts TCP connections is a violation: the server stopped serving others); in detached mode every handler that was          entered for a quitter's request completed exactly once (event log, after close); class = (stage, how, #quitters, mode)",
    );
    let cfg = client_config();
    for mode in [HandlerTaskMode::Detached, HandlerTaskMode::CancelOnDisconnect] {
        let log = EvLog::new();
        let mut srv = match start_tls(&log, mode) {
            Ok(s) => s,
            Err(e) => {
                rep.inconclusive(&format!("tls server start: {e}"));
                continue;
            }
        };
        let mode_tag = if matches!(mode, HandlerTaskMode::Detached) { "det" } else { "cod" };
        if let Err(e) = health(srv.addr, &cfg, Duration::from_secs(20)) {
            rep.inconclusive(&format!("tls client cannot talk to an idle server: {e}"));
            continue;
        }
        let mut quitter_uids: Vec<u64> = vec![];
        let mut dead = false;
        let mut cancel_verdicts = 0;
        let mut linger_verdict = false;
        for r in 0..rounds {
            let mut rng = Rng::derive(seed, "c16-tls", if mode_tag == "det" { 0 } else { 1 }, r as u64);
            let stage = *rng.pick(&["tcp-only", "hello-prefix", "hello-only", "handshake-done", "partial-request", "request-sent", "handler-running"]);
            if stage == "handler-running" {
                // the task-mode promise itself, over TLS: the client leaves while its handler
                // is observably running (H_ENTER logged, a long sleep ahead of it)
                if cancel_verdicts >= 3 {
                    continue;
                }
                let how = *rng.pick(&["fin", "rst", "close-notify"]);
                let quid = next_uid();
                let sleep_us: u64 = if mode_tag == "det" { 300_000 } else { 8_000_000 };
                let setup = (|| -> Result<TlsClient, String> {
                    let (mut c, hello) = TlsClient::connect(srv.addr, &cfg)?;
                    c.sock.write_all(&hello).map_err(|e| e.to_string())?;
                    c.sock.set_read_timeout(Some(Duration::from_secs(10))).ok();
                    c.raw_write(&Req::new("GET", "/health").uid(quid).header("x-vmon-sleep-us", &sleep_us.to_string()).encode())?;
                    Ok(c)
                })();
                let Ok(mut c) = setup else {
                    rep.inconclusive("victim setup");
                    continue;
                };
                if log.wait_for(|e| e.kind == "H_ENTER" && e.uid == quid, Duration::from_secs(20)).is_none() {
                    rep.inconclusive("victim's handler not entered within 20 s");
                    continue;
                }
                log.push("C_DISC_CALL", quid, 0, how);
                match how {
                    "rst" => rst_close(c.sock),
                    "close-notify" => {
                        c.conn.send_close_notify();
                        let _ = c.conn.write_tls(&mut c.sock);
                        drop(c);
                    }
                    _ => {
                        let _ = c.sock.shutdown(std::net::Shutdown::Both);
                        drop(c);
                    }
                }
                log.push("C_DISC_RET", quid, 0, "");
                rep.eval(format!("handler-running|{how}|{mode_tag}"));
                let ended = log.wait_for(|e| e.uid == quid && (e.kind == "H_END" || e.kind == "H_DONE"), Duration::from_secs(20));
                let done = log.snapshot().iter().any(|e| e.kind == "H_DONE" && e.uid == quid);
                match (mode_tag, ended.is_some(), done) {
                    (_, false, _) => rep.inconclusive("victim's handler neither ended nor completed within 20 s"),
                    ("det", true, true) => rep.count("detached_handlers_completed_after_tls_client_left", 1),
                    ("det", true, false) => rep.violate(
                        format!("C16:tls:detached:handler-cancelled@{how}"),
                        json!({"seed": seed, "round": r, "mode": mode_tag, "uid": quid, "how": how}),
                    ),
                    (_, true, false) => rep.count("cancel_mode_handlers_cancelled_after_tls_client_left", 1),
                    (_, true, true) => {
                        cancel_verdicts += 1;
                        rep.violate(
                            format!("C16:tls:cancel:victim-ran-to-completion@{how}"),
                            json!({"seed": seed, "round": r, "mode": mode_tag, "uid": quid, "how": how,
                                   "what": "the client sent its complete request over TLS and disconnected while the handler was 8 s away from finishing; the handler was not cancelled and completed"}),
                        );
                    }
                }
                continue;
            }
            let how = *rng.pick(&["fin", "rst"]);
            let k = 1 + rng.usize(4);
            let wit = |extra: serde_json::Value| json!({"seed": seed, "round": r, "mode": mode_tag, "transport": "tls", "stage": stage, "how": how, "quitters": k, "detail": extra});
            // the client that stays: handshake + a slow request, answer read later
            let suid = next_uid();
            let stayer = (|| -> Result<TlsClient, String> {
                let (mut c, hello) = TlsClient::connect(srv.addr, &cfg)?;
                c.sock.write_all(&hello).map_err(|e| e.to_string())?;
                c.sock.set_read_timeout(Some(Duration::from_secs(20))).ok();
                c.raw_write(&Req::new("GET", "/health").uid(suid).header("x-vmon-sleep-us", &(20_000 + rng.below(60_000)).to_string()).encode())?;
                Ok(c)
            })();
            let mut stayer = match stayer {
                Ok(c) => c,
                Err(e) => {
                    rep.inconclusive(&format!("stayer setup: {}", e.chars().take(40).collect::<String>()));
                    continue;
                }
            };
            let linger = !linger_verdict && matches!(stage, "tcp-only" | "hello-prefix" | "hello-only") && rng.chance(1, 3);
            let mut lingering: Vec<TcpStream> = vec![];
            for _ in 0..k {
                let Ok((mut c, hello)) = TlsClient::connect(srv.addr, &cfg) else {
                    rep.inconclusive("connect");
                    continue;
                };
                c.sock.set_read_timeout(Some(Duration::from_secs(10))).ok();
                c.sock.set_write_timeout(Some(Duration::from_secs(10))).ok();
                let quid = next_uid();
                let req = Req::new("GET", "/health").uid(quid).header("x-vmon-sleep-us", &rng.below(30_000).to_string()).encode();
                let _ = match stage {
                    "tcp-only" => Ok(()),
                    "hello-prefix" => c.sock.write_all(&hello[..1 + rng.usize(hello.len() - 1)]).map_err(|e| e.to_string()),
                    "hello-only" => c.sock.write_all(&hello).map_err(|e| e.to_string()),
                    _ => {
                        let mut r = c.sock.write_all(&hello).map_err(|e| e.to_string());
                        while r.is_ok() && c.conn.is_handshaking() {
                            r = c.conn.complete_io(&mut c.sock).map(|_| ()).map_err(|e| e.to_string());
                        }
                        match stage {
                            "partial-request" => r.and_then(|_| c.raw_write(&req[..1 + rng.usize(req.len() - 1)])),
                            "request-sent" => {
                                quitter_uids.push(quid);
                                r.and_then(|_| c.raw_write(&req))
                            }
                            _ => r,
                        }
                    }
                };
                std::thread::sleep(Duration::from_micros(rng.below(4000)));
                if linger {
                    // this one takes its time leaving: it is still connected (and silent)
                    // while a newcomer must be served
                    lingering.push(c.sock);
                    continue;
                }
                if how == "rst" {
                    rst_close(c.sock);
                } else {
                    let _ = c.sock.shutdown(std::net::Shutdown::Both);
                    drop(c);
                }
            }
            if !lingering.is_empty() {
                match health(srv.addr, &cfg, Duration::from_secs(8)) {
                    Ok(_) => rep.count("newcomers_served_while_a_leaving_peer_lingered", 1),
                    Err(e1) => {
                        let n = lingering.len();
                        for sck in lingering.drain(..) {
                            if how == "rst" {
                                rst_close(sck);
                            } else {
                                let _ = sck.shutdown(std::net::Shutdown::Both);
                            }
                        }
                        match health(srv.addr, &cfg, Duration::from_secs(20)) {
                            Ok(_) => {
                                linger_verdict = true;
                                rep.violate(
                                    format!("C16:tls:newcomer-not-served-until-leaving-peer-had-gone:{stage}"),
                                    wit(json!({"lingering_peers": n, "while_they_lingered": e1, "after_they_left": "200"})),
                                );
                            }
                            Err(_) => rep.inconclusive("newcomer not served with and without lingering peers"),
                        }
                    }
                }
                for sck in lingering.drain(..) {
                    if how == "rst" {
                        rst_close(sck);
                    } else {
                        let _ = sck.shutdown(std::net::Shutdown::Both);
                    }
                }
            }
            rep.eval(format!("{stage}|{how}|k{k}|{mode_tag}{}", if linger { "|linger" } else { "" }));
            // the stayer's answer
            let mut buf = stayer.pending.clone();
            let mut tmp = [0u8; 8192];
            let sres: Result<vmon::client::Resp, String> = loop {
                if let Ok((r, _)) = parse_one(&buf, false) {
                    break Ok(r);
                }
                let mut tls = rustls::Stream::new(&mut stayer.conn, &mut stayer.sock);
                match tls.read(&mut tmp) {
                    Ok(0) => break Err(format!("eof after {} bytes", buf.len())),
                    Ok(n) => buf.extend_from_slice(&tmp[..n]),
                    Err(e) => break Err(format!("tls read: {e}")),
                }
            };
            let s_ok = matches!(&sres, Ok(r) if r.status == 200 && r.json().map(|j| j["meta"]["uid"].as_u64() == Some(suid)).unwrap_or(false));
            if s_ok {
                rep.count("connected_clients_answered_while_peers_quit", 1);
            }
            // a fresh client afterwards
            let fresh = health(srv.addr, &cfg, Duration::from_secs(12)).or_else(|_| health(srv.addr, &cfg, Duration::from_secs(12)));
            match (&fresh, s_ok) {
                (Ok(_), true) => {
                    if rep.want_sample() {
                        rep.sample(wit(json!({"stayer": "200", "fresh_client": "200"})));
                    }
                }
                (Ok(_), false) => rep.violate(
                    format!("C16:tls:connected-client-not-answered-while-peers-quit:{stage}"),
                    wit(json!({"stayer_result": sres.as_ref().map(|r| r.status).map_err(|e| e.clone()), "fresh_client": "200"})),
                ),
                (Err(e1), _) => match patient_health(srv.addr, &cfg) {
                    Ok(()) => rep.inconclusive("fresh tls client failed twice, then was served (load)"),
                    Err(e2) => {
                        let tcp = TcpStream::connect_timeout(&srv.addr, Duration::from_secs(5)).is_ok();
                        if tcp {
                            rep.violate(
                                format!("C16:tls:server-stopped-serving-after-client-quit:{stage}"),
                                wit(json!({"probe_errors": [e1, &e2], "tcp_connect_still_accepted": true, "stayer_answered": s_ok})),
                            );
                        } else {
                            rep.inconclusive("tls server unreachable even at TCP level");
                        }
                        dead = true;
                    }
                },
            }
            if dead {
                break;
            }
        }
        // close, then the detached-mode history rule
        if let Some(server) = srv.server.take() {
            let _ = srv.rt.block_on(async { tokio::time::timeout(Duration::from_secs(30), server.close()).await });
        }
        if mode_tag == "det" && !dead {
            let evs = log.snapshot();
            for uid in &quitter_uids {
                let enter = evs.iter().filter(|e| e.kind == "H_ENTER" && e.uid == *uid).count();
                let done = evs.iter().filter(|e| e.kind == "H_DONE" && e.uid == *uid).count();
                if enter > 0 {
                    rep.count("detached_handlers_of_quitters_entered", 1);
                    if done != 1 || enter != 1 {
                        rep.violate(
                            "C16:tls:detached-handler-not-completed-exactly-once",
                            json!({"seed": seed, "mode": mode_tag, "uid": uid, "entered": enter, "completed": done}),
                        );
                    }
                }
            }
        }
    }
    rep
}

fn main() {
    vmon::panics::install();
    let mut a = std::env::args().skip(1);
    let engine = a.next().unwrap_or_default();
    let (mut seed, mut tier, mut out) = (1u64, "quick".to_string(), String::new());
    while let Some(k) = a.next() {
        match k.as_str() {
            "--seed" => seed = a.next().and_then(|s| s.parse().ok()).unwrap_or(1),
            "--tier" => tier = a.next().unwrap_or_default(),
            "--out" => out = a.next().unwrap_or_default(),
            "--threads" => {
                a.next();
            }
            _ => {}
        }
    }
    let t0 = Instant::now();
    let quick = tier != "thorough";
    let mut rep = match engine.as_str() {
        "c18-tls" => run_c18(seed, if quick { 40 } else { 1500 }),
        "c09-tls" => run_c09(seed, if quick { 60 } else { 3000 }),
        "c09-tls-h2" => run_c09_h2(seed, if quick { 60 } else { 3000 }),
        "c20-tls" => run_c20(seed, if quick { 60 } else { 3000 }),
        "c17-tls" => run_c17(seed, if quick { 30 } else { 800 }),
        "c15-tls" => run_c15(seed, if quick { 12 } else { 600 }),
        "c16-tls" => run_c16(seed, if quick { 60 } else { 2500 }),
        _ => {
            eprintln!("usage: vmon_tls c18-tls|c09-tls|c20-tls|c17-tls --seed N --tier T --out F");
            std::process::exit(2)
        }
    };
    for p in vmon::panics::take_unexpected() {
        rep.violate(format!("{}:unexpected-panic", rep.property), json!({"location": p.location, "message": p.message}));
    }
    let mut j = rep.to_json();
    j["wall_s"] = json!(t0.elapsed().as_secs_f64());
    j["seed"] = json!(seed);
    j["tier"] = json!(tier);
    let text = serde_json::to_string_pretty(&j).unwrap();
    if out.is_empty() {
        println!("{text}");
    } else {
        std::fs::write(&out, text).expect("write report");
    }
}
