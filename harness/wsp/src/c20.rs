//! C20 — WebSocket upgrades follow the RFC 6455 handshake.
//!
//! A real dropshot server with two `#[channel]` endpoints whose handlers take
//! the raw upgraded connection and echo every byte XORed with a
//! per-connection key (so cross-connection mix-ups are visible); a raw client
//! that writes every handshake byte itself; an oracle written from RFC 6455
//! §4.2 and RFC 9110 §5.6.1 with its own SHA-1/base64 (sha1b64.rs).

use crate::sha1b64::ws_accept;
use dropshot::{
    channel, ApiDescription, HandlerTaskMode, Path, Query, RequestContext,
    WebsocketChannelResult, WebsocketConnection,
};
use schemars::JsonSchema;
use serde::Deserialize;
use serde_json::{json, Value};
use std::collections::HashMap;
use std::io::Write;
use std::time::Duration;
use tokio::io::{AsyncReadExt, AsyncWriteExt};
use vmon::client::{Conn, ReadErr, Resp};
use vmon::evlog::{next_uid, EvLog, Event};
use vmon::report::Report;
use vmon::rng::Rng;
use vmon::srv::{self, Ctx, Running, SrvCfg, C};

// --------------------------------------------------------------- server side

#[derive(Clone, Copy, Debug, Default)]
struct Behaviour {
    /// bytes the server writes before it reads anything
    first: u32,
    /// Some(m): read exactly m bytes, echo them, write `bye` bytes, close.
    /// None: echo until the client half-closes, then close.
    take: Option<u32>,
    bye: u32,
}

/// deterministic filler known to both sides (all byte values occur)
fn pattern(uid: u64, tag: u64, n: usize) -> Vec<u8> {
    (0..n as u64)
        .map(|i| {
            (i.wrapping_mul(131)
                .wrapping_add(i >> 8)
                .wrapping_add(uid.wrapping_mul(17))
                .wrapping_add(tag)) as u8
        })
        .collect()
}

const FNV_OFF: u64 = 0xcbf2_9ce4_8422_2325;
fn fnv_step(mut h: u64, data: &[u8]) -> u64 {
    for b in data {
        h ^= u64::from(*b);
        h = h.wrapping_mul(0x0000_0100_0000_01B3);
    }
    h
}

async fn serve(
    log: EvLog,
    uid: u64,
    key: u8,
    b: Behaviour,
    conn: WebsocketConnection,
) -> WebsocketChannelResult {
    let mut io = conn.into_inner();
    if b.first > 0 {
        let mut g = pattern(uid, 1, b.first as usize);
        g.iter_mut().for_each(|x| *x ^= key);
        io.write_all(&g).await?;
        io.flush().await?;
    }
    let mut h = FNV_OFF;
    let mut total: u64 = 0;
    match b.take {
        Some(m) => {
            let mut buf = vec![0u8; m as usize];
            if let Err(e) = io.read_exact(&mut buf).await {
                log.push("CH_SHORT", uid, m as i64, &e.to_string());
                return Err(e.into());
            }
            h = fnv_step(h, &buf);
            buf.iter_mut().for_each(|x| *x ^= key);
            io.write_all(&buf).await?;
            let mut bye = pattern(uid, 2, b.bye as usize);
            bye.iter_mut().for_each(|x| *x ^= key);
            io.write_all(&bye).await?;
            io.flush().await?;
            log.push("CH_EOF", uid, m as i64, &format!("{h:016x}"));
            io.shutdown().await?;
        }
        None => {
            let cap = [512usize, 4096, 65536][(uid % 3) as usize];
            let mut buf = vec![0u8; cap];
            loop {
                let n = match io.read(&mut buf).await {
                    Ok(n) => n,
                    Err(e) => {
                        log.push("CH_RDERR", uid, total as i64, &e.to_string());
                        return Err(e.into());
                    }
                };
                if n == 0 {
                    break;
                }
                h = fnv_step(h, &buf[..n]);
                total += n as u64;
                buf[..n].iter_mut().for_each(|x| *x ^= key);
                if let Err(e) = io.write_all(&buf[..n]).await {
                    log.push("CH_WRERR", uid, total as i64, &e.to_string());
                    return Err(e.into());
                }
            }
            io.flush().await?;
            log.push("CH_EOF", uid, total as i64, &format!("{h:016x}"));
            io.shutdown().await?;
        }
    }
    log.push("CH_DONE", uid, 0, "");
    Ok(())
}

fn hdr_u32(rqctx: &RequestContext<C>, name: &str) -> Option<u32> {
    rqctx
        .request
        .headers()
        .get(name)
        .and_then(|v| v.to_str().ok())
        .and_then(|s| s.parse().ok())
}

/// plain channel: behaviour in x-vmon-* headers, key = low byte of the uid
#[channel {
    protocol = WEBSOCKETS,
    path = "/ws",
}]
async fn ch_plain(
    rqctx: RequestContext<C>,
    upgraded: WebsocketConnection,
) -> WebsocketChannelResult {
    let uid = vmon::api::uid_of(&rqctx);
    let key = uid as u8;
    let b = Behaviour {
        first: hdr_u32(&rqctx, "x-vmon-first").unwrap_or(0),
        take: hdr_u32(&rqctx, "x-vmon-take"),
        bye: hdr_u32(&rqctx, "x-vmon-bye").unwrap_or(0),
    };
    let log = rqctx.context().log.clone();
    log.push("CH_ENTER", uid, key as i64, "plain");
    serve(log, uid, key, b, upgraded).await
}

#[derive(Deserialize, JsonSchema)]
struct ChPath {
    room: String,
    k: u8,
}

#[derive(Deserialize, JsonSchema)]
struct ChQuery {
    first: Option<u32>,
    take: Option<u32>,
    bye: Option<u32>,
    tag: Option<String>,
}

/// channel with path and query parameters: key = path parameter `k`
#[channel {
    protocol = WEBSOCKETS,
    path = "/ws/{room}/{k}",
}]
async fn ch_param(
    rqctx: RequestContext<C>,
    query: Query<ChQuery>,
    path: Path<ChPath>,
    upgraded: WebsocketConnection,
) -> WebsocketChannelResult {
    let uid = vmon::api::uid_of(&rqctx);
    let p = path.into_inner();
    let q = query.into_inner();
    let b = Behaviour {
        first: q.first.unwrap_or(0),
        take: q.take,
        bye: q.bye.unwrap_or(0),
    };
    let log = rqctx.context().log.clone();
    log.push(
        "CH_ENTER",
        uid,
        p.k as i64,
        &format!("room={};tag={}", p.room, q.tag.unwrap_or_default()),
    );
    serve(log, uid, p.k, b, upgraded).await
}

fn api() -> ApiDescription<C> {
    let mut api = ApiDescription::new();
    api.register(ch_plain).unwrap();
    api.register(ch_param).unwrap();
    api
}

// ------------------------------------------------------------- case generator

#[derive(Clone, Copy, Debug, PartialEq, Eq)]
enum Sp {
    /// the spelling of RFC 6455's own example
    Plain,
    /// arbitrary letter case of the token
    Case,
    /// `a,tok`
    ListComma,
    /// `a, tok`
    ListCommaSp,
    /// token first: `tok, a`
    OrderFirst,
    /// `a, tok, b` / three and more tokens
    ExtraTokens,
    /// SP on both sides of commas: `a ,  tok`
    OwsSp,
    /// leading/trailing blanks around the whole field value
    OwsEdge,
    /// HTAB as optional whitespace after/before a comma        (own tag, D7)
    Htab,
    /// the list spread over several header lines               (own tag, D7)
    MultiLine,
    /// tokens separated by SP only: NOT legal list syntax → unconstrained
    SpOnly,
}

impl Sp {
    fn tag(self) -> &'static str {
        match self {
            Sp::Plain => "plain",
            Sp::Case => "case",
            Sp::ListComma => "list-comma",
            Sp::ListCommaSp => "list-comma-sp",
            Sp::OrderFirst => "token-first",
            Sp::ExtraTokens => "extra-tokens",
            Sp::OwsSp => "ows-sp",
            Sp::OwsEdge => "ows-edge",
            Sp::Htab => "htab",
            Sp::MultiLine => "multi-line",
            Sp::SpOnly => "sp-only",
        }
    }
    fn exotic(self) -> bool {
        matches!(self, Sp::Htab | Sp::MultiLine)
    }
}

const REGULAR: [Sp; 8] = [
    Sp::Plain,
    Sp::Case,
    Sp::ListComma,
    Sp::ListCommaSp,
    Sp::OrderFirst,
    Sp::ExtraTokens,
    Sp::OwsSp,
    Sp::OwsEdge,
];

fn random_case(word: &str, rng: &mut Rng) -> String {
    match rng.below(4) {
        0 => word.to_ascii_uppercase(),
        1 => word.to_ascii_lowercase(),
        _ => word
            .chars()
            .map(|c| {
                if rng.bool() {
                    c.to_ascii_uppercase()
                } else {
                    c.to_ascii_lowercase()
                }
            })
            .collect(),
    }
}

/// Render a header value (one entry per header line) that contains `word`
/// among `others` in spelling `sp`.
fn render_list(sp: Sp, word: &str, others: &[&str], rng: &mut Rng) -> Vec<Vec<u8>> {
    let o = |rng: &mut Rng| others[rng.usize(others.len())].to_string();
    let one = |s: String| vec![s.into_bytes()];
    match sp {
        Sp::Plain => one(word.to_string()),
        Sp::Case => one(random_case(word, rng)),
        Sp::ListComma => one(format!("{},{}", o(rng), word)),
        Sp::ListCommaSp => one(format!("{}, {}", o(rng), word)),
        Sp::OrderFirst => {
            if rng.bool() {
                one(format!("{}, {}", word, o(rng)))
            } else {
                one(format!("{},{}", word, o(rng)))
            }
        }
        Sp::ExtraTokens => {
            let mut toks: Vec<String> =
                others.iter().map(|s| s.to_string()).collect();
            let at = rng.usize(toks.len() + 1);
            toks.insert(at, word.to_string());
            one(toks.join(", "))
        }
        Sp::OwsSp => {
            let a = " ".repeat(1 + rng.usize(2));
            let b = " ".repeat(1 + rng.usize(3));
            if rng.bool() {
                one(format!("{}{a},{b}{}", o(rng), word))
            } else {
                one(format!("{}{a},{b}{}", word, o(rng)))
            }
        }
        Sp::OwsEdge => {
            // OWS around the field value is not part of the value (RFC 9110 §5.5)
            let a = " ".repeat(rng.usize(3));
            let b = " ".repeat(1 + rng.usize(3));
            one(format!("{a}{word}{b}"))
        }
        Sp::Htab => match rng.below(3) {
            0 => one(format!("{},\t{}", o(rng), word)),
            1 => one(format!("{}\t,\t{}", o(rng), word)),
            _ => one(format!("{}\t, {}", word, o(rng))),
        },
        Sp::MultiLine => {
            let mut lines = vec![o(rng), word.to_string()];
            if rng.bool() {
                lines.push(o(rng));
            }
            if rng.chance(1, 3) {
                lines.swap(0, 1);
            }
            lines.into_iter().map(|s| s.into_bytes()).collect()
        }
        Sp::SpOnly => one(format!("{} {}", o(rng), word)),
    }
}

const CONN_OTHERS: [&str; 3] = ["keep-alive", "x-vmon-hop", "x-vmon-other"];
const UPG_OTHERS: [&str; 3] = ["x-vmon-proto", "x-vmon-proto/2", "vmonp/1.1"];

#[derive(Clone, Copy, Debug, PartialEq, Eq)]
enum NameCase {
    Canon,
    Lower,
    Upper,
    Random,
}
impl NameCase {
    fn tag(self) -> &'static str {
        match self {
            NameCase::Canon => "canon",
            NameCase::Lower => "lower",
            NameCase::Upper => "upper",
            NameCase::Random => "random",
        }
    }
    fn apply(self, name: &str, rng: &mut Rng) -> String {
        match self {
            NameCase::Canon => name.to_string(),
            NameCase::Lower => name.to_ascii_lowercase(),
            NameCase::Upper => name.to_ascii_uppercase(),
            NameCase::Random => name
                .chars()
                .map(|c| {
                    if rng.bool() {
                        c.to_ascii_uppercase()
                    } else {
                        c.to_ascii_lowercase()
                    }
                })
                .collect(),
        }
    }
}

const B64A: &[u8] =
    b"ABCDEFGHIJKLMNOPQRSTUVWXYZabcdefghijklmnopqrstuvwxyz0123456789+/";
const TCHAR: &[u8] =
    b"ABCDEFGHIJKLMNOPQRSTUVWXYZabcdefghijklmnopqrstuvwxyz0123456789!#$%&'*+-.^_`|~";

fn gen_key(rng: &mut Rng) -> (Vec<u8>, &'static str) {
    match rng.below(10) {
        0..=4 => (crate::sha1b64::b64(&rng.bytes(16)).into_bytes(), "b64-16"),
        5 => {
            let mut n = 1 + rng.usize(64);
            if n == 16 {
                n = 17;
            }
            (crate::sha1b64::b64(&rng.bytes(n)).into_bytes(), "b64-other-len")
        }
        6 => {
            // base64 alphabet and '=' in arbitrary positions
            let n = 1 + rng.usize(40);
            let mut v: Vec<u8> =
                (0..n).map(|_| B64A[rng.usize(B64A.len())]).collect();
            for _ in 0..rng.usize(4) {
                let at = rng.usize(v.len());
                v[at] = b'=';
            }
            (v, "b64-alphabet-arbitrary")
        }
        7 => {
            // letters only, all one case or mixed: shows case folding
            let n = 4 + rng.usize(30);
            let up = rng.below(3);
            let v = (0..n)
                .map(|_| {
                    let c = b'a' + rng.below(26) as u8;
                    match up {
                        0 => c,
                        1 => c.to_ascii_uppercase(),
                        _ => {
                            if rng.bool() {
                                c
                            } else {
                                c.to_ascii_uppercase()
                            }
                        }
                    }
                })
                .collect();
            (v, "letters")
        }
        9 if rng.chance(1, 2) => {
            // obs-text (0x80..=0xFF) is legal field-content (RFC 9110 §5.5)
            // and hyper passes it through; the digest is over these bytes as
            // sent, whether or not they happen to be valid UTF-8
            let v: Vec<u8> = match rng.below(5) {
                0 => b"k\xE9y".to_vec(),
                1 => "kéy-ключ-鍵".as_bytes().to_vec(),
                2 => vec![0xC0, 0xAF, b'A', 0xFF, 0xFE],
                3 => {
                    let n = 1 + rng.usize(24);
                    (0..n).map(|_| 0x80 + rng.below(128) as u8).collect()
                }
                _ => {
                    let n = 2 + rng.usize(40);
                    (0..n)
                        .map(|_| {
                            if rng.chance(1, 3) {
                                0x80 + rng.below(128) as u8
                            } else {
                                TCHAR[rng.usize(TCHAR.len())]
                            }
                        })
                        .collect()
                }
            };
            (v, "obs-text")
        }
        8 if rng.chance(1, 3) => {
            // field-content may hold SP / HTAB between visible characters
            // (RFC 9110 §5.5); the digest covers them like any other byte
            let n = 3 + rng.usize(30);
            let mut v: Vec<u8> =
                (0..n).map(|_| TCHAR[rng.usize(TCHAR.len())]).collect();
            for _ in 0..1 + rng.usize(3) {
                let at = 1 + rng.usize(n - 2);
                v[at] = if rng.bool() { b' ' } else { b'\t' };
            }
            (v, "inner-blanks")
        }
        _ => {
            let n = 1 + rng.usize(48);
            ((0..n).map(|_| TCHAR[rng.usize(TCHAR.len())]).collect(), "token")
        }
    }
}

#[derive(Clone, Copy, Debug, PartialEq, Eq)]
enum Early {
    /// payload written only after the 101 has been read
    None,
    /// whole payload in the same write as the handshake
    All,
    /// a prefix with the handshake, the rest after the 101
    Split,
}

#[derive(Clone, Copy, Debug, PartialEq, Eq)]
enum Flow {
    Echo(Early),
    /// server writes a greeting before reading; then echo
    ServerFirst(Early),
    /// server reads exactly the payload, echoes, says bye, closes first
    ServerClose(Early),
    /// chunk / echo / chunk / echo …
    PingPong,
    /// client sends, half-closes, and only then reads everything
    HalfCloseThenRead,
}

impl Flow {
    fn tag(self) -> String {
        let e = |e: Early| match e {
            Early::None => "after101",
            Early::All => "coalesced",
            Early::Split => "split",
        };
        match self {
            Flow::Echo(x) => format!("echo-{}", e(x)),
            Flow::ServerFirst(x) => format!("serverfirst-{}", e(x)),
            Flow::ServerClose(x) => format!("serverclose-{}", e(x)),
            Flow::PingPong => "pingpong".into(),
            Flow::HalfCloseThenRead => "halfclose-then-read".into(),
        }
    }
}

fn gen_flow(rng: &mut Rng) -> Flow {
    let early = |rng: &mut Rng| match rng.below(3) {
        0 => Early::None,
        1 => Early::All,
        _ => Early::Split,
    };
    match rng.below(10) {
        0..=3 => Flow::Echo(early(rng)),
        4..=5 => Flow::ServerFirst(early(rng)),
        6 => Flow::ServerClose(early(rng)),
        7..=8 => Flow::PingPong,
        _ => Flow::HalfCloseThenRead,
    }
}

fn gen_payload(rng: &mut Rng, quick: bool) -> (Vec<u8>, String) {
    let r = rng.below(1000);
    let (n, sc) = if r < 80 {
        (1usize, "1")
    } else if r < 430 {
        (2 + rng.usize(124), "2-125")
    } else if r < 730 {
        (126 + rng.usize(4096 - 126 + 1), "126-4K")
    } else if r < 930 {
        (4097 + rng.usize(65535 - 4097 + 1), "4K-64K")
    } else if r < (if quick { 985 } else { 990 }) {
        (65536 + rng.usize((1 << 20) - 65536), "64K-1M")
    } else if r < 995 {
        (1 << 20, "1M")
    } else {
        // hyper's default read buffer limit neighbourhood
        (8192 + 4096 * 100 - 2 + rng.usize(5), "409K-edge")
    };
    let (data, cc): (Vec<u8>, &str) = match rng.below(8) {
        0..=1 => {
            let s = rng.below(256);
            ((0..n as u64).map(|i| (i + s) as u8).collect(), "allbytes")
        }
        2..=4 => {
            // cheap random fill
            let mut v = Vec::with_capacity(n + 8);
            while v.len() < n {
                v.extend_from_slice(&rng.next().to_le_bytes());
            }
            v.truncate(n);
            (v, "random")
        }
        5 => {
            let t = b"GET /ws HTTP/1.1\r\nHost: x\r\nContent-Length: 5\r\n\r\nhello";
            ((0..n).map(|i| t[i % t.len()]).collect(), "http-lookalike")
        }
        6 => {
            let b = *rng.pick(&[0u8, 0xff, b'\r', b'\n', 0x81, 0x88]);
            (vec![b; n], "constant")
        }
        _ => {
            // a masked websocket frame header followed by noise
            let mut v = vec![0x82u8, 0xfe, 0x01, 0x00, 1, 2, 3, 4];
            while v.len() < n {
                v.extend_from_slice(&rng.next().to_le_bytes());
            }
            v.truncate(n);
            (v, "ws-frame-like")
        }
    };
    (data, format!("{sc}/{cc}"))
}

#[derive(Clone, Debug)]
enum Kind {
    /// every element present, legal spelling: must be accepted
    Complete { conn: Sp, upg: Sp },
    /// not legal list syntax: outcome unconstrained, only safety is judged
    Unconstrained { conn: Sp, upg: Sp },
    /// elements of `mask` (1=C 2=U 4=V 8=K) missing or wrong: must be refused
    Defect {
        mask: u8,
        conn: Option<&'static str>,
        upg: Option<&'static str>,
        ver: Option<&'static str>,
    },
    /// complete headers, method other than GET
    WrongMethod(&'static str),
}

const BAD_CONN: [Option<&str>; 7] = [
    None,
    Some("keep-alive"),
    Some("keep-alive, x-vmon-hop"),
    Some("close"),
    Some("upgrades"),
    Some("xupgrade"),
    Some("upgrade-insecure-requests"),
];
const BAD_UPG: [Option<&str>; 6] = [
    None,
    Some("h2c"),
    Some("websockets"),
    Some("xwebsocket"),
    Some("web-socket"),
    Some("TLS/1.0"),
];
/// absent, other versions, and spellings that are not the token `13` of
/// RFC 6455 §4.1/§11.3.5 (version = DIGIT | NZDIGIT DIGIT | "1" DIGIT DIGIT |
/// "2" DIGIT DIGIT) although a lenient number parser reads 13 out of them
const BAD_VER: [Option<&str>; 18] = [
    None,
    Some("8"),
    Some("12"),
    Some("13, 8"),
    Some("14"),
    Some("013"),
    Some("0013"),
    Some("+13"),
    Some("+013"),
    Some("13.0"),
    Some("1_3"),
    Some("0x0d"),
    Some("0xD"),
    Some("13 13"),
    Some("1 3"),
    Some("113"),
    Some("130"),
    Some("-13"),
];

#[derive(Clone, Debug)]
struct Case {
    shard: u64,
    idx: u64,
    kind: Kind,
    param_ep: bool,
    room: String,
    k: u8,
    tag: String,
    names: NameCase,
    key: Vec<u8>,
    key_class: &'static str,
    flow: Flow,
    payload: Vec<u8>,
    pay_class: String,
    first: u32,
    bye: u32,
    /// complete handshake sent on the same connection after a refusal
    follow_up: bool,
}

fn gen_case(seed: u64, shard: u64, idx: u64, quick: bool) -> Case {
    let mut rng = Rng::derive(seed, "c20", shard, idx);
    let slot = (idx + shard * 7) % 40;
    let reg = |rng: &mut Rng| REGULAR[rng.usize(REGULAR.len())];
    let kind = match slot {
        // 15 slots: defects, the mask cycles through all 15 subsets
        0..=14 => {
            let mask = ((idx / 40 + slot + shard) % 15 + 1) as u8;
            // element not in the mask ⇒ healthy (None here means "render ok")
            let conn = if mask & 1 != 0 {
                Some(BAD_CONN[rng.usize(BAD_CONN.len())])
            } else {
                None
            };
            let upg = if mask & 2 != 0 {
                Some(BAD_UPG[rng.usize(BAD_UPG.len())])
            } else {
                None
            };
            let ver = if mask & 4 != 0 {
                Some(BAD_VER[rng.usize(BAD_VER.len())])
            } else {
                None
            };
            Kind::Defect {
                mask,
                // encode: outer None = healthy; Some(None) = absent; Some(Some(v)) = wrong
                conn: conn.map(|c| c.unwrap_or("\0absent")),
                upg: upg.map(|c| c.unwrap_or("\0absent")),
                ver: ver.map(|c| c.unwrap_or("\0absent")),
            }
        }
        15 => Kind::Complete { conn: Sp::Htab, upg: reg(&mut rng) },
        16 => Kind::Complete { conn: Sp::MultiLine, upg: reg(&mut rng) },
        17 => {
            if rng.bool() {
                Kind::Complete { conn: reg(&mut rng), upg: Sp::Htab }
            } else {
                Kind::Complete { conn: reg(&mut rng), upg: Sp::MultiLine }
            }
        }
        18 => {
            if rng.bool() {
                Kind::Unconstrained { conn: Sp::SpOnly, upg: reg(&mut rng) }
            } else {
                Kind::Unconstrained { conn: reg(&mut rng), upg: Sp::SpOnly }
            }
        }
        19 => Kind::WrongMethod(*rng.pick(&["POST", "PUT", "DELETE", "OPTIONS"])),
        // 20 slots: complete handshakes in regular spellings; the pair cycles
        // so that every (conn, upg) combination occurs
        _ => {
            let c = ((idx / 40) + slot) as usize % REGULAR.len();
            let u = ((idx / 40) / 8 + slot / 3 + shard) as usize % REGULAR.len();
            Kind::Complete { conn: REGULAR[c], upg: REGULAR[u] }
        }
    };
    let (key, key_class) = gen_key(&mut rng);
    let flow = gen_flow(&mut rng);
    let (mut payload, mut pay_class) = gen_payload(&mut rng, quick);
    if matches!(flow, Flow::PingPong) && payload.len() > 256 * 1024 {
        payload.truncate(256 * 1024);
        pay_class = format!("{pay_class}/cut256K");
    }
    let room_len = 1 + rng.usize(12);
    let room: String = (0..room_len)
        .map(|_| {
            *rng.pick(&[
                'a', 'b', 'z', 'A', 'Q', '0', '7', '-', '_', '.', '~', 'x',
            ])
        })
        .collect();
    // "." and ".." are not legal values for a path variable
    let room = if room == "." || room == ".." { "r.r".to_string() } else { room };
    let names = *rng.pick(&[
        NameCase::Canon,
        NameCase::Canon,
        NameCase::Lower,
        NameCase::Upper,
        NameCase::Random,
    ]);
    let first_cap = if rng.chance(1, 8) { 100_000 } else { 300 };
    Case {
        shard,
        idx,
        kind,
        param_ep: rng.bool(),
        room,
        k: rng.below(256) as u8,
        tag: format!("t{}", rng.below(1000)),
        names,
        key,
        key_class,
        flow,
        payload,
        pay_class,
        first: 1 + rng.below(first_cap) as u32,
        bye: rng.below(200) as u32,
        follow_up: rng.chance(1, 3),
    }
}

struct Built {
    bytes: Vec<u8>,
    uid: u64,
    /// XOR key the handler will use
    xor: u8,
    /// what CH_ENTER must carry in `s`
    enter_s: String,
}

/// Build the request head of `case` for handshake elements given explicitly.
#[allow(clippy::too_many_arguments)]
fn build(
    case: &Case,
    rng: &mut Rng,
    method: &str,
    conn_lines: Option<Vec<Vec<u8>>>,
    upg_lines: Option<Vec<Vec<u8>>>,
    ver: Option<&str>,
    key: Option<&[u8]>,
    first: u32,
    take: Option<u32>,
    bye: u32,
) -> Built {
    let uid = next_uid();
    let nc = case.names;
    let mut lines: Vec<(String, Vec<u8>)> = vec![];
    lines.push((nc.apply("Host", rng), b"vmon.test".to_vec()));
    lines.push(("x-vmon-uid".into(), uid.to_string().into_bytes()));
    if let Some(ls) = conn_lines {
        for l in ls {
            lines.push((nc.apply("Connection", rng), l));
        }
    }
    if let Some(ls) = upg_lines {
        for l in ls {
            lines.push((nc.apply("Upgrade", rng), l));
        }
    }
    if let Some(v) = ver {
        lines.push((nc.apply("Sec-WebSocket-Version", rng), v.as_bytes().to_vec()));
    }
    if let Some(k) = key {
        lines.push((nc.apply("Sec-WebSocket-Key", rng), k.to_vec()));
    }
    if rng.chance(1, 4) {
        lines.push((nc.apply("Origin", rng), b"http://vmon.test".to_vec()));
    }
    if rng.chance(1, 6) {
        lines.push((nc.apply("User-Agent", rng), b"vmon/0 (raw)".to_vec()));
    }
    let (target, xor, enter_s) = if case.param_ep {
        let mut q = vec![format!("tag={}", case.tag)];
        if first > 0 {
            q.push(format!("first={first}"));
        }
        if let Some(t) = take {
            q.push(format!("take={t}"));
            q.push(format!("bye={bye}"));
        }
        rng.shuffle(&mut q);
        (
            format!("/ws/{}/{}?{}", case.room, case.k, q.join("&")),
            case.k,
            format!("room={};tag={}", case.room, case.tag),
        )
    } else {
        if first > 0 {
            lines.push(("x-vmon-first".into(), first.to_string().into_bytes()));
        }
        if let Some(t) = take {
            lines.push(("x-vmon-take".into(), t.to_string().into_bytes()));
            lines.push(("x-vmon-bye".into(), bye.to_string().into_bytes()));
        }
        ("/ws".to_string(), uid as u8, "plain".to_string())
    };
    // header order is free; keep the relative order of same-named lines
    // (shuffle positions of distinct names only is overkill: a permutation of
    // all lines keeps same-named lines in *some* order, which is what a list
    // spread over lines allows only if order is preserved — so sort same-named
    // lines back into generation order after the shuffle)
    let mut order: Vec<usize> = (0..lines.len()).collect();
    rng.shuffle(&mut order);
    let mut placed: Vec<(String, Vec<u8>)> =
        order.iter().map(|&i| lines[i].clone()).collect();
    for name in ["connection", "upgrade"] {
        let pos: Vec<usize> = placed
            .iter()
            .enumerate()
            .filter(|(_, (n, _))| n.eq_ignore_ascii_case(name))
            .map(|(i, _)| i)
            .collect();
        let vals: Vec<(String, Vec<u8>)> = lines
            .iter()
            .filter(|(n, _)| n.eq_ignore_ascii_case(name))
            .cloned()
            .collect();
        for (p, v) in pos.into_iter().zip(vals) {
            placed[p] = v;
        }
    }
    let mut bytes = format!("{method} {target} HTTP/1.1\r\n").into_bytes();
    for (n, v) in &placed {
        bytes.extend_from_slice(n.as_bytes());
        bytes.push(b':');
        if !(v.first() == Some(&b' ')) && !rng.chance(1, 10) {
            bytes.push(b' ');
        }
        bytes.extend_from_slice(v);
        bytes.extend_from_slice(b"\r\n");
    }
    bytes.extend_from_slice(b"\r\n");
    Built { bytes, uid, xor, enter_s }
}

fn esc(b: &[u8]) -> String {
    let cut = b.len().min(900);
    let mut s: String = b[..cut].iter().map(|&c| (c as char).escape_default().to_string()).collect();
    if b.len() > cut {
        s.push_str(&format!("…(+{} bytes)", b.len() - cut));
    }
    s
}

// --------------------------------------------------------------------- oracle

/// RFC 9110 §5.6.1 list membership over all field lines of `name`
fn has_token(resp: &Resp, name: &str, token: &str) -> bool {
    resp.header_all(name).iter().any(|v| {
        String::from_utf8_lossy(v)
            .split(',')
            .any(|t| t.trim_matches(|c| c == ' ' || c == '\t').eq_ignore_ascii_case(token))
    })
}

struct Expect {
    accepted: bool,
    enter_s: String,
    xor: u8,
    what: String,
    witness: Value,
}

struct Shard {
    rep: Report,
    seed: u64,
    shard: u64,
    quick: bool,
    srv: Option<Running>,
    expect: HashMap<u64, Expect>,
    served: u64,
    /// watchdog for handshake answers and event-log waits
    wd: Duration,
    /// watchdog for post-upgrade reads (expiry is never a verdict by itself)
    wd_data: Duration,
    /// watchdog expiries so far: the shard stops early when they pile up
    stalls: u32,
}

enum Outcome {
    Held,
    Violated,
    Inconclusive,
}

fn readerr_kind(e: &ReadErr) -> &'static str {
    match e {
        ReadErr::Closed => "closed",
        ReadErr::Truncated(_) => "truncated",
        ReadErr::Reset(_) => "reset",
        ReadErr::Timeout(_) => "timeout",
        ReadErr::Malformed(..) => "malformed",
        ReadErr::Io(_) => "io",
    }
}

fn readerr_json(e: &ReadErr) -> Value {
    match e {
        ReadErr::Closed => json!({"err": "closed"}),
        ReadErr::Truncated(b) => json!({"err": "truncated", "got_len": b.len(), "got_head": esc(&b[..b.len().min(200)])}),
        ReadErr::Reset(b) => json!({"err": "reset", "got_len": b.len()}),
        ReadErr::Timeout(b) => json!({"err": "timeout", "got_len": b.len()}),
        ReadErr::Malformed(w, b) => json!({"err": "malformed", "why": w, "bytes": esc(&b[..b.len().min(300)])}),
        ReadErr::Io(s) => json!({"err": "io", "msg": s}),
    }
}

fn first_diff(a: &[u8], b: &[u8]) -> Option<usize> {
    a.iter().zip(b.iter()).position(|(x, y)| x != y).or({
        if a.len() != b.len() {
            Some(a.len().min(b.len()))
        } else {
            None
        }
    })
}

impl Shard {
    fn server(&mut self) -> Result<&Running, String> {
        if self.srv.is_none() {
            let n = self.served;
            let cfg = SrvCfg {
                mode: if (n + self.shard) % 2 == 0 {
                    HandlerTaskMode::Detached
                } else {
                    HandlerTaskMode::CancelOnDisconnect
                },
                workers: [1, 2, 4, 3][((n + self.shard) % 4) as usize],
                ..Default::default()
            };
            let run = srv::start(api(), Ctx::new(EvLog::new()), &cfg)?;
            self.rep.count("servers_started", 1);
            self.served += 1;
            self.srv = Some(run);
        }
        Ok(self.srv.as_ref().unwrap())
    }

    /// quiesce, audit CH_ENTER against what was answered, drop the server
    fn rotate(&mut self) {
        let Some(mut run) = self.srv.take() else { return };
        // every client connection of this shard is closed by now; CH_DONE /
        // error events of the last handlers may still be in flight, CH_ENTER
        // cannot be (it precedes the first echoed byte, which was read).
        let _ = run.close();
        let events: Vec<Event> = run.ctx.log.snapshot();
        let mut enters: HashMap<u64, Vec<&Event>> = HashMap::new();
        for e in &events {
            *self.rep.counters.entry(format!("ev_{}", e.kind)).or_insert(0) += 1;
            if e.kind == "CH_ENTER" {
                enters.entry(e.uid).or_default().push(e);
            }
        }
        for (uid, ex) in self.expect.drain() {
            let got = enters.remove(&uid).unwrap_or_default();
            if ex.accepted {
                if got.len() != 1 {
                    self.rep.violate(
                        format!("C20:upgraded-connection-handler-entered-{}-times", got.len()),
                        json!({"uid": uid, "case": ex.witness}),
                    );
                } else if got[0].s != ex.enter_s || got[0].n != ex.xor as i64 {
                    self.rep.violate(
                        "C20:channel-handler-saw-wrong-parameters",
                        json!({"uid": uid, "expected": ex.enter_s, "expected_k": ex.xor,
                               "got": got[0].json(), "case": ex.witness}),
                    );
                }
            } else if !got.is_empty() {
                self.rep.violate(
                    format!("C20:{}", ex.what),
                    json!({"uid": uid, "events": got.iter().map(|e| e.json()).collect::<Vec<_>>(),
                           "case": ex.witness}),
                );
            }
        }
        // requests whose exchange ended inconclusively were not judged
        self.rep.count("ch_enter_of_unjudged_requests", enters.len() as u64);
        drop(run);
    }

    /// coverage of the dimensions that are not part of the class signature
    fn dims(&mut self, case: &Case) {
        self.rep.count(&format!("dim_names:{}", case.names.tag()), 1);
        self.rep.count(&format!("dim_key:{}", case.key_class), 1);
        self.rep.count(
            &format!("dim_endpoint:{}", if case.param_ep { "path+query" } else { "plain" }),
            1,
        );
        if let Some(c) = case.pay_class.split('/').nth(1) {
            self.rep.count(&format!("dim_payload_content:{c}"), 1);
        }
    }

    fn wit(&self, case: &Case, built: &Built) -> Value {
        json!({
            "seed": self.seed, "shard": case.shard, "case": case.idx,
            "tier": if self.quick { "quick" } else { "thorough" },
            "kind": format!("{:?}", case.kind),
            "endpoint": if case.param_ep { "/ws/{room}/{k}" } else { "/ws" },
            "request_head": esc(&built.bytes),
            "key": esc(&case.key), "key_class": case.key_class,
            "flow": case.flow.tag(), "payload_class": case.pay_class,
            "payload_len": case.payload.len(), "uid": built.uid,
        })
    }

    /// judge the 101 itself; Ok(()) when the upgrade was granted correctly
    fn judge_101(
        &mut self,
        resp: &Resp,
        key: &[u8],
        w: &Value,
    ) -> bool {
        let mut ok = true;
        if !has_token(resp, "upgrade", "websocket") {
            self.rep.violate(
                "C20:101-without-upgrade-websocket-header",
                json!({"case": w, "headers": hdrs(resp)}),
            );
            ok = false;
        }
        if !has_token(resp, "connection", "upgrade") {
            self.rep.violate(
                "C20:101-without-connection-upgrade-header",
                json!({"case": w, "headers": hdrs(resp)}),
            );
            ok = false;
        }
        let acc = resp.header_all("sec-websocket-accept");
        let want = ws_accept(key);
        if acc.len() != 1 || acc[0] != want.as_bytes() {
            // diagnostics only: which wrong input reproduces the digest?
            let got = acc.first().map(|v| String::from_utf8_lossy(v).to_string());
            let lower = ws_accept(&key.to_ascii_lowercase());
            let upper = ws_accept(&key.to_ascii_uppercase());
            let trimmed: Vec<u8> = String::from_utf8_lossy(key)
                .trim_matches(|c: char| !c.is_ascii_alphanumeric())
                .as_bytes()
                .to_vec();
            let hint = match &got {
                Some(g) if *g == lower => "digest-of-lower-cased-key",
                Some(g) if *g == upper => "digest-of-upper-cased-key",
                Some(g) if *g == ws_accept(&trimmed) => "digest-of-trimmed-key",
                Some(g) if *g == ws_accept(String::from_utf8_lossy(key).as_bytes()) => {
                    "digest-of-utf8-lossy-key"
                }
                Some(_) => "other",
                None => "absent",
            };
            let sig = if key.iter().any(|b| *b >= 0x80) {
                "C20:accept-digest-mismatch:obs-text-key"
            } else {
                "C20:accept-digest-mismatch"
            };
            self.rep.violate(
                sig,
                json!({"case": w, "expected": want, "got": got,
                       "key_hex": key.iter().map(|b| format!("{b:02x}")).collect::<String>(),
                       "accept_header_count": acc.len(), "hint": hint}),
            );
            ok = false;
        }
        ok
    }

    /// Post-upgrade traffic of one accepted connection.
    #[allow(clippy::too_many_arguments)]
    fn traffic(
        &mut self,
        conn: &mut Conn,
        case: &Case,
        built: &Built,
        late: &[u8],
        first: u32,
        take: Option<u32>,
        bye: u32,
        w: &Value,
    ) -> Outcome {
        let flow = case.flow.tag();
        let wd = self.wd_data;
        let xor = built.xor;
        let uid = built.uid;
        let tr = |d: &[u8]| -> Vec<u8> { d.iter().map(|b| b ^ xor).collect() };
        let mut writer: Option<std::thread::JoinHandle<std::io::Result<()>>> = None;

        // greeting first (server-initiated data precedes anything it reads)
        if first > 0 {
            let mut g = pattern(uid, 1, first as usize);
            g.iter_mut().for_each(|x| *x ^= xor);
            match conn.read_exact_raw(g.len(), wd) {
                Ok(got) => {
                    self.rep.count("bytes_server_to_client", got.len() as u64);
                    if got != g {
                        self.rep.violate(
                            format!("C20:server-initiated-bytes-altered:{flow}"),
                            json!({"case": w, "first_diff": first_diff(&got, &g), "len": g.len()}),
                        );
                        return Outcome::Violated;
                    }
                }
                Err(e) => {
                    let n = g.len();
                    return self.data_err(conn, &e, "greeting", &flow, w, n, false, uid);
                }
            }
        }

        let payload = &case.payload;
        let expect_echo = tr(payload);
        match case.flow {
            Flow::PingPong => {
                // `late` is the whole payload here
                let mut rng = Rng::derive(self.seed, "c20-pp", case.shard, case.idx);
                let mut off = 0;
                while off < late.len() {
                    let n = (1 + rng.usize(32 * 1024)).min(late.len() - off);
                    if let Err(e) = conn.send(&late[off..off + n]) {
                        self.rep.inconclusive(&format!("send-failed:{}", e.kind()));
                        return Outcome::Inconclusive;
                    }
                    match conn.read_exact_raw(n, wd) {
                        Ok(got) => {
                            self.rep.count("bytes_echoed", n as u64);
                            if got != expect_echo[off..off + n] {
                                self.rep.violate(
                                    format!("C20:post-upgrade-bytes-altered:{flow}"),
                                    json!({"case": w, "chunk_offset": off, "chunk_len": n,
                                           "first_diff": first_diff(&got, &expect_echo[off..off + n])}),
                                );
                                return Outcome::Violated;
                            }
                        }
                        Err(e) => {
                            return self.data_err(conn, &e, "echo", &flow, w, n, true, uid)
                        }
                    }
                    off += n;
                }
            }
            _ => {
                // send what has not been sent with the handshake
                let fin_after = matches!(case.flow, Flow::HalfCloseThenRead);
                if late.len() > 32 * 1024 {
                    let Ok(mut s) = conn.tcp().try_clone() else {
                        self.rep.inconclusive("try_clone");
                        return Outcome::Inconclusive;
                    };
                    let data = late.to_vec();
                    let mut crng = Rng::derive(self.seed, "c20-wr", case.shard, case.idx);
                    writer = Some(std::thread::spawn(move || {
                        s.set_write_timeout(Some(Duration::from_secs(60)))?;
                        let mut off = 0;
                        while off < data.len() {
                            let n = (1 + crng.usize(96 * 1024)).min(data.len() - off);
                            s.write_all(&data[off..off + n])?;
                            off += n;
                        }
                        if fin_after {
                            s.shutdown(std::net::Shutdown::Write)?;
                        }
                        Ok(())
                    }));
                } else {
                    if !late.is_empty() {
                        if let Err(e) = conn.send(late) {
                            self.rep.inconclusive(&format!("send-failed:{}", e.kind()));
                            return Outcome::Inconclusive;
                        }
                    }
                    if fin_after {
                        conn.shutdown_write();
                    }
                }
                match conn.read_exact_raw(expect_echo.len(), wd) {
                    Ok(got) => {
                        self.rep.count("bytes_echoed", got.len() as u64);
                        if got != expect_echo {
                            let d = first_diff(&got, &expect_echo);
                            // a second opinion: was it echoed with someone else's key?
                            let other_key = d.map(|i| got[i] ^ payload[i]);
                            self.rep.violate(
                                format!("C20:post-upgrade-bytes-altered:{flow}"),
                                json!({"case": w, "first_diff": d, "len": expect_echo.len(),
                                       "xor_expected": xor, "xor_at_diff": other_key}),
                            );
                            if let Some(h) = writer.take() {
                                let _ = h.join();
                            }
                            return Outcome::Violated;
                        }
                    }
                    Err(e) => {
                        // the end-of-stream probe is sound only when every
                        // client byte is already written
                        let mut written = true;
                        if let Some(h) = writer.take() {
                            if h.is_finished() {
                                written = matches!(h.join(), Ok(Ok(())));
                            } else {
                                written = false;
                                conn.shutdown_write();
                                let _ = h.join();
                            }
                        }
                        let n = expect_echo.len();
                        return self.data_err(conn, &e, "echo", &flow, w, n, written, uid);
                    }
                }
            }
        }
        if let Some(h) = writer.take() {
            match h.join() {
                Ok(Ok(())) => {}
                _ => {
                    self.rep.inconclusive("writer-thread-error");
                    return Outcome::Inconclusive;
                }
            }
        }
        self.rep.count("bytes_client_to_server", payload.len() as u64);

        // ---- end of stream
        if let Some(m) = take {
            debug_assert_eq!(m as usize, payload.len());
            let mut b = pattern(uid, 2, bye as usize);
            b.iter_mut().for_each(|x| *x ^= xor);
            match conn.read_exact_raw(b.len(), wd) {
                Ok(got) => {
                    self.rep.count("bytes_server_to_client", got.len() as u64);
                    if got != b {
                        self.rep.violate(
                            format!("C20:server-initiated-bytes-altered:{flow}"),
                            json!({"case": w, "where": "bye", "first_diff": first_diff(&got, &b)}),
                        );
                        return Outcome::Violated;
                    }
                }
                Err(e) => {
                    let n = b.len();
                    return self.data_err(conn, &e, "bye", &flow, w, n, true, uid);
                }
            }
            // server closes first: EOF must follow without the client closing
            let (rest, how) = conn.read_to_eof(wd);
            if !rest.is_empty() {
                self.rep.violate(
                    format!("C20:extra-bytes-after-stream:{flow}"),
                    json!({"case": w, "extra_len": rest.len(), "extra_head": esc(&rest[..rest.len().min(64)])}),
                );
                return Outcome::Violated;
            }
            if how == "timeout" {
                self.stalls += 1;
                self.rep.inconclusive("watchdog:server-close-not-seen");
                return Outcome::Inconclusive;
            }
            self.rep.count("server_closed_first", 1);
        } else {
            if !matches!(case.flow, Flow::HalfCloseThenRead) {
                conn.shutdown_write();
            }
            let (rest, how) = conn.read_to_eof(wd);
            if !rest.is_empty() {
                self.rep.violate(
                    format!("C20:extra-bytes-after-stream:{flow}"),
                    json!({"case": w, "extra_len": rest.len(), "extra_head": esc(&rest[..rest.len().min(64)])}),
                );
                return Outcome::Violated;
            }
            if how == "timeout" {
                self.stalls += 1;
                self.rep.inconclusive("watchdog:eof-after-half-close-not-seen");
                return Outcome::Inconclusive;
            }
            self.rep.count("half_close_propagated", 1);
        }
        // what the handler received, independently of the echo
        let log = self.srv.as_ref().unwrap().ctx.log.clone();
        match log.wait_for(
            |e| e.uid == uid && matches!(e.kind, "CH_EOF" | "CH_SHORT" | "CH_RDERR" | "CH_WRERR"),
            wd,
        ) {
            None => {
                self.rep.inconclusive("watchdog:CH_EOF");
                Outcome::Inconclusive
            }
            Some(e) => {
                let want_h = format!("{:016x}", fnv_step(FNV_OFF, payload));
                if e.kind != "CH_EOF" || e.n != payload.len() as i64 || e.s != want_h {
                    self.rep.violate(
                        format!("C20:handler-received-different-bytes:{flow}"),
                        json!({"case": w, "event": e.json(), "sent_len": payload.len(), "sent_fnv": want_h}),
                    );
                    Outcome::Violated
                } else {
                    Outcome::Held
                }
            }
        }
    }

    /// A post-upgrade read did not deliver.  EOF / reset before all bytes is
    /// a loss.  A watchdog expiry is not a verdict: when `may_probe` (all of
    /// the client's bytes are written), the client half-closes so that the
    /// handler finishes, and the *end of stream* decides — fewer bytes than
    /// expected before EOF are lost bytes; anything else is inconclusive.
    #[allow(clippy::too_many_arguments)]
    fn data_err(
        &mut self,
        conn: &mut Conn,
        e: &ReadErr,
        wher: &str,
        flow: &str,
        w: &Value,
        expected_len: usize,
        may_probe: bool,
        uid: u64,
    ) -> Outcome {
        match e {
            ReadErr::Timeout(partial) => {
                self.stalls += 1;
                // diagnostics for the inconclusive record: did the handler start?
                let entered = self
                    .srv
                    .as_ref()
                    .map(|r| r.ctx.log.snapshot().iter().any(|e| e.uid == uid && e.kind == "CH_ENTER"))
                    .unwrap_or(false);
                let hs = if entered { "handler-entered" } else { "handler-not-entered" };
                let mut st = self
                    .rep
                    .extra
                    .remove("stall_witnesses")
                    .and_then(|v| v.as_array().cloned())
                    .unwrap_or_default();
                if st.len() < 6 {
                    st.push(json!({"case": w, "where": wher, "handler": hs,
                                   "received_before_expiry": partial.len(),
                                   "expected_len": expected_len}));
                }
                self.rep.extra.insert("stall_witnesses".into(), Value::Array(st));
                if !may_probe {
                    self.rep.inconclusive(&format!("watchdog:{wher}:{hs}"));
                    return Outcome::Inconclusive;
                }
                conn.shutdown_write();
                let (got, how) = conn.read_to_eof(self.wd_data);
                if how == "eof" && got.len() < expected_len {
                    let ev: Vec<Value> = self
                        .srv
                        .as_ref()
                        .map(|r| r.ctx.log.snapshot())
                        .unwrap_or_default()
                        .iter()
                        .filter(|e| e.uid == uid)
                        .map(|e| e.json())
                        .collect();
                    self.rep.violate(
                        format!("C20:post-upgrade-bytes-lost:{flow}:{wher}-stream-ended-short"),
                        json!({"case": w, "expected_len": expected_len, "received_len": got.len(),
                               "handler_events": ev}),
                    );
                    Outcome::Violated
                } else {
                    self.rep.inconclusive(&format!(
                        "watchdog:{wher}:{hs}:then-{how}-after-{}-of-{}-bytes",
                        if got.len() >= expected_len { "all" } else { "part" },
                        "expected"
                    ));
                    Outcome::Inconclusive
                }
            }
            ReadErr::Io(_) => {
                self.rep.inconclusive(&format!("io:{wher}"));
                Outcome::Inconclusive
            }
            _ => {
                self.rep.violate(
                    format!("C20:post-upgrade-bytes-lost:{flow}:{wher}-{}", readerr_kind(e)),
                    json!({"case": w, "read": readerr_json(e)}),
                );
                Outcome::Violated
            }
        }
    }

    fn connect(&mut self) -> Option<Conn> {
        let addr = match self.server() {
            Ok(r) => r.addr,
            Err(e) => {
                self.rep.inconclusive(&format!("server-start:{e}"));
                return None;
            }
        };
        match Conn::connect(addr) {
            Ok(c) => Some(c),
            Err(e) => {
                self.rep.inconclusive(&format!("connect:{}", e.kind()));
                None
            }
        }
    }

    /// Signature for a refused complete handshake.  The refusal is attributed
    /// by re-sending the same Connection lines with the plain Upgrade header
    /// and vice versa, so that the signature names the spelling that matters.
    fn refusal_sig(
        &mut self,
        conn_sp: Sp,
        upg_sp: Sp,
        conn_lines: &[Vec<u8>],
        upg_lines: &[Vec<u8>],
        key_class: &str,
    ) -> (String, Value) {
        if conn_sp == Sp::Plain && upg_sp == Sp::Plain {
            return (format!("C20:complete-handshake-refused:key-{key_class}"), json!(null));
        }
        let plain_u = vec![b"websocket".to_vec()];
        let plain_c = vec![b"Upgrade".to_vec()];
        let pc = self.probe(conn_lines, &plain_u);
        let pu = self.probe(&plain_c, upg_lines);
        let pp = self.probe(&plain_c, &plain_u);
        let attribution = json!({"status_with_plain_upgrade_header": pc,
                                 "status_with_plain_connection_header": pu,
                                 "status_with_both_plain": pp});
        let class = match (pp, pc, pu) {
            (Some(101), Some(c), _) if c != 101 => format!("connection-{}", conn_sp.tag()),
            (Some(101), _, Some(u)) if u != 101 => format!("upgrade-{}", upg_sp.tag()),
            // each spelling alone is accepted with an ordinary key
            (Some(101), Some(101), Some(101)) if matches!(key_class, "obs-text" | "inner-blanks") => {
                return (
                    format!("C20:complete-handshake-refused:key-{key_class}"),
                    attribution,
                );
            }
            (Some(101), Some(101), Some(101)) => {
                format!("connection-{}+upgrade-{}", conn_sp.tag(), upg_sp.tag())
            }
            // probes themselves failed: fall back to the generated class
            (None, _, _) | (_, None, _) | (_, _, None) => {
                if conn_sp.exotic() || upg_sp == Sp::Plain {
                    format!("connection-{}", conn_sp.tag())
                } else if upg_sp.exotic() || conn_sp == Sp::Plain {
                    format!("upgrade-{}", upg_sp.tag())
                } else {
                    format!("connection-{}+upgrade-{}", conn_sp.tag(), upg_sp.tag())
                }
            }
            _ => String::new(),
        };
        let sig = if class.is_empty() {
            "C20:complete-handshake-refused".to_string()
        } else {
            format!("C20:valid-connection-header-spelling-refused:{class}")
        };
        (sig, attribution)
    }

    /// minimal handshake with the given Connection / Upgrade lines on a fresh
    /// connection; returns the status (diagnostics for witnesses only)
    fn probe(&mut self, conn_lines: &[Vec<u8>], upg_lines: &[Vec<u8>]) -> Option<u16> {
        let addr = self.srv.as_ref()?.addr;
        let mut conn = Conn::connect(addr).ok()?;
        let uid = next_uid();
        let mut req = b"GET /ws HTTP/1.1\r\nHost: vmon.test\r\n".to_vec();
        req.extend_from_slice(format!("x-vmon-uid: {uid}\r\n").as_bytes());
        for l in conn_lines {
            req.extend_from_slice(b"Connection: ");
            req.extend_from_slice(l);
            req.extend_from_slice(b"\r\n");
        }
        for l in upg_lines {
            req.extend_from_slice(b"Upgrade: ");
            req.extend_from_slice(l);
            req.extend_from_slice(b"\r\n");
        }
        req.extend_from_slice(
            b"Sec-WebSocket-Version: 13\r\nSec-WebSocket-Key: dGhlIHNhbXBsZSBub25jZQ==\r\n\r\n",
        );
        conn.send(&req).ok()?;
        let st = conn.read_response_within(false, self.wd).ok()?.status;
        self.rep.count("attribution_probes", 1);
        Some(st)
    }

    /// A handshake that must be (or may be) accepted, then its traffic.
    fn run_accept(
        &mut self,
        case: &Case,
        conn_sp: Sp,
        upg_sp: Sp,
        may_refuse: bool,
        reuse: Option<Conn>,
    ) {
        let mut rng = Rng::derive(self.seed, "c20-build", case.shard, case.idx);
        let conn_lines = render_list(conn_sp, "Upgrade", &CONN_OTHERS, &mut rng);
        let upg_lines = render_list(upg_sp, "websocket", &UPG_OTHERS, &mut rng);
        let (first, take, bye) = match case.flow {
            Flow::ServerFirst(_) => (case.first, None, 0),
            Flow::ServerClose(_) => (
                if case.first % 2 == 0 { case.first % 64 } else { 0 },
                Some(case.payload.len() as u32),
                case.bye,
            ),
            _ => (0, None, 0),
        };
        let (conn_lines_w, upg_lines_w) = (conn_lines.clone(), upg_lines.clone());
        let built = build(
            case, &mut rng, "GET", Some(conn_lines), Some(upg_lines),
            Some("13"), Some(&case.key), first, take, bye,
        );
        let w = self.wit(case, &built);
        let class = format!(
            "{}|conn:{}|upg:{}|{}|pay:{}{}",
            if may_refuse { "unconstrained" } else { "accept" },
            conn_sp.tag(), upg_sp.tag(),
            case.flow.tag(), case.pay_class.split('/').next().unwrap_or(""),
            if reuse.is_some() { "|after-refusal" } else { "" },
        );
        self.dims(case);
        let reused = reuse.is_some();
        let Some(mut conn) = reuse.or_else(|| self.connect()) else { return };
        // what goes out together with the handshake
        let early_mode = match case.flow {
            Flow::Echo(e) | Flow::ServerFirst(e) | Flow::ServerClose(e) => e,
            _ => Early::None,
        };
        let cut = match early_mode {
            Early::None => 0,
            Early::All => case.payload.len(),
            Early::Split => {
                if case.payload.len() < 2 {
                    case.payload.len()
                } else {
                    (1 + rng.usize(case.payload.len() - 1)).min(16 * 1024)
                }
            }
        };
        let (early, late) = case.payload.split_at(cut);
        let mut first_write = built.bytes.clone();
        first_write.extend_from_slice(early);
        let mut hs_writer = None;
        if first_write.len() > 32 * 1024 {
            let Ok(mut s) = conn.tcp().try_clone() else {
                self.rep.inconclusive("try_clone");
                return;
            };
            let data = first_write.clone();
            hs_writer = Some(std::thread::spawn(move || -> std::io::Result<()> {
                s.set_write_timeout(Some(Duration::from_secs(60)))?;
                s.write_all(&data)
            }));
        } else if let Err(e) = conn.send(&first_write) {
            if reused {
                // the server may close a connection after an error response
                self.rep.count("follow_up_on_closed_connection", 1);
            } else {
                self.rep.inconclusive(&format!("send-failed:{}", e.kind()));
            }
            return;
        }
        let join_hs = |h: Option<std::thread::JoinHandle<std::io::Result<()>>>, conn: &Conn| {
            if let Some(h) = h {
                conn.shutdown_write();
                let _ = h.join();
            }
        };
        let resp = match conn.read_response_within(false, self.wd) {
            Ok(r) => r,
            Err(e) => {
                join_hs(hs_writer, &conn);
                if reused && matches!(e, ReadErr::Closed | ReadErr::Reset(_)) {
                    self.rep.count("follow_up_on_closed_connection", 1);
                    return;
                }
                match e {
                    ReadErr::Timeout(ref got) if !reused && !may_refuse => {
                        // bounded progress: the same server must answer a minimal complete
                        // handshake on a fresh connection right now; if it does, only THIS
                        // handshake (what came with it) is left unanswered
                        self.stalls += 1;
                        let control = self.probe(&[b"Upgrade".to_vec()], &[b"websocket".to_vec()]);
                        if control == Some(101) {
                            self.rep.eval(class);
                            self.rep.violate(
                                format!(
                                    "C20:complete-handshake-not-answered:{}",
                                    match early_mode {
                                        Early::None => "no-early-bytes",
                                        Early::All => "payload-coalesced-with-handshake",
                                        Early::Split => "payload-partly-with-handshake",
                                    }
                                ),
                                json!({"case": w, "watchdog_s": self.wd.as_secs(), "bytes_received_instead": esc(&got[..got.len().min(200)]),
                                       "control": "a minimal complete handshake on a fresh connection was answered 101 meanwhile"}),
                            );
                            // a verdict exists: the remaining cases need not wait as long
                            self.wd = Duration::from_secs(5);
                        } else {
                            self.rep.inconclusive("handshake-read:timeout (control handshake not answered either)");
                        }
                    }
                    ReadErr::Timeout(_) | ReadErr::Io(_) => {
                        self.rep.inconclusive(&format!("handshake-read:{}", readerr_kind(&e)));
                    }
                    _ => {
                        self.rep.eval(class);
                        self.rep.violate(
                            format!("C20:handshake-got-no-valid-http-response:{}", readerr_kind(&e)),
                            json!({"case": w, "read": readerr_json(&e)}),
                        );
                    }
                }
                return;
            }
        };
        self.rep.eval(class);
        if self.rep.want_sample() && case.idx % 7 == 0 {
            self.rep.sample(json!({"case": w, "status": resp.status, "headers": hdrs(&resp)}));
        }
        if resp.status != 101 {
            join_hs(hs_writer, &conn);
            self.rep.count("handshakes_refused", 1);
            self.expect.insert(built.uid, Expect {
                accepted: false, enter_s: String::new(), xor: 0,
                what: format!("request-answered-{}-entered-handler", resp.status),
                witness: w.clone(),
            });
            if may_refuse {
                self.rep.count("unconstrained_refused", 1);
                return;
            }
            let (sig, attribution) =
                self.refusal_sig(conn_sp, upg_sp, &conn_lines_w, &upg_lines_w, case.key_class);
            self.rep.violate(
                sig,
                json!({"case": w, "status": resp.status, "headers": hdrs(&resp),
                       "body": esc(&resp.body), "attribution": attribution}),
            );
            return;
        }
        self.rep.count("handshakes_accepted", 1);
        if may_refuse {
            self.rep.count("unconstrained_accepted", 1);
        }
        self.expect.insert(built.uid, Expect {
            accepted: true, enter_s: built.enter_s.clone(), xor: built.xor,
            what: String::new(), witness: w.clone(),
        });
        let ok = self.judge_101(&resp, &case.key, &w);
        // pingpong sends everything itself
        let late_owned: Vec<u8> = late.to_vec();
        let out = self.traffic(&mut conn, case, &built, &late_owned, first, take, bye, &w);
        if let Some(h) = hs_writer {
            if !matches!(out, Outcome::Held) {
                conn.shutdown_write();
            }
            let _ = h.join();
        }
        let _ = ok;
    }

    fn run_refuse(&mut self, case: &Case) {
        let mut rng = Rng::derive(self.seed, "c20-build", case.shard, case.idx);
        let reg = |rng: &mut Rng| REGULAR[rng.usize(REGULAR.len())];
        let (method, conn_lines, upg_lines, ver, key, what) = match &case.kind {
            Kind::Defect { mask, conn, upg, ver } => {
                let lines = |bad: &Option<&'static str>, word: &str, others: &[&str], rng: &mut Rng| match bad {
                    None => Some(render_list(reg(rng), word, others, rng)),
                    Some("\0absent") => None,
                    Some(v) => Some(vec![v.as_bytes().to_vec()]),
                };
                let cl = lines(conn, "Upgrade", &CONN_OTHERS, &mut rng);
                let ul = lines(upg, "websocket", &UPG_OTHERS, &mut rng);
                let v = match ver {
                    None => Some("13"),
                    Some("\0absent") => None,
                    Some(v) => Some(*v),
                };
                let k = if mask & 8 != 0 { None } else { Some(case.key.as_slice()) };
                let d = |tag: &str, x: &Option<&'static str>| match x {
                    None => String::new(),
                    Some("\0absent") => format!("{tag}:absent "),
                    Some(v) => format!("{tag}:wrong({v}) "),
                };
                let mut what = format!("{}{}{}", d("connection", conn), d("upgrade", upg), d("version", ver));
                if mask & 8 != 0 {
                    what.push_str("key:absent ");
                }
                ("GET", cl, ul, v, k, what.trim().replace(' ', "+"))
            }
            Kind::WrongMethod(m) => (
                *m,
                Some(render_list(reg(&mut rng), "Upgrade", &CONN_OTHERS, &mut rng)),
                Some(render_list(reg(&mut rng), "websocket", &UPG_OTHERS, &mut rng)),
                Some("13"),
                Some(case.key.as_slice()),
                format!("method:{m}"),
            ),
            _ => unreachable!(),
        };
        let built = build(case, &mut rng, method, conn_lines, upg_lines, ver, key, 0, None, 0);
        let w = self.wit(case, &built);
        let subset = match &case.kind {
            Kind::Defect { mask, .. } => format!(
                "{}{}{}{}",
                if mask & 1 != 0 { "C" } else { "" },
                if mask & 2 != 0 { "U" } else { "" },
                if mask & 4 != 0 { "V" } else { "" },
                if mask & 8 != 0 { "K" } else { "" }
            ),
            _ => "method".into(),
        };
        let class = format!("refuse|missing:{subset}|{what}");
        self.dims(case);
        let Some(mut conn) = self.connect() else { return };
        if let Err(e) = conn.send(&built.bytes) {
            self.rep.inconclusive(&format!("send-failed:{}", e.kind()));
            return;
        }
        self.expect.insert(built.uid, Expect {
            accepted: false, enter_s: String::new(), xor: 0,
            what: format!("incomplete-handshake-entered-handler:{subset}"),
            witness: w.clone(),
        });
        let resp = match conn.read_response_within(false, self.wd) {
            Ok(r) => r,
            Err(e) => {
                match e {
                    ReadErr::Timeout(_) | ReadErr::Io(_) => {
                        self.rep.inconclusive(&format!("refusal-read:{}", readerr_kind(&e)));
                    }
                    _ => {
                        self.rep.eval(class);
                        self.rep.violate(
                            format!("C20:incomplete-handshake-not-answered-4xx:{subset}:{}", readerr_kind(&e)),
                            json!({"case": w, "what": what, "read": readerr_json(&e)}),
                        );
                    }
                }
                return;
            }
        };
        self.rep.eval(class);
        if self.rep.want_sample() && case.idx % 5 == 0 {
            self.rep.sample(json!({"case": w, "what": what, "status": resp.status}));
        }
        if resp.status == 101 {
            self.rep.count("handshakes_accepted", 1);
            self.rep.violate(
                format!("C20:incomplete-handshake-upgraded:{subset}"),
                json!({"case": w, "what": what, "headers": hdrs(&resp)}),
            );
            return;
        }
        self.rep.count("handshakes_refused", 1);
        if !(400..500).contains(&resp.status) {
            self.rep.violate(
                format!("C20:incomplete-handshake-not-answered-4xx:{subset}:status-{}", resp.status),
                json!({"case": w, "what": what, "status": resp.status, "body": esc(&resp.body)}),
            );
            return;
        }
        // the connection may stay usable: a complete handshake on it must work
        if case.follow_up && !resp.wants_close() && conn.buf.is_empty() {
            let mut c2 = case.clone();
            c2.kind = Kind::Complete { conn: Sp::Plain, upg: Sp::Plain };
            if c2.payload.len() > 4096 {
                c2.payload.truncate(4096);
                let content = c2.pay_class.split('/').nth(1).unwrap_or("").to_string();
                c2.pay_class = format!("126-4K/{content}");
            }
            self.run_accept(&c2, reg(&mut rng), reg(&mut rng), false, Some(conn));
        }
    }

    /// many upgrades open at once on this shard (all shards run theirs at the
    /// same time), traffic interleaved across the connections
    fn herd(&mut self, round: u64, k: usize) {
        let mut rng = Rng::derive(self.seed, "c20-herd", self.shard, round);
        struct Member {
            conn: Conn,
            case: Case,
            built: Built,
            w: Value,
            sent: Vec<u8>,
            alive: bool,
            sp: (Sp, Sp),
            lines: (Vec<Vec<u8>>, Vec<Vec<u8>>),
        }
        let mut ms: Vec<Member> = vec![];
        for j in 0..k {
            let mut case = gen_case(self.seed ^ 0x4845_5244, self.shard, round * 10_000 + j as u64, true);
            case.kind = Kind::Complete { conn: Sp::Plain, upg: Sp::Plain };
            case.flow = Flow::Echo(Early::None);
            case.k = (j as u8).wrapping_mul(37).wrapping_add(round as u8);
            let conn_sp = REGULAR[rng.usize(REGULAR.len())];
            let upg_sp = REGULAR[rng.usize(REGULAR.len())];
            let cl = render_list(conn_sp, "Upgrade", &CONN_OTHERS, &mut rng);
            let ul = render_list(upg_sp, "websocket", &UPG_OTHERS, &mut rng);
            let lines = (cl.clone(), ul.clone());
            let built = build(&case, &mut rng, "GET", Some(cl), Some(ul), Some("13"), Some(&case.key), 0, None, 0);
            let Some(mut conn) = self.connect() else { continue };
            if let Err(e) = conn.send(&built.bytes) {
                self.rep.inconclusive(&format!("send-failed:{}", e.kind()));
                continue;
            }
            let mut w = self.wit(&case, &built);
            w["herd"] = json!({"round": round, "member": j, "size": k});
            ms.push(Member {
                conn, case, built, w, sent: vec![], alive: true,
                sp: (conn_sp, upg_sp), lines,
            });
        }
        // all handshakes are in flight; now collect the answers
        for m in ms.iter_mut() {
            match m.conn.read_response_within(false, self.wd) {
                Ok(resp) if resp.status == 101 => {
                    self.rep.count("handshakes_accepted", 1);
                    self.expect.insert(m.built.uid, Expect {
                        accepted: true, enter_s: m.built.enter_s.clone(), xor: m.built.xor,
                        what: String::new(), witness: m.w.clone(),
                    });
                    let (key, w) = (m.case.key.clone(), m.w.clone());
                    self.judge_101(&resp, &key, &w);
                }
                Ok(resp) => {
                    self.rep.count("handshakes_refused", 1);
                    let (sig, attribution) =
                        self.refusal_sig(m.sp.0, m.sp.1, &m.lines.0, &m.lines.1, m.case.key_class);
                    self.rep.violate(
                        sig,
                        json!({"case": m.w, "status": resp.status, "body": esc(&resp.body),
                               "attribution": attribution}),
                    );
                    m.alive = false;
                }
                Err(e) => {
                    match e {
                        ReadErr::Timeout(_) | ReadErr::Io(_) => self.rep.inconclusive("herd-handshake-read"),
                        _ => self.rep.violate(
                            format!("C20:handshake-got-no-valid-http-response:{}", readerr_kind(&e)),
                            json!({"case": m.w, "read": readerr_json(&e)}),
                        ),
                    }
                    m.alive = false;
                }
            }
        }
        let open = ms.iter().filter(|m| m.alive).count() as u64;
        let prev = self.rep.extra.get("max_open_upgrades_per_shard").and_then(|v| v.as_u64()).unwrap_or(0);
        self.rep.extra.insert("max_open_upgrades_per_shard".into(), json!(prev.max(open)));
        let rounds = 3 + rng.usize(4);
        for _ in 0..rounds {
            let mut order: Vec<usize> = (0..ms.len()).collect();
            rng.shuffle(&mut order);
            let mut lens = vec![0usize; ms.len()];
            for &i in &order {
                let m = &mut ms[i];
                if !m.alive {
                    continue;
                }
                let n = 1 + rng.usize(2048);
                let chunk = rng.bytes(n);
                if m.conn.send(&chunk).is_err() {
                    self.rep.inconclusive("herd-send");
                    m.alive = false;
                    continue;
                }
                m.sent.extend_from_slice(&chunk);
                lens[i] = n;
            }
            rng.shuffle(&mut order);
            for &i in &order {
                let m = &mut ms[i];
                if !m.alive || lens[i] == 0 {
                    continue;
                }
                let n = lens[i];
                let xor = m.built.xor;
                match m.conn.read_exact_raw(n, self.wd_data) {
                    Ok(got) => {
                        self.rep.count("bytes_echoed", n as u64);
                        let want: Vec<u8> =
                            m.sent[m.sent.len() - n..].iter().map(|b| b ^ xor).collect();
                        if got != want {
                            let d = first_diff(&got, &want);
                            self.rep.violate(
                                "C20:post-upgrade-bytes-altered:concurrent",
                                json!({"case": m.w, "first_diff": d, "xor_expected": xor,
                                       "xor_at_diff": d.map(|i| got[i] ^ m.sent[m.sent.len() - n + i])}),
                            );
                            m.alive = false;
                        }
                    }
                    Err(e) => {
                        m.alive = false;
                        match e {
                            ReadErr::Timeout(_) | ReadErr::Io(_) => {
                                self.stalls += 1;
                                self.rep.inconclusive("watchdog:echo:concurrent");
                            }
                            _ => self.rep.violate(
                                format!("C20:post-upgrade-bytes-lost:concurrent:echo-{}", readerr_kind(&e)),
                                json!({"case": m.w, "read": readerr_json(&e)}),
                            ),
                        }
                    }
                }
            }
        }
        let log = self.srv.as_ref().map(|r| r.ctx.log.clone());
        for m in ms.iter_mut() {
            if !m.alive {
                continue;
            }
            m.conn.shutdown_write();
            let (rest, how) = m.conn.read_to_eof(self.wd);
            if !rest.is_empty() {
                self.rep.violate(
                    "C20:extra-bytes-after-stream:concurrent",
                    json!({"case": m.w, "extra_len": rest.len()}),
                );
                continue;
            }
            if how == "timeout" {
                self.rep.inconclusive("watchdog:eof-after-half-close-not-seen");
                continue;
            }
            let uid = m.built.uid;
            let ev = log.as_ref().and_then(|l| {
                l.wait_for(|e| e.uid == uid && matches!(e.kind, "CH_EOF" | "CH_RDERR" | "CH_WRERR"), self.wd)
            });
            match ev {
                None => self.rep.inconclusive("watchdog:CH_EOF"),
                Some(e) => {
                    let want_h = format!("{:016x}", fnv_step(FNV_OFF, &m.sent));
                    self.rep.eval(format!(
                        "accept|concurrent-herd|ep:{}",
                        if m.case.param_ep { "param" } else { "plain" },
                    ));
                    self.rep.count("bytes_client_to_server", m.sent.len() as u64);
                    if e.kind != "CH_EOF" || e.n != m.sent.len() as i64 || e.s != want_h {
                        self.rep.violate(
                            "C20:handler-received-different-bytes:concurrent",
                            json!({"case": m.w, "event": e.json(), "sent_len": m.sent.len(), "sent_fnv": want_h}),
                        );
                    }
                }
            }
        }
    }
}

fn hdrs(r: &Resp) -> Value {
    Value::Array(
        r.headers
            .iter()
            .map(|(n, v)| json!(format!("{n}: {}", String::from_utf8_lossy(v))))
            .collect(),
    )
}

pub fn rule() -> &'static str {
    "one case = one TCP connection carrying one handshake written byte by byte by the harness \
     (generated from (seed, shard, index)); class = verdict demanded (accept | refuse | unconstrained) \
     | Connection spelling | Upgrade spelling | header-name case | key class | endpoint | flow \
     (echo/server-first/server-close/pingpong/half-close x payload coalesced with the handshake / split / after the 101) \
     | payload size class; refusals: class = subset of {C,U,V,K} missing-or-wrong with the concrete defect"
}

pub fn run_shard(seed: u64, shard: u64, quick: bool, cases: u64, herd_k: usize) -> Report {
    let mut sh = Shard {
        rep: Report::new("C20", "c20-handshake", rule()),
        seed,
        shard,
        quick,
        srv: None,
        expect: HashMap::new(),
        served: 0,
        wd: Duration::from_secs(30),
        wd_data: Duration::from_secs(60),
        stalls: 0,
    };
    let rotate_every = 1500;
    for idx in 0..cases {
        if sh.stalls > 3 {
            // a tree on which streams stall would otherwise cost one
            // watchdog period per case
            sh.rep.inconclusive("aborted:repeated-watchdog-expiries");
            sh.rep.count("cases_not_run_after_abort", cases - idx);
            break;
        }
        if idx % rotate_every == 0 {
            if idx > 0 {
                sh.rotate();
            }
            // a herd on every fresh server
            sh.herd(idx / rotate_every, herd_k);
        }
        let case = gen_case(seed, shard, idx, quick);
        match case.kind.clone() {
            Kind::Complete { conn, upg } => sh.run_accept(&case, conn, upg, false, None),
            Kind::Unconstrained { conn, upg } => sh.run_accept(&case, conn, upg, true, None),
            Kind::Defect { .. } | Kind::WrongMethod(_) => sh.run_refuse(&case),
        }
    }
    sh.rotate();
    sh.rep
}
