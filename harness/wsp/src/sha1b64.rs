//! Own SHA-1 (FIPS 180-4) and base64 (RFC 4648 §4, standard alphabet, padded)
//! for the RFC 6455 §4.2.2 accept digest.  Deliberately NOT the `sha1` /
//! `base64` crates dropshot itself uses: the oracle must be independent.

pub fn sha1(data: &[u8]) -> [u8; 20] {
    let mut h: [u32; 5] =
        [0x6745_2301, 0xEFCD_AB89, 0x98BA_DCFE, 0x1032_5476, 0xC3D2_E1F0];
    let ml_bits: u64 = (data.len() as u64).wrapping_mul(8);
    let mut msg = data.to_vec();
    msg.push(0x80);
    while msg.len() % 64 != 56 {
        msg.push(0);
    }
    msg.extend_from_slice(&ml_bits.to_be_bytes());
    for block in msg.chunks_exact(64) {
        let mut w = [0u32; 80];
        for (i, word) in block.chunks_exact(4).enumerate() {
            w[i] = u32::from_be_bytes([word[0], word[1], word[2], word[3]]);
        }
        for i in 16..80 {
            w[i] = (w[i - 3] ^ w[i - 8] ^ w[i - 14] ^ w[i - 16]).rotate_left(1);
        }
        let (mut a, mut b, mut c, mut d, mut e) = (h[0], h[1], h[2], h[3], h[4]);
        for (i, wi) in w.iter().enumerate() {
            let (f, k) = match i {
                0..=19 => ((b & c) | (!b & d), 0x5A82_7999u32),
                20..=39 => (b ^ c ^ d, 0x6ED9_EBA1),
                40..=59 => ((b & c) | (b & d) | (c & d), 0x8F1B_BCDC),
                _ => (b ^ c ^ d, 0xCA62_C1D6),
            };
            let t = a
                .rotate_left(5)
                .wrapping_add(f)
                .wrapping_add(e)
                .wrapping_add(k)
                .wrapping_add(*wi);
            e = d;
            d = c;
            c = b.rotate_left(30);
            b = a;
            a = t;
        }
        h[0] = h[0].wrapping_add(a);
        h[1] = h[1].wrapping_add(b);
        h[2] = h[2].wrapping_add(c);
        h[3] = h[3].wrapping_add(d);
        h[4] = h[4].wrapping_add(e);
    }
    let mut out = [0u8; 20];
    for (i, v) in h.iter().enumerate() {
        out[i * 4..i * 4 + 4].copy_from_slice(&v.to_be_bytes());
    }
    out
}

const B64: &[u8; 64] =
    b"ABCDEFGHIJKLMNOPQRSTUVWXYZabcdefghijklmnopqrstuvwxyz0123456789+/";

pub fn b64(data: &[u8]) -> String {
    let mut out = String::with_capacity(data.len().div_ceil(3) * 4);
    for ch in data.chunks(3) {
        let b0 = ch[0] as u32;
        let b1 = *ch.get(1).unwrap_or(&0) as u32;
        let b2 = *ch.get(2).unwrap_or(&0) as u32;
        let n = (b0 << 16) | (b1 << 8) | b2;
        out.push(B64[((n >> 18) & 63) as usize] as char);
        out.push(B64[((n >> 12) & 63) as usize] as char);
        if ch.len() > 1 {
            out.push(B64[((n >> 6) & 63) as usize] as char);
        } else {
            out.push('=');
        }
        if ch.len() > 2 {
            out.push(B64[(n & 63) as usize] as char);
        } else {
            out.push('=');
        }
    }
    out
}

/// RFC 6455 §4.2.2 item 5.4: base64(SHA-1(key ++ GUID)), key exactly as sent
pub fn ws_accept(key_as_sent: &[u8]) -> String {
    let mut v = key_as_sent.to_vec();
    v.extend_from_slice(b"258EAFA5-E914-47DA-95CA-C5AB0DC85B11");
    b64(&sha1(&v))
}

fn hex(b: &[u8]) -> String {
    b.iter().map(|x| format!("{x:02x}")).collect()
}

/// Known-answer self test (FIPS 180 examples, RFC 4648 §10, RFC 6455 §1.3).
/// An oracle that is itself wrong must never produce verdicts.
pub fn self_test() -> Result<(), String> {
    let kat: [(&[u8], &str); 4] = [
        (b"", "da39a3ee5e6b4b0d3255bfef95601890afd80709"),
        (b"abc", "a9993e364706816aba3e25717850c26c9cd0d89d"),
        (
            b"abcdbcdecdefdefgefghfghighijhijkijkljklmklmnlmnomnopnopq",
            "84983e441c3bd26ebaae4aa1f95129e5e54670f1",
        ),
        (
            b"The quick brown fox jumps over the lazy dog",
            "2fd4e1c67a2d28fced849ee1bb76e7391b93eb12",
        ),
    ];
    for (m, want) in kat {
        let got = hex(&sha1(m));
        if got != want {
            return Err(format!("sha1({m:?}) = {got}, want {want}"));
        }
    }
    let million = vec![b'a'; 1_000_000];
    if hex(&sha1(&million)) != "34aa973cd4c4daa4f61eeb2bdbad27316534016f" {
        return Err("sha1(10^6 x 'a') wrong".into());
    }
    // lengths around the padding boundary against each other is not possible
    // without a second implementation; 55/56/63/64-byte known answers:
    let kat_len: [(usize, &str); 4] = [
        (55, "c1c8bbdc22796e28c0e15163d20899b65621d65a"),
        (56, "c2db330f6083854c99d4b5bfb6e8f29f201be699"),
        (63, "03f09f5b158a7a8cdad920bddc29b81c18a551f5"),
        (64, "0098ba824b5c16427bd7a1122a5a442a25ec644d"),
    ];
    for (n, want) in kat_len {
        let got = hex(&sha1(&vec![b'a'; n]));
        if got != want {
            return Err(format!("sha1('a' x {n}) = {got}, want {want}"));
        }
    }
    let b: [(&[u8], &str); 7] = [
        (b"", ""),
        (b"f", "Zg=="),
        (b"fo", "Zm8="),
        (b"foo", "Zm9v"),
        (b"foob", "Zm9vYg=="),
        (b"fooba", "Zm9vYmE="),
        (b"foobar", "Zm9vYmFy"),
    ];
    for (m, want) in b {
        if b64(m) != want {
            return Err(format!("b64({m:?}) = {}, want {want}", b64(m)));
        }
    }
    if b64(&[0xfb, 0xff, 0xfe]) != "+//+" {
        return Err("b64 alphabet".into());
    }
    if ws_accept(b"dGhlIHNhbXBsZSBub25jZQ==") != "s3pPLMBiTxaQ9kYGzzhZRbK+xOo=" {
        return Err("RFC 6455 sample digest".into());
    }
    Ok(())
}
