//! C15 — following next-page tokens visits every item exactly once.
//!
//! Paginated endpoints written after dropshot/examples/pagination-basic.rs,
//! pagination-multiple-sorts.rs and the "/required" endpoint of the pagination
//! integration test, over in-memory sorted collections whose size is chosen by
//! a path parameter.  A raw client scans each (collection size, limit, order)
//! scenario from the first page until no token is returned; the oracle knows
//! the collection (it is a pure function of its size) and the property text.

use dropshot::PaginationOrder::{Ascending, Descending};
use dropshot::{
    endpoint, ApiDescription, EmptyScanParams, HandlerTaskMode, HttpError,
    HttpResponseOk, PaginationOrder, PaginationParams, Path, Query,
    RequestContext, ResultsPage, WhichPage,
};
use schemars::JsonSchema;
use serde::{Deserialize, Serialize};
use serde_json::{json, Value};
use std::collections::{BTreeMap, HashMap, HashSet};
use std::ops::Bound;
use std::sync::atomic::{AtomicU64, Ordering};
use std::sync::{Arc, Mutex, OnceLock, Weak};
use std::time::Duration;
use vmon::client::{pct_encode_with, Conn, ReadErr, Req};
use vmon::evlog::EvLog;
use vmon::report::Report;
use vmon::rng::Rng;
use vmon::srv::{self, Ctx, Running, SrvCfg, C};

// ------------------------------------------------------------ the collections

/// Item returned by the paginated endpoints; `id` and `name` are both unique.
#[derive(Clone, JsonSchema, Serialize)]
struct Project {
    id: u64,
    name: String,
}

/// item number `i` of every collection (a collection of size N holds items
/// 0..N); ids cover the whole u64 range, names have varying length, digits
/// whose string order differs from numeric order, quotes, blanks, non-ASCII
pub fn item_id(i: u64) -> u64 {
    i.wrapping_add(1).wrapping_mul(0x9E37_79B9_7F4A_7C15)
}

pub fn item(i: u64) -> (u64, String) {
    let id = item_id(i);
    let s = (i as u32).wrapping_mul(2_654_435_761) ^ 0x5bd1_e995;
    let name = match s % 7 {
        0 => format!("project{i:05}"),
        1 => format!("{s:x}-proj"),
        2 => format!("Pr\"oj {s}"),
        3 => format!("пр-{s}"),
        4 => format!("p\\{s}/&=+%"),
        5 => format!("{s}"),
        _ => format!("Z{}{s}", "z".repeat((s % 40) as usize)),
    };
    (id, name)
}

/// Collections addressed by a key >= LONG_BASE form the tagged class
/// "long-names": size key - LONG_BASE, and every item whose number is a
/// multiple of 5 carries a name of >= 400 bytes.  A page selector holding such
/// a name cannot be serialised into a token (documented 512-byte limit), so a
/// by-name scan whose page ENDS on such an item must be aborted loudly by the
/// server — never answered with a token-less non-empty page.
const LONG_BASE: usize = 1_000_000;
const LONG_NAME_MIN: usize = 400;

fn is_long_item(i: u64) -> bool {
    i % 5 == 0
}

/// item `i` of the collection addressed by `key`
pub fn item_of(key: usize, i: u64) -> (u64, String) {
    let (id, mut name) = item(i);
    if key >= LONG_BASE && is_long_item(i) {
        name.push('~');
        let fill = ["x", "long-", "é", "Q\""][(i / 5 % 4) as usize];
        while name.len() < LONG_NAME_MIN + (i as usize % 64) {
            name.push_str(fill);
        }
    }
    (id, name)
}

fn size_of_key(key: usize) -> usize {
    if key >= LONG_BASE {
        key - LONG_BASE
    } else {
        key
    }
}

struct Coll {
    by_name: BTreeMap<String, Arc<Project>>,
    by_id: BTreeMap<u64, Arc<Project>>,
}

impl Coll {
    fn new(key: usize) -> Coll {
        let mut c = Coll { by_name: BTreeMap::new(), by_id: BTreeMap::new() };
        for i in 0..size_of_key(key) as u64 {
            let (id, name) = item_of(key, i);
            let p = Arc::new(Project { id, name: name.clone() });
            c.by_name.insert(name, p.clone());
            c.by_id.insert(id, p);
        }
        c
    }
}

fn registry() -> &'static Mutex<HashMap<usize, Weak<Coll>>> {
    static R: OnceLock<Mutex<HashMap<usize, Weak<Coll>>>> = OnceLock::new();
    R.get_or_init(|| Mutex::new(HashMap::new()))
}

/// the collection of size n, alive as long as somebody holds the Arc
fn acquire(n: usize) -> Arc<Coll> {
    let mut g = registry().lock().unwrap();
    if let Some(c) = g.get(&n).and_then(|w| w.upgrade()) {
        return c;
    }
    let c = Arc::new(Coll::new(n));
    g.insert(n, Arc::downgrade(&c));
    if g.len() > 256 {
        g.retain(|_, w| w.strong_count() > 0);
    }
    c
}

fn lookup(n: usize) -> Result<Arc<Coll>, HttpError> {
    registry()
        .lock()
        .unwrap()
        .get(&n)
        .and_then(|w| w.upgrade())
        .ok_or_else(|| HttpError::for_not_found(None, format!("no collection {n}")))
}

static PAGES_SERVED: AtomicU64 = AtomicU64::new(0);

#[derive(Deserialize, JsonSchema)]
struct CollPath {
    n: usize,
}

// ------------------------------------------- endpoint after pagination-basic.rs

#[derive(Deserialize, JsonSchema, Serialize)]
struct ProjectPage {
    name: String,
}

#[endpoint {
    method = GET,
    path = "/c/{n}/basic",
}]
async fn list_basic(
    rqctx: RequestContext<C>,
    path: Path<CollPath>,
    query: Query<PaginationParams<EmptyScanParams, ProjectPage>>,
) -> Result<HttpResponseOk<ResultsPage<Project>>, HttpError> {
    let pag_params = query.into_inner();
    let limit = rqctx.page_limit(&pag_params)?.get() as usize;
    let coll = lookup(path.into_inner().n)?;
    let tree = &coll.by_name;
    let projects = match &pag_params.page {
        WhichPage::First(..) => {
            tree.iter().take(limit).map(|(_, p)| (**p).clone()).collect()
        }
        WhichPage::Next(ProjectPage { name: last_seen }) => tree
            .range((Bound::Excluded(last_seen.clone()), Bound::Unbounded))
            .take(limit)
            .map(|(_, p)| (**p).clone())
            .collect(),
    };
    PAGES_SERVED.fetch_add(1, Ordering::Relaxed);
    Ok(HttpResponseOk(ResultsPage::new(
        projects,
        &EmptyScanParams {},
        |p: &Project, _| ProjectPage { name: p.name.clone() },
    )?))
}

// ---------------------------------- endpoint after pagination-multiple-sorts.rs

#[derive(Clone, Deserialize, JsonSchema, Serialize)]
struct ProjectScanParams {
    #[serde(default = "default_project_sort")]
    sort: ProjectSort,
}

fn default_project_sort() -> ProjectSort {
    ProjectSort::ByNameAscending
}

#[derive(Deserialize, Clone, JsonSchema, Serialize)]
#[serde(rename_all = "kebab-case")]
enum ProjectSort {
    ByNameAscending,
    ByNameDescending,
    ByIdAscending,
    ByIdDescending,
}

#[derive(Deserialize, Serialize)]
#[serde(rename_all = "kebab-case")]
enum ProjectScanPageSelector {
    Name(PaginationOrder, String),
    Id(PaginationOrder, u64),
}

fn page_selector_for(
    last_item: &Project,
    scan_params: &ProjectScanParams,
) -> ProjectScanPageSelector {
    match scan_params.sort {
        ProjectSort::ByNameAscending => {
            ProjectScanPageSelector::Name(Ascending, last_item.name.clone())
        }
        ProjectSort::ByNameDescending => {
            ProjectScanPageSelector::Name(Descending, last_item.name.clone())
        }
        ProjectSort::ByIdAscending => {
            ProjectScanPageSelector::Id(Ascending, last_item.id)
        }
        ProjectSort::ByIdDescending => {
            ProjectScanPageSelector::Id(Descending, last_item.id)
        }
    }
}

type ProjectIter<'a> = Box<dyn Iterator<Item = Arc<Project>> + Send + 'a>;

impl Coll {
    fn make_iter<'a, K, I>(&'a self, iter: I) -> ProjectIter<'a>
    where
        I: Iterator<Item = (K, &'a Arc<Project>)> + Send + 'a,
    {
        Box::new(iter.map(|(_, project)| Arc::clone(project)))
    }
    fn iter_by_name_asc(&self) -> ProjectIter {
        self.make_iter(self.by_name.iter())
    }
    fn iter_by_name_desc(&self) -> ProjectIter {
        self.make_iter(self.by_name.iter().rev())
    }
    fn iter_by_name_asc_from(&self, last_seen: &str) -> ProjectIter {
        self.make_iter(
            self.by_name
                .range((Bound::Excluded(last_seen.to_string()), Bound::Unbounded)),
        )
    }
    fn iter_by_name_desc_from(&self, last_seen: &str) -> ProjectIter {
        self.make_iter(
            self.by_name
                .range((Bound::Unbounded, Bound::Excluded(last_seen.to_string())))
                .rev(),
        )
    }
    fn iter_by_id_asc(&self) -> ProjectIter {
        self.make_iter(self.by_id.iter())
    }
    fn iter_by_id_desc(&self) -> ProjectIter {
        self.make_iter(self.by_id.iter().rev())
    }
    fn iter_by_id_asc_from(&self, last_seen: u64) -> ProjectIter {
        self.make_iter(
            self.by_id.range((Bound::Excluded(last_seen), Bound::Unbounded)),
        )
    }
    fn iter_by_id_desc_from(&self, last_seen: u64) -> ProjectIter {
        self.make_iter(
            self.by_id.range((Bound::Unbounded, Bound::Excluded(last_seen))).rev(),
        )
    }
}

#[endpoint {
    method = GET,
    path = "/c/{n}/sorts",
}]
async fn list_sorts(
    rqctx: RequestContext<C>,
    path: Path<CollPath>,
    query: Query<PaginationParams<ProjectScanParams, ProjectScanPageSelector>>,
) -> Result<HttpResponseOk<ResultsPage<Project>>, HttpError> {
    let pag_params = query.into_inner();
    let limit = rqctx.page_limit(&pag_params)?.get() as usize;
    let data = lookup(path.into_inner().n)?;
    let scan_params = ProjectScanParams {
        sort: match &pag_params.page {
            WhichPage::First(ProjectScanParams { sort }) => sort.clone(),
            WhichPage::Next(ProjectScanPageSelector::Name(Ascending, ..)) => {
                ProjectSort::ByNameAscending
            }
            WhichPage::Next(ProjectScanPageSelector::Name(Descending, ..)) => {
                ProjectSort::ByNameDescending
            }
            WhichPage::Next(ProjectScanPageSelector::Id(Ascending, ..)) => {
                ProjectSort::ByIdAscending
            }
            WhichPage::Next(ProjectScanPageSelector::Id(Descending, ..)) => {
                ProjectSort::ByIdDescending
            }
        },
    };
    let projects: Vec<Project> = {
        let iter = match &pag_params.page {
            WhichPage::First(..) => match scan_params.sort {
                ProjectSort::ByNameAscending => data.iter_by_name_asc(),
                ProjectSort::ByNameDescending => data.iter_by_name_desc(),
                ProjectSort::ByIdAscending => data.iter_by_id_asc(),
                ProjectSort::ByIdDescending => data.iter_by_id_desc(),
            },
            WhichPage::Next(ProjectScanPageSelector::Name(Ascending, name)) => {
                data.iter_by_name_asc_from(name)
            }
            WhichPage::Next(ProjectScanPageSelector::Name(Descending, name)) => {
                data.iter_by_name_desc_from(name)
            }
            WhichPage::Next(ProjectScanPageSelector::Id(Ascending, id)) => {
                data.iter_by_id_asc_from(*id)
            }
            WhichPage::Next(ProjectScanPageSelector::Id(Descending, id)) => {
                data.iter_by_id_desc_from(*id)
            }
        };
        iter.take(limit).map(|p| (*p).clone()).collect()
    };
    PAGES_SERVED.fetch_add(1, Ordering::Relaxed);
    Ok(HttpResponseOk(ResultsPage::new(
        projects,
        &scan_params,
        page_selector_for,
    )?))
}

// ------------------ endpoint with required scan parameters (test "/required")

#[derive(Clone, Deserialize, JsonSchema)]
struct ReqScanParams {
    order: PaginationOrder,
    modulus: u32,
    residue: u32,
}

#[derive(Deserialize, Serialize)]
struct ReqPageSelector {
    order: PaginationOrder,
    modulus: u32,
    residue: u32,
    last_seen: u64,
}

/// items whose id ≡ residue (mod modulus), by id in the requested order
#[endpoint {
    method = GET,
    path = "/c/{n}/required",
}]
async fn list_required(
    rqctx: RequestContext<C>,
    path: Path<CollPath>,
    query: Query<PaginationParams<ReqScanParams, ReqPageSelector>>,
) -> Result<HttpResponseOk<ResultsPage<Project>>, HttpError> {
    let pag_params = query.into_inner();
    let limit = rqctx.page_limit(&pag_params)?.get() as usize;
    let data = lookup(path.into_inner().n)?;
    let (scan, last_seen) = match &pag_params.page {
        WhichPage::First(p) => (p.clone(), None),
        WhichPage::Next(ReqPageSelector { order, modulus, residue, last_seen }) => (
            ReqScanParams { order: *order, modulus: *modulus, residue: *residue },
            Some(*last_seen),
        ),
    };
    if scan.modulus == 0 {
        return Err(HttpError::for_bad_request(
            None,
            String::from("modulus must not be zero"),
        ));
    }
    let projects: Vec<Project> = {
        let iter = match (scan.order, last_seen) {
            (Ascending, None) => data.iter_by_id_asc(),
            (Descending, None) => data.iter_by_id_desc(),
            (Ascending, Some(id)) => data.iter_by_id_asc_from(id),
            (Descending, Some(id)) => data.iter_by_id_desc_from(id),
        };
        let (m, r) = (u64::from(scan.modulus), u64::from(scan.residue));
        iter.filter(|p| p.id % m == r).take(limit).map(|p| (*p).clone()).collect()
    };
    PAGES_SERVED.fetch_add(1, Ordering::Relaxed);
    Ok(HttpResponseOk(ResultsPage::new(
        projects,
        &scan,
        |p: &Project, s: &ReqScanParams| ReqPageSelector {
            order: s.order,
            modulus: s.modulus,
            residue: s.residue,
            last_seen: p.id,
        },
    )?))
}

// ------------- endpoint whose markers are 128-bit integers (tagged "wide-ids")
//
// Same shape as pagination-multiple-sorts.rs; the items are keyed by a u128
// id (straddling u64::MAX, near u128::MAX, random 128-bit) and by an i128
// balance (straddling i64::MIN, near both i128 ends), and the page selector
// carries that marker.

#[derive(Clone, JsonSchema, Serialize)]
struct WideItem {
    id: u128,
    name: String,
    bal: i128,
}

/// item `i` of every wide collection: (id, balance); both unique
pub fn wide_item(i: u64) -> (u128, i128) {
    let max64 = u128::from(u64::MAX);
    let min64 = i128::from(i64::MIN);
    let i1 = u128::from(i);
    match i {
        // u64::MAX-6 ..= u64::MAX+16  /  i64::MIN+6 ..= i64::MIN-16 (downwards)
        0..=22 => (max64 - 6 + i1, min64 + 6 - i128::from(i as i64)),
        23..=25 => (u128::MAX - (i1 - 23), i128::MIN + i128::from(i as i64 - 23)),
        26..=28 => (i1 - 26, i128::MAX - i128::from(i as i64 - 26)),
        _ => {
            let x = (i1 + 1).wrapping_mul(0x9E37_79B9_7F4A_7C15_F39C_C060_5CED_C835);
            (x, x.rotate_left(64) as i128)
        }
    }
}

fn wide_name(id: u128, bal: i128) -> String {
    format!("w{id:x}/{bal}")
}

struct WideColl {
    by_id: BTreeMap<u128, Arc<WideItem>>,
    by_bal: BTreeMap<i128, Arc<WideItem>>,
}

impl WideColl {
    fn new(n: usize) -> WideColl {
        let mut c = WideColl { by_id: BTreeMap::new(), by_bal: BTreeMap::new() };
        for i in 0..n as u64 {
            let (id, bal) = wide_item(i);
            let p = Arc::new(WideItem { id, name: wide_name(id, bal), bal });
            c.by_id.insert(id, p.clone());
            c.by_bal.insert(bal, p);
        }
        c
    }
}

fn wide_registry() -> &'static Mutex<HashMap<usize, Weak<WideColl>>> {
    static R: OnceLock<Mutex<HashMap<usize, Weak<WideColl>>>> = OnceLock::new();
    R.get_or_init(|| Mutex::new(HashMap::new()))
}

fn acquire_wide(n: usize) -> Arc<WideColl> {
    let mut g = wide_registry().lock().unwrap();
    if let Some(c) = g.get(&n).and_then(|w| w.upgrade()) {
        return c;
    }
    let c = Arc::new(WideColl::new(n));
    g.insert(n, Arc::downgrade(&c));
    if g.len() > 256 {
        g.retain(|_, w| w.strong_count() > 0);
    }
    c
}

#[derive(Clone, Deserialize, JsonSchema, Serialize)]
struct WideScanParams {
    #[serde(default = "default_wide_sort")]
    sort: WideSort,
}

fn default_wide_sort() -> WideSort {
    WideSort::ByIdAscending
}

#[derive(Deserialize, Clone, JsonSchema, Serialize)]
#[serde(rename_all = "kebab-case")]
enum WideSort {
    ByIdAscending,
    ByIdDescending,
    ByBalAscending,
    ByBalDescending,
}

#[derive(Deserialize, Serialize)]
#[serde(rename_all = "kebab-case")]
enum WidePageSelector {
    Id(PaginationOrder, u128),
    Bal(PaginationOrder, i128),
}

fn wide_selector_for(last: &WideItem, scan: &WideScanParams) -> WidePageSelector {
    match scan.sort {
        WideSort::ByIdAscending => WidePageSelector::Id(Ascending, last.id),
        WideSort::ByIdDescending => WidePageSelector::Id(Descending, last.id),
        WideSort::ByBalAscending => WidePageSelector::Bal(Ascending, last.bal),
        WideSort::ByBalDescending => WidePageSelector::Bal(Descending, last.bal),
    }
}

#[endpoint {
    method = GET,
    path = "/c/{n}/wide",
}]
async fn list_wide(
    rqctx: RequestContext<C>,
    path: Path<CollPath>,
    query: Query<PaginationParams<WideScanParams, WidePageSelector>>,
) -> Result<HttpResponseOk<ResultsPage<WideItem>>, HttpError> {
    let pag_params = query.into_inner();
    let limit = rqctx.page_limit(&pag_params)?.get() as usize;
    let n = path.into_inner().n;
    let data = wide_registry()
        .lock()
        .unwrap()
        .get(&n)
        .and_then(|w| w.upgrade())
        .ok_or_else(|| HttpError::for_not_found(None, format!("no wide collection {n}")))?;
    let scan_params = WideScanParams {
        sort: match &pag_params.page {
            WhichPage::First(WideScanParams { sort }) => sort.clone(),
            WhichPage::Next(WidePageSelector::Id(Ascending, ..)) => WideSort::ByIdAscending,
            WhichPage::Next(WidePageSelector::Id(Descending, ..)) => WideSort::ByIdDescending,
            WhichPage::Next(WidePageSelector::Bal(Ascending, ..)) => WideSort::ByBalAscending,
            WhichPage::Next(WidePageSelector::Bal(Descending, ..)) => WideSort::ByBalDescending,
        },
    };
    let items: Vec<WideItem> = {
        let iter: Box<dyn Iterator<Item = &Arc<WideItem>> + Send> = match &pag_params.page {
            WhichPage::First(..) => match scan_params.sort {
                WideSort::ByIdAscending => Box::new(data.by_id.values()),
                WideSort::ByIdDescending => Box::new(data.by_id.values().rev()),
                WideSort::ByBalAscending => Box::new(data.by_bal.values()),
                WideSort::ByBalDescending => Box::new(data.by_bal.values().rev()),
            },
            WhichPage::Next(WidePageSelector::Id(Ascending, id)) => Box::new(
                data.by_id.range((Bound::Excluded(*id), Bound::Unbounded)).map(|(_, v)| v),
            ),
            WhichPage::Next(WidePageSelector::Id(Descending, id)) => Box::new(
                data.by_id.range((Bound::Unbounded, Bound::Excluded(*id))).rev().map(|(_, v)| v),
            ),
            WhichPage::Next(WidePageSelector::Bal(Ascending, b)) => Box::new(
                data.by_bal.range((Bound::Excluded(*b), Bound::Unbounded)).map(|(_, v)| v),
            ),
            WhichPage::Next(WidePageSelector::Bal(Descending, b)) => Box::new(
                data.by_bal.range((Bound::Unbounded, Bound::Excluded(*b))).rev().map(|(_, v)| v),
            ),
        };
        iter.take(limit).map(|p| (**p).clone()).collect()
    };
    PAGES_SERVED.fetch_add(1, Ordering::Relaxed);
    Ok(HttpResponseOk(ResultsPage::new(items, &scan_params, wide_selector_for)?))
}

fn api() -> ApiDescription<C> {
    let mut api = ApiDescription::new();
    api.register(list_basic).unwrap();
    api.register(list_sorts).unwrap();
    api.register(list_required).unwrap();
    api.register(list_wide).unwrap();
    api
}

// ------------------------------------------------------------------ scenarios

#[derive(Clone, Copy, Debug, PartialEq, Eq, PartialOrd, Ord)]
pub enum Order {
    /// pagination-basic: by name ascending, no scan parameters
    Basic,
    /// multiple-sorts with no `sort` given: the default (by name ascending)
    SortsDefault,
    NameAsc,
    NameDesc,
    IdAsc,
    IdDesc,
    /// required scan parameters: order + residue class filter
    ReqAsc(u32, u32),
    ReqDesc(u32, u32),
    /// 128-bit markers (wide collections only)
    WideDefault,
    WideIdAsc,
    WideIdDesc,
    WideBalAsc,
    WideBalDesc,
}

impl Order {
    fn wide(self) -> bool {
        matches!(
            self,
            Order::WideDefault
                | Order::WideIdAsc
                | Order::WideIdDesc
                | Order::WideBalAsc
                | Order::WideBalDesc
        )
    }
    fn tag(self) -> String {
        match self {
            Order::Basic => "basic-name-asc".into(),
            Order::SortsDefault => "sorts-default".into(),
            Order::NameAsc => "by-name-ascending".into(),
            Order::NameDesc => "by-name-descending".into(),
            Order::IdAsc => "by-id-ascending".into(),
            Order::IdDesc => "by-id-descending".into(),
            Order::ReqAsc(m, _) => format!("required-asc-mod{}", if m == 1 { "1" } else { "k" }),
            Order::ReqDesc(m, _) => format!("required-desc-mod{}", if m == 1 { "1" } else { "k" }),
            Order::WideDefault => "u128-default".into(),
            Order::WideIdAsc => "by-u128-ascending".into(),
            Order::WideIdDesc => "by-u128-descending".into(),
            Order::WideBalAsc => "by-i128-ascending".into(),
            Order::WideBalDesc => "by-i128-descending".into(),
        }
    }
    fn first_query(self) -> (&'static str, Vec<String>) {
        match self {
            Order::Basic => ("basic", vec![]),
            Order::SortsDefault => ("sorts", vec![]),
            Order::NameAsc => ("sorts", vec!["sort=by-name-ascending".into()]),
            Order::NameDesc => ("sorts", vec!["sort=by-name-descending".into()]),
            Order::IdAsc => ("sorts", vec!["sort=by-id-ascending".into()]),
            Order::IdDesc => ("sorts", vec!["sort=by-id-descending".into()]),
            Order::ReqAsc(m, r) => (
                "required",
                vec!["order=ascending".into(), format!("modulus={m}"), format!("residue={r}")],
            ),
            Order::ReqDesc(m, r) => (
                "required",
                vec!["order=descending".into(), format!("modulus={m}"), format!("residue={r}")],
            ),
            Order::WideDefault => ("wide", vec![]),
            Order::WideIdAsc => ("wide", vec!["sort=by-id-ascending".into()]),
            Order::WideIdDesc => ("wide", vec!["sort=by-id-descending".into()]),
            Order::WideBalAsc => ("wide", vec!["sort=by-bal-ascending".into()]),
            Order::WideBalDesc => ("wide", vec!["sort=by-bal-descending".into()]),
        }
    }
}

/// the collection of size n in the requested order — the model
/// item identity as the client sees it
type Id = u128;

fn expected(key: usize, order: Order) -> Vec<(Id, String)> {
    if order.wide() {
        let mut v: Vec<(u128, i128)> = (0..key as u64).map(wide_item).collect();
        match order {
            Order::WideDefault | Order::WideIdAsc => v.sort_by_key(|x| x.0),
            Order::WideIdDesc => v.sort_by_key(|x| std::cmp::Reverse(x.0)),
            Order::WideBalAsc => v.sort_by_key(|x| x.1),
            _ => v.sort_by_key(|x| std::cmp::Reverse(x.1)),
        }
        return v.into_iter().map(|(id, bal)| (id, wide_name(id, bal))).collect();
    }
    expected_narrow(key, order).into_iter().map(|(id, n)| (Id::from(id), n)).collect()
}

fn expected_narrow(key: usize, order: Order) -> Vec<(u64, String)> {
    static MASTER: OnceLock<Vec<(u64, String)>> = OnceLock::new();
    let master = MASTER.get_or_init(|| (0..=MAX_N as u64).map(item).collect());
    let n = size_of_key(key);
    let mut v: Vec<(u64, String)> = if key >= LONG_BASE {
        (0..n as u64).map(|i| item_of(key, i)).collect()
    } else if n <= master.len() {
        master[..n].to_vec()
    } else {
        (0..n as u64).map(item).collect()
    };
    match order {
        Order::Basic | Order::SortsDefault | Order::NameAsc => {
            v.sort_by(|a, b| a.1.as_bytes().cmp(b.1.as_bytes()))
        }
        Order::NameDesc => v.sort_by(|a, b| b.1.as_bytes().cmp(a.1.as_bytes())),
        Order::IdAsc => v.sort_by_key(|x| x.0),
        Order::IdDesc => v.sort_by_key(|x| std::cmp::Reverse(x.0)),
        Order::ReqAsc(m, r) => {
            v.retain(|x| x.0 % u64::from(m) == u64::from(r));
            v.sort_by_key(|x| x.0)
        }
        Order::ReqDesc(m, r) => {
            v.retain(|x| x.0 % u64::from(m) == u64::from(r));
            v.sort_by_key(|x| std::cmp::Reverse(x.0))
        }
        _ => unreachable!("wide orders are handled by expected()"),
    }
    v
}

#[derive(Clone, Debug)]
pub struct Scenario {
    pub n: usize,
    pub n_class: String,
    /// None = no limit parameter
    pub limit: Option<u64>,
    pub limit_class: String,
    pub order: Order,
    pub idx: u64,
    /// number of items the scan must yield
    pub total: usize,
    /// collection of the tagged "long-names" class
    pub long: bool,
}

fn matching(n: usize, order: Order) -> usize {
    match order {
        Order::ReqAsc(m, r) | Order::ReqDesc(m, r) if m > 1 => (0..n as u64)
            .filter(|i| item_id(*i) % u64::from(m) == u64::from(r))
            .count(),
        _ => n,
    }
}

const MAX_N: usize = 25_000;
const SERVER_MAX: u64 = 10_000;
const SERVER_DEFAULT: u64 = 100;

impl Scenario {
    fn eff(&self) -> u64 {
        match self.limit {
            None => SERVER_DEFAULT,
            Some(l) => l.min(SERVER_MAX),
        }
    }
    /// what goes into the path
    fn key(&self) -> usize {
        if self.long {
            self.n + LONG_BASE
        } else {
            self.n
        }
    }
    fn by_name(&self) -> bool {
        matches!(
            self.order,
            Order::Basic | Order::SortsDefault | Order::NameAsc | Order::NameDesc
        )
    }
    fn requests(&self) -> u64 {
        (self.total as u64).div_ceil(self.eff()) + 1
    }
    fn json(&self, seed: u64) -> Value {
        json!({"seed": seed, "scenario": self.idx, "n": self.n, "limit": self.limit,
               "effective_limit": self.eff(), "order": format!("{:?}", self.order),
               "n_class": self.n_class, "limit_class": self.limit_class,
               "collection_key": self.key(), "long_names": self.long})
    }
}

fn limits_for(n: usize) -> Vec<(Option<u64>, String)> {
    let n = n as u64;
    let mut v: Vec<(Option<u64>, String)> = vec![
        (None, "absent".into()),
        (Some(1), "1".into()),
        (Some(2), "2".into()),
        (Some(n), "N".into()),
        (Some(n + 1), "N+1".into()),
        (Some(100), "100".into()),
        (Some(9999), "9999".into()),
        (Some(10_000), "10000".into()),
        (Some(10_001), "10001".into()),
        (Some(1_000_000_000), "1e9".into()),
    ];
    if n >= 2 {
        v.push((Some(n - 1), "N-1".into()));
    }
    // a zero limit is not a legal request (C14's business)
    v.retain(|(l, _)| *l != Some(0));
    v
}

pub fn scenarios(seed: u64, quick: bool) -> Vec<Scenario> {
    let mut rng = Rng::derive(seed, "c15-scen", 0, 0);
    // every N up to 300 (exhaustive in N for the small collections)
    let mut ns: Vec<(usize, String)> = (0usize..=300)
        .map(|n| {
            let c = match n {
                0 | 1 | 2 | 99 | 100 | 101 => n.to_string(),
                3..=98 => "3..98".to_string(),
                _ => "102..300".to_string(),
            };
            (n, c)
        })
        .collect();
    if !quick {
        for n in [9999usize, 10_000, 10_001] {
            ns.push((n, n.to_string()));
        }
        for _ in 0..10 {
            ns.push((301 + rng.usize(25_000 - 300), "rand<=25000".into()));
        }
        ns.push((25_000, "25000".into()));
        ns.push((20_000, "2x-max".into()));
    }
    let orders = |rng: &mut Rng| {
        let m = *rng.pick(&[2u32, 3, 7]);
        let r = rng.below(u64::from(m)) as u32;
        vec![
            Order::Basic,
            Order::SortsDefault,
            Order::NameAsc,
            Order::NameDesc,
            Order::IdAsc,
            Order::IdDesc,
            Order::ReqAsc(1, 0),
            Order::ReqDesc(1, 0),
            Order::ReqAsc(m, r),
            Order::ReqDesc(m, r),
        ]
    };
    let max_requests: u64 = if quick { 400 } else { 5_100 };
    let mut out = vec![];
    for (n, nc) in &ns {
        for (l, lc) in limits_for(*n) {
            for o in orders(&mut rng) {
                let s = Scenario {
                    n: *n,
                    n_class: nc.clone(),
                    limit: l,
                    limit_class: lc.clone(),
                    order: o,
                    idx: 0,
                    total: matching(*n, o),
                    long: false,
                };
                // cap total work: limit=1 only for N <= 2000 etc.
                if s.requests() > max_requests || (l == Some(1) && *n > 2000) {
                    continue;
                }
                out.push(s);
            }
        }
    }
    if quick {
        // one large collection: the clamp at the server maximum
        for (l, lc) in [(Some(10_000u64), "10000"), (Some(10_001), "10001"), (Some(1_000_000_000), "1e9"), (None, "absent")] {
            for o in [Order::Basic, Order::NameDesc, Order::IdAsc, Order::ReqDesc(1, 0)] {
                out.push(Scenario {
                    n: 10_001,
                    n_class: "10001".into(),
                    limit: l,
                    limit_class: lc.into(),
                    order: o,
                    idx: 0,
                    total: matching(10_001, o),
                    long: false,
                });
            }
        }
    }
    // random (N, limit) pairs: N mod limit and N vs limit classes at large
    let extra = if quick { 3000 } else { 40_000 };
    for _ in 0..extra {
        let big = !quick && rng.chance(1, 3);
        let n = if big { rng.usize(25_001) } else { rng.usize(301) };
        let l = match rng.below(8) {
            0 => None,
            1 => Some(1 + rng.below(4)),
            2 => Some((n as u64).max(1)),
            3 => Some(1 + rng.below((2 * n as u64).max(1))),
            4 => {
                // a divisor-ish limit: N is a multiple of it
                let d = 1 + rng.below(40);
                Some(((n as u64) / d).max(1))
            }
            5 => Some(SERVER_MAX - 2 + rng.below(5)),
            6 => Some(1 + rng.below(u64::from(u32::MAX))),
            _ => Some(1 + rng.below(400)),
        };
        let os = orders(&mut rng);
        let o = os[rng.usize(os.len())];
        let s = Scenario {
            n,
            n_class: if n <= 300 { "rand<=300".into() } else { "rand<=25000".into() },
            limit: l,
            limit_class: match l {
                None => "absent".into(),
                Some(x) if x == n as u64 => "N".into(),
                Some(x) if x > SERVER_MAX => "rand>max".into(),
                Some(x) if x > n as u64 => "rand>N".into(),
                Some(x) if n as u64 % x == 0 => "rand|N".into(),
                Some(_) => "rand<N".into(),
            },
            order: o,
            idx: 0,
            total: matching(n, o),
            long: false,
        };
        // random triples: shorter scans than the grid allows (the long
        // small-limit scans of large collections are grid points already)
        if s.requests() > max_requests.min(1_500) {
            continue;
        }
        out.push(s);
    }
    // tagged class "long-names": collections holding items whose name cannot
    // be put into a page token; for some limits such an item ends a page, for
    // others it does not (by-id and filtered scans never depend on it)
    let long_ns: Vec<usize> = if quick {
        vec![1, 2, 3, 6, 11, 17, 26, 40, 61, 120]
    } else {
        (1..=64).chain([100, 101, 120, 199, 250, 300]).collect()
    };
    for n in long_ns {
        let mut ls: Vec<(Option<u64>, String)> = vec![
            (None, "absent".into()),
            (Some(1), "1".into()),
            (Some(2), "2".into()),
            (Some(3), "3".into()),
            (Some(4), "4".into()),
            (Some(5), "5".into()),
            (Some(7), "7".into()),
            (Some(n as u64), "N".into()),
            (Some(n as u64 + 1), "N+1".into()),
            (Some(10_001), "10001".into()),
        ];
        if n >= 2 {
            ls.push((Some(n as u64 - 1), "N-1".into()));
        }
        for (l, lc) in ls {
            for o in orders(&mut rng) {
                out.push(Scenario {
                    n,
                    n_class: "long-names".into(),
                    limit: l,
                    limit_class: lc.clone(),
                    order: o,
                    idx: 0,
                    total: matching(n, o),
                    long: true,
                });
            }
        }
    }
    // tagged class "wide-ids": markers are u128 / i128, straddling the 64-bit
    // boundaries; every limit makes some page end on either side of them
    let wide_ns: Vec<usize> = if quick {
        vec![0, 1, 2, 7, 8, 23, 24, 29, 40, 100, 101, 300]
    } else {
        (0..=64).chain([100, 101, 300, 999, 1000, 2500]).collect()
    };
    for n in wide_ns {
        let mut ls: Vec<(Option<u64>, String)> = vec![
            (None, "absent".into()),
            (Some(1), "1".into()),
            (Some(2), "2".into()),
            (Some(3), "3".into()),
            (Some(5), "5".into()),
            (Some(7), "7".into()),
            (Some(22), "22".into()),
            (Some(23), "23".into()),
            (Some(24), "24".into()),
            (Some(100), "100".into()),
            (Some(n as u64 + 1), "N+1".into()),
            (Some(10_001), "10001".into()),
        ];
        if n >= 1 {
            ls.push((Some(n as u64), "N".into()));
        }
        if n >= 2 {
            ls.push((Some(n as u64 - 1), "N-1".into()));
        }
        for (l, lc) in ls {
            for o in [
                Order::WideDefault,
                Order::WideIdAsc,
                Order::WideIdDesc,
                Order::WideBalAsc,
                Order::WideBalDesc,
            ] {
                let s = Scenario {
                    n,
                    n_class: "wide-ids".into(),
                    limit: l,
                    limit_class: lc.clone(),
                    order: o,
                    idx: 0,
                    total: n,
                    long: false,
                };
                if s.requests() <= max_requests.max(400) {
                    out.push(s);
                }
            }
        }
    }
    for (i, s) in out.iter_mut().enumerate() {
        s.idx = i as u64;
    }
    out
}

// --------------------------------------------------------------------- client

#[derive(Deserialize)]
struct PageItem {
    id: Id,
    name: String,
}

#[derive(Deserialize)]
struct Page {
    #[serde(default)]
    next_page: Option<String>,
    items: Vec<PageItem>,
}

struct Scanner {
    rep: Report,
    seed: u64,
    addr: std::net::SocketAddr,
    conn: Option<Conn>,
    wd: Duration,
    /// send request targets in absolute-form ("GET http://host/path?query"), which a
    /// server must accept and treat like the origin-form
    absolute_form: bool,
}

enum Fetch {
    /// answered, but not with 200
    Status(u16, Vec<u8>),
    Page(Page),
    Violated,
    Inconclusive,
}

impl Scanner {
    fn fetch(&mut self, target: &str, fresh_conn: bool, w: &Value) -> Fetch {
        // one transparent retry when a kept-alive connection turned out closed
        for attempt in 0..2 {
            if fresh_conn || self.conn.is_none() {
                match Conn::connect(self.addr) {
                    Ok(c) => {
                        self.rep.count("connections", 1);
                        self.conn = Some(c)
                    }
                    Err(e) => {
                        self.rep.inconclusive(&format!("connect:{}", e.kind()));
                        return Fetch::Inconclusive;
                    }
                }
            }
            let conn = self.conn.as_mut().unwrap();
            let req = if self.absolute_form {
                Req::new("GET", &format!("http://vmon.test{target}")).encode()
            } else {
                Req::new("GET", target).encode()
            };
            if conn.send(&req).is_err() {
                self.conn = None;
                if attempt == 0 {
                    continue;
                }
                self.rep.inconclusive("send-failed");
                return Fetch::Inconclusive;
            }
            match conn.read_response_within(false, self.wd) {
                Ok(resp) => {
                    if resp.wants_close() {
                        self.conn = None;
                    }
                    self.rep.count("pages_fetched", 1);
                    if resp.status != 200 {
                        return Fetch::Status(resp.status, resp.body);
                    }
                    return match serde_json::from_slice::<Page>(&resp.body) {
                        Ok(p) => Fetch::Page(p),
                        Err(e) => {
                            self.rep.violate(
                                "C15:page-body-is-not-a-results-page",
                                json!({"scenario": w, "target": target, "error": e.to_string(),
                                       "body": String::from_utf8_lossy(&resp.body[..resp.body.len().min(400)])}),
                            );
                            Fetch::Violated
                        }
                    };
                }
                Err(ReadErr::Closed) | Err(ReadErr::Reset(_)) if attempt == 0 && !fresh_conn => {
                    // idle keep-alive connection closed under us: legal
                    self.conn = None;
                    self.rep.count("keepalive_retries", 1);
                    continue;
                }
                Err(e) => {
                    self.conn = None;
                    match e {
                        ReadErr::Timeout(_) | ReadErr::Io(_) => {
                            self.rep.inconclusive("watchdog:page-response");
                            return Fetch::Inconclusive;
                        }
                        _ => {
                            self.rep.violate(
                                "C15:page-request-got-no-valid-response",
                                json!({"scenario": w, "target": target, "error": format!("{e:?}").chars().take(400).collect::<String>()}),
                            );
                            return Fetch::Violated;
                        }
                    }
                }
            }
        }
        Fetch::Inconclusive
    }

    fn scan(&mut self, s: &Scenario) {
        let mut rng = Rng::derive(self.seed, "c15-scan", 0, s.idx);
        let w = s.json(self.seed);
        let exp = expected(s.key(), s.order);
        let total = exp.len();
        let eff = s.eff();
        let bound = (total as u64).div_ceil(eff) + 1;
        let rel = match (total as u64).cmp(&eff) {
            std::cmp::Ordering::Less => "N<eff",
            std::cmp::Ordering::Equal => "N=eff",
            std::cmp::Ordering::Greater => "N>eff",
        };
        let rem = if total as u64 % eff == 0 { "rem0" } else { "rem+" };
        let class = format!(
            "n:{}|limit:{}|order:{}|{rel}|{rem}",
            s.n_class, s.limit_class, s.order.tag()
        );
        // client habits that must not matter
        let enc_random = rng.chance(1, 4);
        let fresh_conn_each_page = rng.chance(1, 8);
        self.absolute_form = rng.chance(1, 6);
        let limit_first = rng.bool();
        let _hold_wide = if s.order.wide() { Some(acquire_wide(s.n)) } else { None };
        let _hold = if s.order.wide() { None } else { Some(acquire(s.key())) };

        let (ep, first_q) = s.order.first_query();
        let limit_q = s.limit.map(|l| format!("limit={l}"));
        let mk_target = |mut q: Vec<String>| {
            if let Some(l) = &limit_q {
                if limit_first {
                    q.insert(0, l.clone());
                } else {
                    q.push(l.clone());
                }
            }
            if q.is_empty() {
                format!("/c/{}/{}", s.key(), ep)
            } else {
                format!("/c/{}/{}?{}", s.key(), ep, q.join("&"))
            }
        };
        let mut fq = first_q.clone();
        rng.shuffle(&mut fq);
        let mut target = mk_target(fq);
        let mut got: Vec<(Id, String)> = Vec::with_capacity(total);
        let mut requests: u64 = 0;
        let mut page_sizes: Vec<usize> = vec![];
        let mut violated = false;
        loop {
            if requests >= bound {
                self.rep.eval(class.clone());
                let mut seen: HashSet<Id> = HashSet::new();
                let dups: Vec<Id> =
                    got.iter().map(|x| x.0).filter(|id| !seen.insert(*id)).collect();
                self.rep.violate(
                    "C15:scan-not-finished-within-bound",
                    json!({"scenario": w, "requests_made": requests, "bound": bound,
                           "items_so_far": got.len(), "collection": total,
                           "duplicates_so_far": dups.len(),
                           "page_sizes_tail": page_sizes.iter().rev().take(6).collect::<Vec<_>>()}),
                );
                if !dups.is_empty() {
                    self.rep.violate(
                        "C15:scan-is-not-the-collection:items-duplicated",
                        json!({"scenario": w, "aborted_after_requests": requests,
                               "duplicate_count": dups.len(),
                               "duplicated_ids_head": ids_head(&dups)}),
                    );
                }
                return;
            }
            let page = match self.fetch(&target, fresh_conn_each_page, &w) {
                Fetch::Page(p) => p,
                Fetch::Status(status, body) => {
                    // The one refusal that is not a violation: the page the
                    // model predicts here ends on an item whose selector
                    // cannot become a token (documented 512-byte limit), and
                    // the server says so loudly with a 5xx.  What was
                    // delivered before must still be the exact prefix.
                    let next_end = (got.len() + eff as usize).min(total);
                    let oversize_last = s.long
                        && s.by_name()
                        && got.len() < total
                        && exp[next_end - 1].1.len() >= LONG_NAME_MIN;
                    let prefix_ok = got.len() <= total && got[..] == exp[..got.len()];
                    if oversize_last && (500..600).contains(&status) && prefix_ok {
                        self.rep.eval(format!("{class}|oversize-selector:aborted-loudly"));
                        self.rep.count("oversize_selector_scans_aborted_loudly", 1);
                        self.rep.inconclusive(
                            "oversize-selector: scan aborted loudly (documented token size limit)",
                        );
                        return;
                    }
                    self.rep.eval(class.clone());
                    self.rep.violate(
                        format!("C15:page-request-refused:status-{status}"),
                        json!({"scenario": w, "target": target, "status": status,
                               "items_before": got.len(), "prefix_is_exact": prefix_ok,
                               "oversize_selector_predicted": oversize_last,
                               "body": String::from_utf8_lossy(&body[..body.len().min(400)])}),
                    );
                    return;
                }
                Fetch::Violated => {
                    self.rep.eval(class.clone());
                    return;
                }
                Fetch::Inconclusive => return,
            };
            requests += 1;
            let k = page.items.len();
            page_sizes.push(k);
            self.rep.count("items_received", k as u64);
            if k as u64 > eff {
                self.rep.violate(
                    "C15:page-longer-than-effective-limit",
                    json!({"scenario": w, "page": requests, "items": k, "effective_limit": eff, "target": target}),
                );
                violated = true;
            }
            match (&page.next_page, k) {
                (Some(_), 0) => {
                    self.rep.violate(
                        "C15:token-returned-with-empty-page",
                        json!({"scenario": w, "page": requests, "target": target}),
                    );
                    violated = true;
                }
                (None, k) if k > 0 => {
                    self.rep.violate(
                        "C15:no-token-with-non-empty-page",
                        json!({"scenario": w, "page": requests, "items": k, "target": target,
                               "items_received_so_far": got.len() + k, "collection": total,
                               "items_remain_per_model": got.len() + k < total,
                               "last_item_name_len": page.items.last().map(|i| i.name.len())}),
                    );
                    violated = true;
                }
                _ => {}
            }
            got.extend(page.items.into_iter().map(|i| (i.id, i.name)));
            if got.len() > 2 * total + 2 * eff as usize {
                break; // runaway; judged below
            }
            match page.next_page {
                None => break,
                Some(tok) => {
                    let enc = pct_encode_with(
                        tok.as_bytes(),
                        |b| !(b.is_ascii_alphanumeric() || b == b'-' || b == b'_'),
                        || if enc_random { rng.next() } else { 1 },
                    );
                    target = mk_target(vec![format!(
                        "page_token={}",
                        String::from_utf8_lossy(&enc)
                    )]);
                }
            }
        }
        self.rep.eval(class);
        self.rep.count("scans", 1);
        if self.rep.want_sample() && s.idx % 97 == 0 {
            self.rep.sample(json!({"scenario": w, "requests": requests, "bound": bound,
                                   "page_sizes_head": page_sizes.iter().take(5).collect::<Vec<_>>(),
                                   "items": got.len()}));
        }
        // ---- the concatenation is the collection, in order
        if got != exp {
            let want_ids: HashSet<Id> = exp.iter().map(|x| x.0).collect();
            let mut seen: HashSet<Id> = HashSet::new();
            let mut dup = vec![];
            let mut foreign = vec![];
            for (id, _) in &got {
                if !seen.insert(*id) {
                    dup.push(*id);
                }
                if !want_ids.contains(id) {
                    foreign.push(*id);
                }
            }
            let missing: Vec<Id> =
                exp.iter().map(|x| x.0).filter(|id| !seen.contains(id)).collect();
            let altered = got.iter().any(|(id, name)| {
                want_ids.contains(id) && exp.iter().find(|x| x.0 == *id).map(|x| &x.1) != Some(name)
            });
            let kind = if !dup.is_empty() {
                "items-duplicated"
            } else if !missing.is_empty() {
                "items-missing"
            } else if !foreign.is_empty() {
                "items-not-in-collection"
            } else if altered {
                "item-content-altered"
            } else {
                "items-reordered"
            };
            let first_diff = got.iter().zip(exp.iter()).position(|(a, b)| a != b);
            self.rep.violate(
                format!("C15:scan-is-not-the-collection:{kind}"),
                json!({"scenario": w, "requests": requests,
                       "received": got.len(), "collection": total,
                       "duplicated_ids_head": ids_head(&dup),
                       "missing_ids_head": ids_head(&missing),
                       "missing_count": missing.len(), "duplicate_count": dup.len(),
                       "first_difference_at": first_diff,
                       "page_sizes_head": page_sizes.iter().take(6).collect::<Vec<_>>()}),
            );
            violated = true;
        }
        if !violated {
            if s.order.wide() {
                self.rep.count("wide_ids_scans_held", 1);
            }
            if s.long {
                self.rep.count(
                    if s.by_name() {
                        "long_names_by_name_scans_held"
                    } else {
                        "long_names_by_id_scans_held"
                    },
                    1,
                );
            }
            self.rep.count("scans_held", 1);
        }
    }
}

/// 128-bit ids do not fit into a serde_json::Value number: print them
fn ids_head(v: &[Id]) -> Vec<String> {
    v.iter().take(5).map(|x| x.to_string()).collect()
}

pub fn rule() -> &'static str {
    "one case = one full scan (first page, then every returned next_page token until none) of a collection \
     of N uniquely identified items through a live paginated endpoint; class = (N class, limit class, \
     order/endpoint, N vs effective limit, N mod effective limit zero or not); grid N x limit x order \
     from DESIGN C15 plus random (N, limit, order) triples drawn from (seed), plus the tagged class \
     long-names (items whose page selector exceeds the token size limit: a page ending on one must be \
     refused loudly — counted, not judged — and never be answered as a token-less non-empty page) and \
     the tagged class wide-ids (u128 / i128 markers straddling the 64-bit boundaries)"
}

/// sanity of the model itself: ids and names unique
pub fn self_check() -> Result<(), String> {
    let c = Coll::new(25_001);
    if c.by_name.len() != 25_001 || c.by_id.len() != 25_001 {
        return Err("harness collection has duplicate ids or names".into());
    }
    let w = WideColl::new(3000);
    if w.by_id.len() != 3000
        || w.by_bal.len() != 3000
        || !w.by_id.contains_key(&(u128::from(u64::MAX) + 1))
        || !w.by_bal.contains_key(&(i128::from(i64::MIN) - 1))
    {
        return Err("wide collection has duplicate or missing boundary markers".into());
    }
    let l = Coll::new(LONG_BASE + 300);
    if l.by_name.len() != 300
        || l.by_name.keys().filter(|k| k.len() >= LONG_NAME_MIN).count() != 60
        || l.by_name.keys().any(|k| k.len() > 100 && k.len() < LONG_NAME_MIN)
    {
        return Err("long-names collection is not as specified".into());
    }
    Ok(())
}

pub fn run_shard(seed: u64, shard: u64, nshards: u64, quick: bool) -> Report {
    let mut rep = Report::new("C15", "c15-scan", rule());
    // longest scans first, dealt round-robin: balanced shards
    let mut all = scenarios(seed, quick);
    all.sort_by_key(|s| std::cmp::Reverse((s.requests() * 50 + s.total as u64, s.idx)));
    let mine: Vec<Scenario> = all
        .into_iter()
        .enumerate()
        .filter(|(i, _)| *i as u64 % nshards == shard)
        .map(|(_, s)| s)
        .collect();
    let per_server = mine.len().div_ceil(3).max(1);
    let before = PAGES_SERVED.load(Ordering::Relaxed);
    for (gi, group) in mine.chunks(per_server).enumerate() {
        let cfg = SrvCfg {
            mode: if (gi as u64 + shard) % 2 == 0 {
                HandlerTaskMode::Detached
            } else {
                HandlerTaskMode::CancelOnDisconnect
            },
            workers: [1, 2, 4][(gi + shard as usize) % 3],
            ..Default::default()
        };
        let run: Running = match srv::start(api(), Ctx::new(EvLog::new()), &cfg) {
            Ok(r) => r,
            Err(e) => {
                rep.inconclusive(&format!("server-start:{e}"));
                continue;
            }
        };
        rep.count("servers_started", 1);
        let mut sc = Scanner {
            rep: std::mem::take(&mut rep),
            seed,
            addr: run.addr,
            conn: None,
            wd: Duration::from_secs(60),
            absolute_form: false,
        };
        for s in group {
            sc.scan(s);
        }
        rep = sc.rep;
        drop(sc.conn);
        drop(run);
    }
    let _ = before;
    rep
}

pub fn pages_served() -> u64 {
    PAGES_SERVED.load(Ordering::Relaxed)
}
