//! engine binary skeleton: see ../CONTRIBUTING.md
use vmon::report::Report;

mod c15;
mod c20;
mod sha1b64;

pub struct Args {
    pub engine: String,
    pub seed: u64,
    pub tier: String,
    pub out: String,
    pub threads: usize,
}

fn usage() -> ! {
    eprintln!("usage: <bin> <engine> --seed N --tier quick|thorough --out FILE [--threads N]");
    std::process::exit(2)
}

fn parse_args() -> Args {
    let mut a = std::env::args().skip(1);
    let engine = a.next().unwrap_or_else(|| usage());
    let mut args = Args { engine, seed: 1, tier: "quick".into(), out: String::new(), threads: 16 };
    while let Some(k) = a.next() {
        match k.as_str() {
            "--seed" => args.seed = a.next().and_then(|s| s.parse().ok()).unwrap_or_else(|| usage()),
            "--tier" => args.tier = a.next().unwrap_or_else(|| usage()),
            "--out" => args.out = a.next().unwrap_or_else(|| usage()),
            "--threads" => args.threads = a.next().and_then(|s| s.parse().ok()).unwrap_or_else(|| usage()),
            _ => usage(),
        }
    }
    args
}

/// run `f(shard)` on `n` threads and merge the reports
#[allow(dead_code)]
fn sharded<F>(n: usize, f: F) -> Report
where
    F: Fn(u64) -> Report + Send + Sync + 'static,
{
    let f = std::sync::Arc::new(f);
    let hs: Vec<_> = (0..n)
        .map(|i| {
            let f = f.clone();
            std::thread::Builder::new()
                .name(format!("shard{i}"))
                .stack_size(16 << 20)
                .spawn(move || f(i as u64))
                .unwrap()
        })
        .collect();
    let mut it = hs.into_iter();
    let mut rep = it.next().unwrap().join().expect("shard thread panicked");
    for h in it {
        rep.merge(h.join().expect("shard thread panicked"));
    }
    rep
}

fn main() {
    vmon::panics::install();
    let args = parse_args();
    let t0 = std::time::Instant::now();
    let quick = args.tier != "thorough";
    let seed = args.seed;
    let n = args.threads.max(1);
    let mut rep: Report = match args.engine.as_str() {
        "c20-handshake" => {
            if let Err(e) = sha1b64::self_test() {
                // a wrong oracle must not produce verdicts
                let mut r = Report::new("C20", "c20-handshake", c20::rule());
                r.inconclusive(&format!("oracle-self-test-failed:{e}"));
                r
            } else {
                // handshakes per shard (plus the concurrent herds)
                let (cases, herd) = if quick { (1_000, 48) } else { (12_000, 160) };
                let mut r = sharded(n, move |s| c20::run_shard(seed, s, quick, cases, herd));
                r.extra.insert("shards".into(), serde_json::json!(n));
                r.extra.insert("herd_size_per_shard".into(), serde_json::json!(herd));
                r
            }
        }
        "c15-scan" => {
            if let Err(e) = c15::self_check() {
                let mut r = Report::new("C15", "c15-scan", c15::rule());
                r.inconclusive(&format!("model-self-check-failed:{e}"));
                r
            } else {
                let ns = n as u64;
                let mut r = sharded(n, move |s| c15::run_shard(seed, s, ns, quick));
                r.count("pages_served_by_handlers", c15::pages_served());
                r
            }
        }
        _ => usage(),
    };
    for p in vmon::panics::take_unexpected() {
        rep.violate(
            format!("{}:unexpected-panic", rep.property),
            serde_json::json!({"location": p.location, "message": p.message, "thread": p.thread}),
        );
    }
    let mut j = rep.to_json();
    j["wall_s"] = serde_json::json!(t0.elapsed().as_secs_f64());
    j["seed"] = serde_json::json!(args.seed);
    j["tier"] = serde_json::json!(args.tier);
    let text = serde_json::to_string_pretty(&j).unwrap();
    if args.out.is_empty() {
        println!("{text}");
    } else {
        std::fs::write(&args.out, text).expect("write report");
    }
}
