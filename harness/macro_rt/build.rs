//! Emits the `#[path]` module list of the macro crate under test
//! ($VERIF_REPO, default /repo).
use std::io::Write;
fn main() {
    // default spelled with a trailing slash so that bin/senstest's rewrite of
    // the literal in a scratch copy of the harness applies here too
    let repo = std::env::var("VERIF_REPO").unwrap_or_else(|_| "/repo/".to_string());
    let repo = repo.trim_end_matches('/').to_string();
    println!("cargo:rerun-if-env-changed=VERIF_REPO");
    let src = format!("{repo}/dropshot_endpoint/src");
    let out = std::path::PathBuf::from(std::env::var("OUT_DIR").unwrap()).join("mods.rs");
    let mut f = std::fs::File::create(out).unwrap();
    // the modules lib.rs declares (test_util is cfg(test) only)
    for m in [
        "api_trait", "channel", "doc", "endpoint", "error_store", "metadata", "params",
        "syn_parsing", "util",
    ] {
        let p = format!("{src}/{m}.rs");
        println!("cargo:rerun-if-changed={p}");
        writeln!(f, "#[path = {p:?}]\npub mod {m};").unwrap();
    }
    println!("cargo:rerun-if-changed={src}/lib.rs");
}
