//! E5 `c19-macro-rt`: the REAL dropshot_endpoint code (`#[path]`-included, see
//! build.rs) run at run time on generated input.
//!
//!   A. doc-comment shapes through `ExtractedDoc::from_attrs`
//!      (oracle: no text lost between summary and description)
//!   B. `versions = ...` token streams through the real attribute parser
//!      (oracle: own model of the four documented syntaxes)
//!   C. attribute sets through `do_endpoint` / `do_channel` / `do_trait`, the
//!      emitted `ApiEndpoint` builder chain parsed back and compared with the
//!      attribute set, and the three expansions compared with each other
//!
//!   vmon_macro_rt c19-macro-rt --seed N --tier quick|thorough --out FILE
#![allow(dead_code, unused_imports, unused_variables, clippy::all)]

// the macro crate's modules, at the crate root so that `crate::doc::..` etc.
// resolve exactly as in the proc-macro crate
include!(concat!(env!("OUT_DIR"), "/mods.rs"));

#[path = "../../decl/src/docgen.rs"]
mod docgen;
#[path = "../../decl/src/spec.rs"]
mod spec;

mod chain;

use docgen::{conserve, Conserve};
use serde_json::json;
use vmon::model::MVer;
use vmon::report::Report;
use vmon::rng::Rng;

pub struct Args {
    pub engine: String,
    pub seed: u64,
    pub tier: String,
    pub out: String,
    pub threads: usize,
}

fn usage() -> ! {
    eprintln!("usage: <bin> <engine> --seed N --tier quick|thorough --out FILE [--threads N]");
    std::process::exit(2)
}

fn parse_args() -> Args {
    let mut a = std::env::args().skip(1);
    let engine = a.next().unwrap_or_else(|| usage());
    let mut args = Args { engine, seed: 1, tier: "quick".into(), out: String::new(), threads: 16 };
    while let Some(k) = a.next() {
        match k.as_str() {
            "--seed" => args.seed = a.next().and_then(|s| s.parse().ok()).unwrap_or_else(|| usage()),
            "--tier" => args.tier = a.next().unwrap_or_else(|| usage()),
            "--out" => args.out = a.next().unwrap_or_else(|| usage()),
            "--threads" => args.threads = a.next().and_then(|s| s.parse().ok()).unwrap_or_else(|| usage()),
            _ => usage(),
        }
    }
    args
}

fn sharded<F>(n: usize, f: F) -> Report
where
    F: Fn(u64) -> Report + Send + Sync + 'static,
{
    let f = std::sync::Arc::new(f);
    let hs: Vec<_> = (0..n)
        .map(|i| {
            let f = f.clone();
            std::thread::Builder::new()
                .name(format!("shard{i}"))
                .stack_size(64 << 20)
                .spawn(move || f(i as u64))
                .unwrap()
        })
        .collect();
    let mut it = hs.into_iter();
    let mut rep = it.next().unwrap().join().expect("shard thread panicked");
    for h in it {
        rep.merge(h.join().expect("shard thread panicked"));
    }
    rep
}

const RULE: &str = "A: doc comments (structure x spelling: ///, /** */ decorated/undecorated/one-line, #[doc=..] \
escaped/real-newline/raw/continued, mixed) through the real ExtractedDoc::from_attrs, class = shape|spelling; \
B: `versions = ..` token streams (4 syntaxes x literal/ident/path bounds x spacing, plus reversed, pre-release, \
build-metadata and non-semver literals) through the real attribute parser, class = syntax|bound kinds|validity; \
C: generated attribute sets through the real do_endpoint/do_channel/do_trait with the emitted builder chain parsed \
back, class = attribute-combination signature";

fn new_rep() -> Report {
    Report::new("C19", "c19-macro-rt", RULE)
}

// ------------------------------------------------------------------ part A

fn part_docs(seed: u64, shard: u64, n: u64) -> Report {
    let mut rep = new_rep();
    for i in 0..n {
        let mut rng = Rng::derive(seed, "c19-mrt-doc", shard, i);
        let d = if i % 50 == 49 {
            docgen::gen_doc_star_exotic(&mut rng)
        } else if i % 200 == 7 {
            docgen::gen_doc_macro_exotic(&mut rng)
        } else {
            docgen::gen_doc(&mut rng)
        };
        // indentation as inside a module / a trait
        let indent = " ".repeat(4 * rng.usize(3));
        let mut text = String::new();
        for item in &d.src {
            for l in item.split('\n') {
                text.push_str(&indent);
                text.push_str(l);
                text.push('\n');
            }
        }
        text.push_str("fn f() {}\n");
        let item: syn::ItemFn = match syn::parse_str(&text) {
            Ok(i) => i,
            Err(e) => {
                rep.inconclusive("generated doc source does not parse (generator domain)");
                if !rep.extra.contains_key("doc_parse_error") {
                    rep.extra.insert("doc_parse_error".into(), json!({"text": text, "error": e.to_string()}));
                }
                continue;
            }
        };
        let ex = crate::doc::ExtractedDoc::from_attrs(&item.attrs);
        rep.eval(format!("A|{}", d.shape));
        rep.count("doc_comments", 1);
        let suffix = d.exotic.map(|t| format!(":{t}")).unwrap_or_default();
        let wit = |extra: serde_json::Value| {
            let mut w = json!({"part": "A", "seed": seed, "shard": shard, "case": i, "source": text,
                "written_lines": d.text, "summary": ex.summary, "description": ex.description});
            if let serde_json::Value::Object(m) = extra {
                for (k, v) in m {
                    w[k] = v;
                }
            }
            w
        };
        match conserve(&d, ex.summary.as_deref(), ex.description.as_deref()) {
            Conserve::Ok => {}
            Conserve::Lost { written, got } => rep.violate(
                format!("C19:doc-text-lost{suffix}"),
                wit(json!({"written_without_whitespace": written, "summary_plus_description_without_whitespace": got})),
            ),
            Conserve::Regrouped { written, got } => rep.violate(
                format!("C19:doc-words-regrouped{suffix}"),
                wit(json!({"written_words": written, "got_words": got})),
            ),
        }
        if rep.want_sample() && i % 997 == 3 {
            rep.sample(json!({"part": "A", "source": text, "summary": ex.summary, "description": ex.description}));
        }
    }
    rep
}

// ------------------------------------------------------------------ part B

#[derive(Clone, Debug)]
enum Bound {
    Lit(String),
    Ident(String),
    Path(String),
    /// a path starting with `crate`, `super`, `self` or `::`
    KwPath(String),
    BadPre(String),
    BadBuild(String),
    BadSemver(String),
}

impl Bound {
    fn tokens(&self) -> String {
        match self {
            Bound::Lit(s) | Bound::BadPre(s) | Bound::BadBuild(s) | Bound::BadSemver(s) => format!("{s:?}"),
            Bound::Ident(s) | Bound::Path(s) | Bound::KwPath(s) => s.clone(),
        }
    }
    fn tag(&self) -> &'static str {
        match self {
            Bound::Lit(_) => "lit",
            Bound::Ident(_) => "ident",
            Bound::Path(_) => "path",
            Bound::KwPath(_) => "kwpath",
            Bound::BadPre(_) => "prerelease",
            Bound::BadBuild(_) => "build",
            Bound::BadSemver(_) => "notsemver",
        }
    }
    /// not a semver version at all: cannot be honoured as any range
    fn bad(&self) -> bool {
        matches!(self, Bound::BadSemver(_))
    }
    /// a valid semver version that the macro says it does not support here
    /// (pre-release / build metadata): rejecting it is fine, and so would be
    /// honouring it; never judged as "must be rejected"
    fn unsupported(&self) -> bool {
        matches!(self, Bound::BadPre(_) | Bound::BadBuild(_))
    }
}

fn gen_bound(rng: &mut Rng) -> Bound {
    let v = format!("{}.{}.{}", rng.below(3), rng.below(12), rng.below(12));
    match rng.below(20) {
        0..=10 => Bound::Lit(v),
        11 | 12 => Bound::Ident(["V_ONE", "FIRST", "v2", "API_VERSION_ADDED"][rng.usize(4)].to_string()),
        13 => Bound::Path(["vers::TWO", "api::v1::ADDED", "a::b::C", "my_mod::V_REMOVED"][rng.usize(4)].to_string()),
        14 => Bound::KwPath(
            ["crate::api::V3", "super::LATEST", "self::vers::TWO", "::mycrate::V4"][rng.usize(4)].to_string(),
        ),
        15 => Bound::BadPre(format!("{v}-{}", ["alpha", "rc.1", "0"][rng.usize(3)])),
        16 => Bound::BadBuild(format!("{v}+{}", ["b1", "20240101"][rng.usize(2)])),
        _ => Bound::BadSemver(
            ["1.0", "v1.0.0", "1.0.0.0", "", "01.2.3", "1.x.0", "one", " 1.0.0"][rng.usize(8)].to_string(),
        ),
    }
}

fn show_spec(s: &crate::metadata::VersionSpecifier) -> String {
    match s {
        crate::metadata::VersionSpecifier::Literal(v) => format!("lit:{v}"),
        crate::metadata::VersionSpecifier::Identifier(p) => {
            format!("ident:{}", quote::quote!(#p).to_string().replace(' ', ""))
        }
    }
}

fn show_range(r: &crate::metadata::VersionRange) -> String {
    use crate::metadata::VersionRange as R;
    match r {
        R::All => "all".into(),
        R::From(a) => format!("from({})", show_spec(a)),
        R::Until(b) => format!("until({})", show_spec(b)),
        R::FromUntil(a, b) => format!("fromuntil({},{})", show_spec(a), show_spec(b)),
    }
}

fn model_spec(b: &Bound) -> String {
    match b {
        Bound::Lit(s) | Bound::BadPre(s) | Bound::BadBuild(s) => format!("lit:{s}"),
        Bound::Ident(s) | Bound::Path(s) | Bound::KwPath(s) => format!("ident:{}", s.replace(' ', "")),
        _ => "bad".into(),
    }
}

fn part_versions(seed: u64, shard: u64, n: u64) -> Report {
    let mut rep = new_rep();
    for i in 0..n {
        let mut rng = Rng::derive(seed, "c19-mrt-ver", shard, i);
        let sp = |rng: &mut Rng| if rng.chance(1, 3) { " " } else { "" };
        let kind = rng.below(8);
        // (tokens, expected: Some(Ok(model string)) | Some(Err) | None = unjudged, class)
        let mut reject_ok = false;
        let (toks, expect, class): (String, Option<Result<String, ()>>, String) = match kind {
            0 => ("..".to_string(), Some(Ok("all".into())), "all".into()),
            1 | 2 => {
                let a = gen_bound(&mut rng);
                reject_ok |= a.unsupported();
                let e = if a.bad() { Err(()) } else { Ok(format!("from({})", model_spec(&a))) };
                (format!("{}{}..", a.tokens(), sp(&mut rng)), Some(e), format!("from|{}", a.tag()))
            }
            3 | 4 => {
                let b = gen_bound(&mut rng);
                reject_ok |= b.unsupported();
                let e = if b.bad() { Err(()) } else { Ok(format!("until({})", model_spec(&b))) };
                (format!("..{}{}", sp(&mut rng), b.tokens()), Some(e), format!("until|{}", b.tag()))
            }
            _ => {
                let a = gen_bound(&mut rng);
                let mut b = gen_bound(&mut rng);
                if rng.chance(1, 12) {
                    b = a.clone();
                }
                let toks = format!("{}{}..{}{}", a.tokens(), sp(&mut rng), sp(&mut rng), b.tokens());
                reject_ok |= a.unsupported() || b.unsupported();
                let (e, rel) = if a.bad() || b.bad() {
                    (Some(Err(())), "bad")
                } else if a.unsupported() || b.unsupported() {
                    // ordering of such bounds is not judged either
                    (None, "unsupported-literal")
                } else if let (Bound::Lit(x), Bound::Lit(y)) = (&a, &b) {
                    let (mx, my) = (MVer::v(x), MVer::v(y));
                    if my.lt(&mx) {
                        (Some(Err(())), "reversed")
                    } else if mx.eqp(&my) {
                        // the macro's message says "must be earlier"; an equal
                        // pair is not classed (C05 owns the one-version range)
                        (None, "equal")
                    } else {
                        (Some(Ok(format!("fromuntil({},{})", model_spec(&a), model_spec(&b)))), "ordered")
                    }
                } else {
                    (Some(Ok(format!("fromuntil({},{})", model_spec(&a), model_spec(&b)))), "unchecked-idents")
                };
                (toks, e, format!("fromuntil|{}|{}|{rel}", a.tag(), b.tag()))
            }
        };
        // through the real attribute parser, in a random position of the list
        let mut items = vec!["method = GET".to_string(), "path = \"/x\"".to_string(), format!("versions = {toks}")];
        rng.shuffle(&mut items);
        let attr_text = format!("{}{}", items.join(", "), if rng.bool() { "," } else { "" });
        let ts: proc_macro2::TokenStream = match attr_text.parse() {
            Ok(t) => t,
            Err(_) => {
                rep.inconclusive("generated attribute does not lex (generator domain)");
                continue;
            }
        };
        let got: Result<String, String> =
            match serde_tokenstream::from_tokenstream::<crate::metadata::EndpointMetadata>(&ts) {
                Ok(m) => match m.versions {
                    Some(w) => Ok(show_range(&w.into_inner())),
                    None => Ok("omitted".into()),
                },
                Err(e) => Err(e.to_string()),
            };
        rep.eval(format!("B|{class}"));
        rep.count("version_ranges", 1);
        let wit = || json!({"part": "B", "seed": seed, "shard": shard, "case": i, "attribute": attr_text,
            "expected": format!("{expect:?}"), "observed": format!("{got:?}")});
        match (&expect, &got) {
            (None, _) => rep.count("version_ranges_unjudged", 1),
            (Some(Ok(_)), Err(_)) if reject_ok => rep.count("version_ranges_unsupported_literal_rejected", 1),
            (Some(Ok(m)), Ok(g)) if m == g => {}
            (Some(Err(())), Err(_)) => {}
            (Some(Ok(_)), Err(_)) => {
                // A from-until range whose upper bound is a path starting with a
                // keyword (`crate::`, `super::`, `self::`, `::`) is refused by the
                // macro with "unexpected token" (VersionRange::parse peeks for
                // LitStr/Ident only).  The declaration then does not compile at all,
                // so nothing is registered, served or documented differently from
                // what was declared: outside what C19 states.  Counted, not judged
                // (DESIGN.md §7, observation O1).
                if class.starts_with("fromuntil|") && class.split('|').nth(2) == Some("kwpath") {
                    rep.inconclusive("from-until upper bound written as keyword-prefixed path is refused at compile time (O1, not judged)");
                } else {
                    rep.violate("C19:attribute-not-honoured:versions:documented-syntax-rejected", wit())
                }
            }
            (Some(Ok(_)), Ok(_)) => rep.violate("C19:attribute-not-honoured:versions:parsed-as-different-range", wit()),
            (Some(Err(())), Ok(_)) => rep.violate("C19:attribute-not-honoured:versions:invalid-range-accepted", wit()),
        }
        if rep.want_sample() && i % 991 == 5 {
            rep.sample(json!({"part": "B", "attribute": attr_text, "parsed": format!("{got:?}")}));
        }
    }
    rep
}

// ------------------------------------------------------------------ part C

fn part_expansions(seed: u64, shard: u64, nprog: u64) -> Report {
    let mut rep = new_rep();
    for i in 0..nprog {
        let mut rng = Rng::derive(seed, "c19-mrt-exp", shard, i);
        let k = 20 + rng.usize(10);
        let prog = if shard == 0 && i == 0 {
            spec::fixed_program()
        } else {
            spec::gen_program(&mut rng, &format!("mrt-seed{seed}-{shard}-{i}"), k)
        };
        chain::check_program(&mut rep, seed, shard, i, &prog);
    }
    rep
}

fn run(seed: u64, quick: bool, threads: usize) -> Report {
    let t = threads.clamp(1, 16);
    let (nd, nv, np) = if quick { (10_000u64, 10_000u64, 40u64) } else { (200_000, 200_000, 400) };
    let per = move |n: u64| n.div_ceil(t as u64);
    let mut rep = sharded(t, move |sh| {
        let mut r = part_docs(seed, sh, per(nd));
        r.merge(part_versions(seed, sh, per(nv)));
        r.merge(part_expansions(seed, sh, per(np)));
        r
    });
    rep.extra.insert(
        "repo".into(),
        json!(option_env!("VERIF_REPO").unwrap_or("/repo/")),
    );
    rep
}

fn main() {
    vmon::panics::install();
    let args = parse_args();
    let t0 = std::time::Instant::now();
    let quick = args.tier != "thorough";
    let mut rep: Report = match args.engine.as_str() {
        "c19-macro-rt" => run(args.seed, quick, args.threads),
        _ => usage(),
    };
    for p in vmon::panics::take_unexpected() {
        rep.violate(
            format!("{}:unexpected-panic", rep.property),
            json!({"location": p.location, "message": p.message, "thread": p.thread}),
        );
    }
    let mut j = rep.to_json();
    j["wall_s"] = json!(t0.elapsed().as_secs_f64());
    j["seed"] = json!(args.seed);
    j["tier"] = json!(args.tier);
    let text = serde_json::to_string_pretty(&j).unwrap();
    if args.out.is_empty() {
        println!("{text}");
    } else {
        std::fs::write(&args.out, text).expect("write report");
    }
}
