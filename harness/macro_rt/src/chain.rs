//! Part C of E5: run the real `do_endpoint` / `do_channel` / `do_trait` on a
//! generated declaration set, parse the emitted `ApiEndpoint` builder chains
//! back and compare them with what the declarations said and with each other.

use crate::docgen::{conserve, Conserve};
use crate::spec::{Decl, Kind, LimitSpec, Program, VerSpec, Via};
use serde_json::{json, Value};
use std::str::FromStr;
use vmon::report::Report;

/// What one emitted builder chain says.
#[derive(Clone, Debug, PartialEq, Eq)]
pub struct Observed {
    pub ctor: String,
    pub op: String,
    pub method: String,
    pub ctype: String,
    pub path: String,
    pub versions: String,
    pub summary: Option<String>,
    pub description: Option<String>,
    pub tags: Vec<String>,
    pub visible_false: bool,
    pub deprecated_true: bool,
    pub limit: Option<String>,
    /// builder calls that are none of the known ones, or known ones with an
    /// unexpected argument
    pub other: Vec<String>,
}

fn toks<T: quote::ToTokens>(t: &T) -> String {
    quote::quote!(#t).to_string().replace(' ', "")
}

fn lit_str(e: &syn::Expr) -> Option<String> {
    match e {
        syn::Expr::Lit(syn::ExprLit { lit: syn::Lit::Str(s), .. }) => Some(s.value()),
        syn::Expr::Paren(p) => lit_str(&p.expr),
        syn::Expr::Group(g) => lit_str(&g.expr),
        _ => None,
    }
}

fn last_seg(p: &syn::Path) -> String {
    p.segments.last().map(|s| s.ident.to_string()).unwrap_or_default()
}

fn version_arg(e: &syn::Expr) -> String {
    // semver::Version::new(a, b, c)  |  IDENT  |  a::b::IDENT
    match e {
        syn::Expr::Call(c) => {
            if let syn::Expr::Path(p) = &*c.func {
                if last_seg(&p.path) == "new" && c.args.len() == 3 {
                    let n: Vec<String> = c.args.iter().map(|a| toks(a).trim_end_matches("u64").to_string()).collect();
                    return format!("lit:{}.{}.{}", n[0], n[1], n[2]);
                }
            }
            format!("?{}", toks(e))
        }
        syn::Expr::Path(p) => format!("ident:{}", toks(&p.path)),
        syn::Expr::Paren(p) => version_arg(&p.expr),
        syn::Expr::Group(g) => version_arg(&g.expr),
        _ => format!("?{}", toks(e)),
    }
}

fn versions_expr(e: &syn::Expr) -> String {
    match e {
        syn::Expr::Path(p) if last_seg(&p.path) == "All" => "all".into(),
        syn::Expr::Call(c) => {
            let f = match &*c.func {
                syn::Expr::Path(p) => last_seg(&p.path),
                _ => String::new(),
            };
            let a: Vec<String> = c.args.iter().map(version_arg).collect();
            match (f.as_str(), a.len()) {
                ("From", 1) => format!("from({})", a[0]),
                ("Until", 1) => format!("until({})", a[0]),
                ("from_until", 2) => format!("fromuntil-nounwrap({},{})", a[0], a[1]),
                _ => format!("?{}", toks(e)),
            }
        }
        syn::Expr::MethodCall(m) if m.method == "unwrap" => match versions_expr(&m.receiver) {
            s if s.starts_with("fromuntil-nounwrap(") => s.replacen("fromuntil-nounwrap(", "fromuntil(", 1),
            s => format!("?unwrap:{s}"),
        },
        syn::Expr::Paren(p) => versions_expr(&p.expr),
        syn::Expr::Group(g) => versions_expr(&g.expr),
        _ => format!("?{}", toks(e)),
    }
}

pub fn unchain(e: &syn::Expr) -> Option<Observed> {
    let mut calls: Vec<(String, Vec<syn::Expr>)> = vec![];
    let mut cur = e;
    let (ctor, args) = loop {
        match cur {
            syn::Expr::MethodCall(m) => {
                calls.push((m.method.to_string(), m.args.iter().cloned().collect()));
                cur = &m.receiver;
            }
            syn::Expr::Call(c) => {
                let name = match &*c.func {
                    syn::Expr::Path(p) => last_seg(&p.path),
                    _ => return None,
                };
                break (name, c.args.iter().cloned().collect::<Vec<_>>());
            }
            syn::Expr::Paren(p) => cur = &p.expr,
            syn::Expr::Group(g) => cur = &g.expr,
            _ => return None,
        }
    };
    calls.reverse();
    let args: Vec<syn::Expr> = match (ctor.as_str(), args.len()) {
        ("new", 6) => {
            let mut a = args;
            a.remove(1); // the handler
            a
        }
        ("new_for_types", 5) => args,
        _ => return None,
    };
    let op = match &args[0] {
        syn::Expr::MethodCall(m) if m.method == "to_string" => lit_str(&m.receiver)?,
        _ => return None,
    };
    let method = match &args[1] {
        syn::Expr::Path(p) => last_seg(&p.path),
        _ => return None,
    };
    let mut o = Observed {
        ctor,
        op,
        method,
        ctype: lit_str(&args[2])?,
        path: lit_str(&args[3])?,
        versions: versions_expr(&args[4]),
        summary: None,
        description: None,
        tags: vec![],
        visible_false: false,
        deprecated_true: false,
        limit: None,
        other: vec![],
    };
    for (name, a) in calls {
        let one = if a.len() == 1 { Some(&a[0]) } else { None };
        match (name.as_str(), one) {
            ("summary", Some(x)) if lit_str(x).is_some() && o.summary.is_none() => o.summary = lit_str(x),
            ("description", Some(x)) if lit_str(x).is_some() && o.description.is_none() => {
                o.description = lit_str(x)
            }
            ("tag", Some(x)) if lit_str(x).is_some() => o.tags.push(lit_str(x).unwrap()),
            ("visible", Some(x)) if toks(x) == "false" => o.visible_false = true,
            ("deprecated", Some(x)) if toks(x) == "true" => o.deprecated_true = true,
            ("request_body_max_bytes", Some(x)) if o.limit.is_none() => o.limit = Some(toks(x)),
            _ => o.other.push(format!("{name}({})", a.iter().map(toks).collect::<Vec<_>>().join(","))),
        }
    }
    Some(o)
}

fn expected_versions(v: &VerSpec) -> String {
    let b = |x: &crate::spec::VB| match x.via {
        Via::Lit => format!("lit:{}", x.text()),
        _ => format!("ident:{}", x.tokens().replace(' ', "")),
    };
    match v {
        VerSpec::Omitted | VerSpec::All => "all".into(),
        VerSpec::From(a) => format!("from({})", b(a)),
        VerSpec::Until(a) => format!("until({})", b(a)),
        VerSpec::FromUntil(x, y) => format!("fromuntil({},{})", b(x), b(y)),
    }
}

fn expected_limit(l: &LimitSpec) -> Option<String> {
    l.tokens().map(|t| {
        proc_macro2::TokenStream::from_str(&t).map(|ts| ts.to_string().replace(' ', "")).unwrap_or(t)
    })
}

/// chains found in a function body: `let endpoint_<name> = <chain>;`
struct LetFinder {
    found: Vec<(String, Option<Observed>, String)>,
}

impl<'ast> syn::visit::Visit<'ast> for LetFinder {
    fn visit_local(&mut self, l: &'ast syn::Local) {
        if let syn::Pat::Ident(pi) = &l.pat {
            let n = pi.ident.to_string();
            if let (Some(name), Some(init)) = (n.strip_prefix("endpoint_"), &l.init) {
                self.found.push((name.to_string(), unchain(&init.expr), toks(&*init.expr)));
                return;
            }
        }
        syn::visit::visit_local(self, l);
    }
}

fn find_fn<'a>(items: &'a [syn::Item], name: &str) -> Option<&'a syn::ItemFn> {
    for it in items {
        match it {
            syn::Item::Fn(f) if f.sig.ident == name => return Some(f),
            syn::Item::Mod(m) => {
                if let Some((_, inner)) = &m.content {
                    if let Some(f) = find_fn(inner, name) {
                        return Some(f);
                    }
                }
            }
            _ => {}
        }
    }
    None
}

fn compare(
    rep: &mut Report,
    base: &Value,
    form: &str,
    d: &Decl,
    o: &Observed,
) {
    let mut bad = |attr: &str, expected: Value, observed: Value| {
        let mut w = base.clone();
        w["form"] = json!(form);
        w["declaration"] = d.manifest();
        w["attribute_source"] = json!(d.attr_text(form != "function"));
        w["expected"] = expected;
        w["observed"] = observed;
        w["where"] = json!("emitted ApiEndpoint builder chain");
        rep.violate(format!("C19:attribute-not-honoured:{attr}"), w);
    };
    if o.op != d.expected_op() {
        bad("operation_id", json!(d.expected_op()), json!(o.op));
    }
    if o.method != d.method {
        bad("method", json!(d.method), json!(o.method));
    }
    if o.path != d.path {
        bad("path", json!(d.path), json!(o.path));
    }
    let ect = if d.kind == Kind::Channel { "application/json".to_string() } else { d.expected_content_type() };
    if o.ctype != ect {
        bad("content_type", json!(ect), json!(o.ctype));
    }
    if o.versions != expected_versions(&d.versions) {
        bad("versions", json!(expected_versions(&d.versions)), json!(o.versions));
    }
    if o.tags != d.tags {
        bad("tags", json!(d.tags), json!(o.tags));
    }
    if o.visible_false != d.is_unpublished() {
        bad("unpublished", json!(d.is_unpublished()), json!({"visible(false) emitted": o.visible_false}));
    }
    if o.deprecated_true != d.is_deprecated() {
        bad("deprecated", json!(d.is_deprecated()), json!({"deprecated(true) emitted": o.deprecated_true}));
    }
    if o.limit != expected_limit(&d.limit) {
        bad("request_body_max_bytes", json!(expected_limit(&d.limit)), json!(o.limit));
    }
    if !o.other.is_empty() {
        // e.g. visible(true), deprecated(false), a second summary: not wrong by
        // itself; the value-level checks above decide.  Count it.
        rep.count("unrecognised_builder_calls", o.other.len() as u64);
    }
    let suffix = d.doc.exotic.map(|t| format!(":{t}")).unwrap_or_default();
    match conserve(&d.doc, o.summary.as_deref(), o.description.as_deref()) {
        Conserve::Ok => {}
        Conserve::Lost { written, got } => {
            let mut w = base.clone();
            w["form"] = json!(form);
            w["declaration"] = d.manifest();
            w["summary"] = json!(o.summary);
            w["description"] = json!(o.description);
            w["written_without_whitespace"] = json!(written);
            w["summary_plus_description_without_whitespace"] = json!(got);
            rep.violate(format!("C19:doc-text-lost{suffix}"), w);
        }
        Conserve::Regrouped { written, got } => {
            let mut w = base.clone();
            w["form"] = json!(form);
            w["declaration"] = d.manifest();
            w["written_words"] = json!(written);
            w["got_words"] = json!(got);
            rep.violate(format!("C19:doc-words-regrouped{suffix}"), w);
        }
    }
}

pub fn check_program(rep: &mut Report, seed: u64, shard: u64, case: u64, prog: &Program) {
    let base = json!({"part": "C", "seed": seed, "shard": shard, "case": case, "program": prog.label});
    // ---- function form, one declaration at a time
    let mut fn_obs: Vec<Option<Observed>> = vec![];
    for d in &prog.decls {
        let attr = match proc_macro2::TokenStream::from_str(&d.attr_inner()) {
            Ok(t) => t,
            Err(_) => {
                rep.inconclusive("generated attribute does not lex (generator domain)");
                fn_obs.push(None);
                continue;
            }
        };
        let item = match proc_macro2::TokenStream::from_str(&d.item_text_no_attr()) {
            Ok(t) => t,
            Err(_) => {
                rep.inconclusive("generated item does not lex (generator domain)");
                fn_obs.push(None);
                continue;
            }
        };
        let (out, errors) = match d.kind {
            Kind::Endpoint => crate::endpoint::do_endpoint(attr, item),
            Kind::Channel => crate::channel::do_channel(attr, item),
        };
        rep.count("expansions_function_form", 1);
        if !errors.is_empty() {
            rep.inconclusive("macro reported errors on a generated declaration (function form)");
            if !rep.extra.contains_key("macro_errors_function_form") {
                rep.extra.insert(
                    "macro_errors_function_form".into(),
                    json!({"declaration": d.manifest(), "attribute": d.attr_inner(),
                        "errors": errors.iter().map(|e| e.to_string()).collect::<Vec<_>>()}),
                );
            }
            fn_obs.push(None);
            continue;
        }
        let file: syn::File = match syn::parse2(out.clone()) {
            Ok(f) => f,
            Err(e) => {
                rep.violate("C19:macro-output-does-not-parse", {
                    let mut w = base.clone();
                    w["declaration"] = d.manifest();
                    w["error"] = json!(e.to_string());
                    w
                });
                fn_obs.push(None);
                continue;
            }
        };
        // impl From<name> for ApiEndpoint<..> { fn from(_) -> Self { ...; <chain> } }
        let mut obs = None;
        for it in &file.items {
            if let syn::Item::Impl(im) = it {
                for ii in &im.items {
                    if let syn::ImplItem::Fn(f) = ii {
                        if f.sig.ident == "from" {
                            if let Some(syn::Stmt::Expr(e, None)) = f.block.stmts.last() {
                                obs = unchain(e);
                            }
                        }
                    }
                }
            }
        }
        match &obs {
            None => {
                rep.inconclusive("builder chain not recognised in the function-form expansion (harness)");
                if !rep.extra.contains_key("unrecognised_function_expansion") {
                    rep.extra.insert("unrecognised_function_expansion".into(), json!(out.to_string()));
                }
            }
            Some(o) => {
                compare(rep, &base, "function", d, o);
                rep.eval(format!("C|{}", d.class()));
            }
        }
        fn_obs.push(obs);
    }

    // ---- trait form, the whole set at once
    let (targs, titem) = prog.trait_parts();
    let (Ok(attr), Ok(item)) =
        (proc_macro2::TokenStream::from_str(&targs), proc_macro2::TokenStream::from_str(&titem))
    else {
        rep.inconclusive("generated trait does not lex (generator domain)");
        return;
    };
    let (out, errors) = crate::api_trait::do_trait(attr, item);
    rep.count("expansions_trait_form", 1);
    if !errors.is_empty() {
        rep.inconclusive("macro reported errors on a generated trait");
        if !rep.extra.contains_key("macro_errors_trait_form") {
            rep.extra.insert(
                "macro_errors_trait_form".into(),
                json!({"program": prog.label, "errors": errors.iter().map(|e| e.to_string()).collect::<Vec<_>>()}),
            );
        }
        return;
    }
    let file: syn::File = match syn::parse2(out.clone()) {
        Ok(f) => f,
        Err(e) => {
            rep.violate("C19:macro-output-does-not-parse", {
                let mut w = base.clone();
                w["form"] = json!("trait");
                w["error"] = json!(e.to_string());
                w
            });
            return;
        }
    };
    for (fname, form) in [("api_description", "trait-impl"), ("stub_api_description", "trait-stub")] {
        let Some(f) = find_fn(&file.items, fname) else {
            rep.inconclusive("factory function not found in the trait expansion (harness)");
            continue;
        };
        let mut lf = LetFinder { found: vec![] };
        syn::visit::Visit::visit_item_fn(&mut lf, f);
        if lf.found.len() != prog.decls.len() {
            let mut w = base.clone();
            w["form"] = json!(form);
            w["declared"] = json!(prog.decls.len());
            w["registered"] = json!(lf.found.iter().map(|x| x.0.clone()).collect::<Vec<_>>());
            rep.violate("C19:trait-factory-registers-a-different-number-of-endpoints", w);
            continue;
        }
        for ((name, obs, text), (d, fo)) in lf.found.iter().zip(prog.decls.iter().zip(fn_obs.iter())) {
            if name != &d.name {
                let mut w = base.clone();
                w["form"] = json!(form);
                w["expected"] = json!(d.name);
                w["observed"] = json!(name);
                rep.violate("C19:trait-factory-registration-order-differs-from-declaration-order", w);
                break;
            }
            let Some(o) = obs else {
                rep.inconclusive("builder chain not recognised in the trait expansion (harness)");
                if !rep.extra.contains_key("unrecognised_trait_expansion") {
                    rep.extra.insert("unrecognised_trait_expansion".into(), json!(text));
                }
                continue;
            };
            let want_ctor = if form == "trait-stub" { "new_for_types" } else { "new" };
            if o.ctor != want_ctor {
                rep.count("unexpected_constructor", 1);
            }
            compare(rep, &base, form, d, o);
            rep.eval(format!("C|{form}|{}", d.class()));
            // the three expansions say the same
            if let Some(fo) = fo {
                let mut a = fo.clone();
                let mut b = o.clone();
                a.ctor.clear();
                b.ctor.clear();
                if a != b {
                    let mut w = base.clone();
                    w["declaration"] = d.manifest();
                    w["function_form"] = json!(format!("{fo:?}"));
                    w[form] = json!(format!("{o:?}"));
                    rep.violate(
                        if form == "trait-stub" {
                            "C19:stub-and-function-expansions-differ"
                        } else {
                            "C19:trait-and-function-expansions-differ"
                        },
                        w,
                    );
                }
            }
        }
    }
}
