//! Generators: route tables, version ranges, request paths and spellings.

use crate::client::{must_encode_in_segment, pct_encode_with};
use crate::model::*;
use crate::rng::Rng;

/// the last one is an extension method with lower-case letters: requests name it
/// byte for byte (other spellings of a method token are never generated, F2 in
/// DESIGN.md §7); in `Allow` dropshot reports method tokens upper-cased, which the
/// model mirrors
pub const METHODS: [&str; 8] =
    ["GET", "PUT", "POST", "DELETE", "OPTIONS", "HEAD", "PATCH", "Purge"];

/// literal segments (several need percent-encoding on the wire)
pub const LITERALS: [&str; 10] =
    ["a", "b", "ab", "A", "a b", "é", "a.b", "%41", "..a", "c"];

/// values for variable segments; byte strings, some not UTF-8
pub fn seg_values() -> Vec<Vec<u8>> {
    let mut v: Vec<Vec<u8>> = [
        "a", "b", "ab", "A", "a b", "é", "a.b", "%41", "..a", "c", "x/y", "/",
        "...", ".a", "a.", "%", "%zz", "%2", "+", "a+b", "日本", "😀", "a%2fb",
        "?", "#", "a?b=c", ";", "=", "&", "\u{0}", "\u{7f}", "\t", "\r\n", "\"",
        "\\", "{x}", "0", "-1", " ", "~", "%2e", "%252e", ".%2e",
    ]
    .iter()
    .map(|s| s.as_bytes().to_vec())
    .collect();
    v.push(vec![b'.']);
    v.push(vec![b'.', b'.']);
    v.push(vec![0xff]);
    v.push(vec![0xc3]);
    v.push(vec![b'a', 0x80, b'b']);
    v.push(vec![0xed, 0xa0, 0x80]); // surrogate
    v
}

pub fn random_version(rng: &mut Rng) -> MVer {
    let nums = [0u64, 1, 2, 3, 10, u64::MAX];
    let mut s = format!(
        "{}.{}.{}",
        rng.pick(&nums[..5]),
        rng.pick(&nums[..4]),
        if rng.chance(1, 20) { *rng.pick(&nums) } else { *rng.pick(&nums[..4]) }
    );
    let npre = if rng.chance(1, 2) { 0 } else { rng.range(1, 3) };
    let ids = ["0", "1", "2", "11", "alpha", "beta", "rc", "a", "A", "-", "0a", "x-y"];
    for i in 0..npre {
        s.push(if i == 0 { '-' } else { '.' });
        s.push_str(*rng.pick(&ids));
    }
    MVer::v(&s)
}

/// a version from U (mostly) or random
pub fn pick_version(rng: &mut Rng, u: &[MVer]) -> MVer {
    if rng.chance(4, 5) {
        rng.pick(u).clone()
    } else {
        random_version(rng)
    }
}

pub fn gen_range(rng: &mut Rng, u: &[MVer]) -> MRange {
    match rng.below(8) {
        0 | 1 => MRange::All,
        2 | 3 => MRange::From(pick_version(rng, u)),
        4 => MRange::Until(pick_version(rng, u)),
        5 => {
            let a = pick_version(rng, u);
            MRange::FromUntil(a.clone(), a)
        }
        _ => {
            let a = pick_version(rng, u);
            let b = pick_version(rng, u);
            if a.lt(&b) {
                MRange::FromUntil(a, b)
            } else {
                MRange::FromUntil(b, a)
            }
        }
    }
}

#[derive(Clone, Debug)]
pub struct TableCfg {
    /// allow an exact route beside a wildcard child (tagged class W1)
    pub allow_shadow: bool,
    pub versioned: bool,
    pub max_depth: usize,
    pub wildcards: bool,
    pub n: usize,
}

fn gen_template(rng: &mut Rng, cfg: &TableCfg, base: Option<&MEndpoint>) -> Vec<TSeg> {
    // often extend / reuse a prefix of an existing template to create shared
    // prefixes and near-conflicts
    let mut segs: Vec<TSeg> = vec![];
    if let Some(b) = base {
        let keep = rng.usize(b.segs.len() + 1);
        segs.extend(b.segs[..keep].iter().cloned());
        if let Some(TSeg::Wild(_)) = segs.last() {
            if rng.chance(3, 4) {
                return segs;
            }
            segs.pop();
        }
    }
    let depth = rng.usize(cfg.max_depth + 1);
    let mut used: Vec<String> = segs
        .iter()
        .filter_map(|s| match s {
            TSeg::Var(v) | TSeg::Wild(v) => Some(v.clone()),
            _ => None,
        })
        .collect();
    while segs.len() < depth {
        let r = rng.below(10);
        if r < 6 {
            segs.push(TSeg::Lit(rng.pick(&LITERALS).to_string()));
        } else if r < 9 || !cfg.wildcards {
            let free: Vec<&str> = ["x", "y", "z"]
                .into_iter()
                .filter(|n| !used.contains(&n.to_string()))
                .collect();
            if free.is_empty() {
                segs.push(TSeg::Lit(rng.pick(&LITERALS).to_string()));
            } else {
                let n = rng.pick(&free).to_string();
                used.push(n.clone());
                segs.push(TSeg::Var(n));
            }
        } else {
            if !used.contains(&"w".to_string()) {
                segs.push(TSeg::Wild("w".into()));
            }
            break;
        }
    }
    segs
}

/// Why the model refuses to add `e` to `table` (rules 1-5 of C02), if it does.
pub fn structural_conflict(table: &[MEndpoint], e: &MEndpoint) -> Option<String> {
    // rule 5: segments after wildcard
    for (i, s) in e.segs.iter().enumerate() {
        if matches!(s, TSeg::Wild(_)) && i + 1 != e.segs.len() {
            return Some("segments-after-wildcard".into());
        }
    }
    // rule 4: repeated variable
    let names = e.var_names();
    for (i, n) in names.iter().enumerate() {
        if names[..i].contains(n) {
            return Some("repeated-variable".into());
        }
    }
    for o in table {
        // walk the common prefix
        let mut same_node = true;
        let mut i = 0;
        while i < e.segs.len() && i < o.segs.len() {
            match (&e.segs[i], &o.segs[i]) {
                (TSeg::Lit(a), TSeg::Lit(b)) => {
                    if a != b {
                        same_node = false;
                        break;
                    }
                }
                (TSeg::Var(a), TSeg::Var(b)) | (TSeg::Wild(a), TSeg::Wild(b)) => {
                    if a != b {
                        return Some("variable-name-mismatch".into());
                    }
                }
                _ => return Some("segment-kind-mismatch".into()),
            }
            i += 1;
        }
        if !same_node {
            continue;
        }
        if e.segs.len() == o.segs.len()
            && e.method == o.method
            && e.range.intersects(&o.range)
        {
            return Some("same-method-path-overlapping-versions".into());
        }
        // T and T/{w:.*} both match the request path T (the wildcard with an
        // empty remainder): for the request set they share, they are "the same
        // method and path", so sharing a version makes dispatch ambiguous
        if e.method == o.method
            && e.range.intersects(&o.range)
            && wildcard_shadow(std::slice::from_ref(o), e)
        {
            return Some("same-method-path-overlapping-versions:wildcard-empty-match".into());
        }
    }
    None
}

/// Would adding `e` put an exact route and a wildcard route at the same trie
/// node (template T beside T/{w:.*})?  The model has no rule against it, but
/// see DESIGN.md §7-W1: such tables are generated only in a tagged class.
pub fn wildcard_shadow(table: &[MEndpoint], e: &MEndpoint) -> bool {
    for o in table {
        let (w, x) = if e.has_wild() && !o.has_wild() {
            (e, o)
        } else if o.has_wild() && !e.has_wild() {
            (o, e)
        } else {
            continue;
        };
        if x.segs.len() + 1 == w.segs.len()
            && x.segs.iter().zip(w.segs.iter()).all(|(a, b)| match (a, b) {
                (TSeg::Lit(p), TSeg::Lit(q)) => p == q,
                (TSeg::Var(_), TSeg::Var(_)) => true,
                _ => false,
            })
        {
            return true;
        }
    }
    false
}

/// Does this (normalised) request path sit exactly on a node that has both
/// its own handlers and a wildcard child?
pub fn on_shadowed_node(table: &[MEndpoint], segs: &[String]) -> bool {
    let mut exact = false;
    let mut wild_empty = false;
    for e in table {
        if let Some(b) = e.matches(segs) {
            if e.has_wild() {
                if b.values().any(|v| matches!(v, Binding::Many(m) if m.is_empty())) {
                    wild_empty = true;
                }
            } else {
                exact = true;
            }
        }
    }
    exact && wild_empty
}

pub fn gen_endpoint(
    rng: &mut Rng,
    cfg: &TableCfg,
    table: &[MEndpoint],
    u: &[MVer],
    idx: usize,
) -> MEndpoint {
    let base = if !table.is_empty() && rng.chance(2, 3) {
        Some(rng.pick(table).clone())
    } else {
        None
    };
    let (segs, method) = match &base {
        Some(b) if rng.chance(1, 3) => {
            // same path, other method or other version slice
            (b.segs.clone(), rng.pick(&METHODS).to_string())
        }
        _ => (
            gen_template(rng, cfg, base.as_ref()),
            {
                let k = 4 + rng.usize(5);
                rng.pick(&METHODS[..k]).to_string()
            },
        ),
    };
    let range = if cfg.versioned { gen_range(rng, u) } else { MRange::All };
    MEndpoint {
        opid: format!("op{idx}"),
        method,
        trailing_slash: !segs.is_empty() && rng.chance(1, 8),
        segs,
        range,
        visible: true,
    }
}

/// A table the conflict model accepts (rules 1-5) and that is unambiguous.
pub fn gen_table(rng: &mut Rng, cfg: &TableCfg, u: &[MVer]) -> Vec<MEndpoint> {
    let mut table: Vec<MEndpoint> = vec![];
    let mut tries = 0;
    while table.len() < cfg.n && tries < cfg.n * 6 {
        tries += 1;
        let e = gen_endpoint(rng, cfg, &table, u, table.len());
        if !e.range.nonempty() {
            continue;
        }
        if structural_conflict(&table, &e).is_some() {
            continue;
        }
        if wildcard_shadow(&table, &e) {
            if !cfg.allow_shadow {
                continue;
            }
            // same method with shared versions would be ambiguous in the model
            if table.iter().any(|o| {
                o.method == e.method
                    && o.range.intersects(&e.range)
                    && wildcard_shadow(std::slice::from_ref(o), &e)
            }) {
                continue;
            }
        }
        table.push(e);
    }
    table
}

/// One decoded request path: a list of byte-string segments.
pub fn gen_request_segments(
    rng: &mut Rng,
    table: &[MEndpoint],
    values: &[Vec<u8>],
) -> Vec<Vec<u8>> {
    let mut segs: Vec<Vec<u8>> = vec![];
    if table.is_empty() || rng.chance(1, 12) {
        for _ in 0..rng.usize(5) {
            segs.push(rng.pick(values).clone());
        }
        return segs;
    }
    let e = rng.pick(table);
    for t in &e.segs {
        match t {
            TSeg::Lit(l) => segs.push(l.as_bytes().to_vec()),
            TSeg::Var(_) => {
                // mostly benign values so that most probes hit
                if rng.chance(3, 4) {
                    segs.push(rng.pick(&values[..12]).clone());
                } else {
                    segs.push(rng.pick(values).clone());
                }
            }
            TSeg::Wild(_) => {
                for _ in 0..rng.usize(4) {
                    if rng.chance(3, 4) {
                        segs.push(rng.pick(&values[..12]).clone());
                    } else {
                        segs.push(rng.pick(values).clone());
                    }
                }
            }
        }
    }
    // mutations
    match rng.below(12) {
        0 => segs.push(rng.pick(values).clone()),
        1 => {
            segs.pop();
        }
        2 => {
            if !segs.is_empty() {
                let i = rng.usize(segs.len());
                segs[i] = rng.pick(&LITERALS).as_bytes().to_vec();
            }
        }
        3 => {
            if !segs.is_empty() {
                let i = rng.usize(segs.len());
                segs.remove(i);
            }
        }
        4 => {
            let i = rng.usize(segs.len() + 1);
            segs.insert(i, rng.pick(values).clone());
        }
        _ => {}
    }
    segs
}

/// Spell a decoded segment list as raw request-path bytes: optional per-byte
/// percent-encoding (random hex case), 1-3 slashes before each segment and
/// 0-2 trailing slashes.  `ascii_only` forces every byte >= 0x80 to be
/// encoded (needed when the path is passed as &str in process).
pub fn spell(rng: &mut Rng, segs: &[Vec<u8>], lavish: bool) -> Vec<u8> {
    let mut out = vec![];
    for s in segs {
        out.push(b'/');
        if lavish {
            for _ in 0..(rng.below(6) / 4 + rng.below(6) / 5) {
                out.push(b'/');
            }
        }
        let enc = pct_encode_with(s, must_encode_in_segment, || {
            if lavish {
                rng.next()
            } else {
                // never choose optional encoding: low two bits non-zero
                1
            }
        });
        out.extend_from_slice(&enc);
    }
    if segs.is_empty() {
        out.push(b'/');
    }
    if lavish {
        for _ in 0..(rng.below(6) / 4) {
            out.push(b'/');
        }
    }
    out
}

pub fn canonical_spelling(segs: &[Vec<u8>]) -> Vec<u8> {
    let mut r = Rng::new(0);
    spell(&mut r, segs, false)
}
