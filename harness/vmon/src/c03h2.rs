//! C03 over HTTP/2: the request path arrives as the `:path` pseudo-header, which
//! (unlike an HTTP/1.1 request line parsed by hyper) may lack the leading slash.
//! Dot segments in every spelling and byte sequences that are not UTF-8 must be
//! answered 400 without a handler running, whatever the shape of `:path`; valid
//! paths with repeated / trailing slashes must reach the handler with the same
//! segment list as their canonical spelling.

use crate::evlog::{next_uid, EvLog};
use crate::live::echo_api;
use crate::report::Report;
use crate::rng::Rng;
use crate::router_engine::dot_spellings;
use crate::srv::{start, Ctx, SrvCfg};
use dropshot::HandlerTaskMode;
use serde_json::{json, Value};
use std::time::Duration;

fn uri_for(addr: std::net::SocketAddr, path: &str) -> Option<http::Uri> {
    let mut parts = http::uri::Parts::default();
    parts.scheme = Some(http::uri::Scheme::HTTP);
    parts.authority = http::uri::Authority::try_from(addr.to_string()).ok();
    parts.path_and_query = http::uri::PathAndQuery::try_from(path).ok();
    parts.path_and_query.as_ref()?;
    http::Uri::from_parts(parts).ok()
}

pub fn run(seed: u64, rounds: usize) -> Report {
    let mut rep = Report::new(
        "C03",
        "E2-h2-paths",
        "a real server (both task modes) reached with the h2 crate's client (prior knowledge) so that `:path` is sent as given: dot \
         segments in all 12 spellings at every position of paths below the wildcard and the two-variable routes, with and without a \
         leading slash; segments that are not UTF-8 after decoding; expected 400 and no H_ENTER for the uid.  Controls: valid paths with \
         1-3 slashes at each boundary and trailing slashes must be answered 200 with the canonical segment list; class = (case, leading \
         slash?, position, mode)",
    );
    for mode in [HandlerTaskMode::Detached, HandlerTaskMode::CancelOnDisconnect] {
        let rt = match tokio::runtime::Builder::new_current_thread().enable_all().build() {
            Ok(r) => r,
            Err(e) => {
                rep.inconclusive(&format!("client runtime: {e}"));
                return rep;
            }
        };
        let log = EvLog::new();
        let ctx = Ctx::new(log.clone());
        let cfg = SrvCfg { mode, body_max: 1024, versioned: None, workers: 2 };
        let mut srv = match start(echo_api(&[]), ctx, &cfg) {
            Ok(s) => s,
            Err(e) => {
                rep.inconclusive(&format!("server start: {e}"));
                continue;
            }
        };
        let addr = srv.addr;
        let mode_tag = if matches!(mode, HandlerTaskMode::Detached) { "det" } else { "cod" };
        // ---- the cases: (class, :path, expectation)
        enum Want {
            Bad,
            Rest(Vec<&'static str>),
        }
        let mut cases: Vec<(String, String, Want)> = vec![];
        let dots: Vec<String> = dot_spellings().into_iter().map(|d| String::from_utf8(d).unwrap()).collect();
        for r in 0..rounds {
            let mut rng = Rng::derive(seed, "c03-h2", if mode_tag == "det" { 0 } else { 1 }, r as u64);
            let d = rng.pick(&dots).clone();
            let lead = if rng.bool() { "/" } else { "" };
            let lt = if lead.is_empty() { "no-leading-slash" } else { "leading-slash" };
            let (class, path) = match rng.below(8) {
                0 => (format!("dot-first|{lt}"), format!("{lead}{d}/w/a")),
                1 => (format!("dot-middle|{lt}"), format!("{lead}w/a/{d}/b")),
                2 => (format!("dot-last|{lt}"), format!("{lead}w/a/{d}")),
                3 => (format!("dot-only|{lt}"), format!("{lead}{d}")),
                4 => (format!("dot-as-variable|{lt}"), format!("{lead}p/{d}/b?uid=1")),
                5 => (format!("not-utf8-wildcard|{lt}"), format!("{lead}w/a/{}", rng.pick(&["%ff", "%C0%AF", "caf%C3", "%ED%A0%80"]))),
                6 => (format!("not-utf8-variable|{lt}"), format!("{lead}p/{}/b", rng.pick(&["%FF", "a%80b"]))),
                _ => (format!("dot-after-slashes|{lt}"), format!("{lead}w//a///{d}//b/")),
            };
            cases.push((class, path, Want::Bad));
            if r % 4 == 0 {
                let s = |rng: &mut Rng| "/".repeat(1 + rng.usize(3));
                let p = format!("{}w{}a{}b{}", s(&mut rng), s(&mut rng), s(&mut rng), if rng.bool() { s(&mut rng) } else { String::new() });
                cases.push(("control-valid-slashes".into(), p, Want::Rest(vec!["a", "b"])));
            }
        }
        let results: Vec<(String, String, Want, u64, Result<(u16, Vec<u8>), String>)> = rt.block_on(async {
            let mut out = vec![];
            let conn = async {
                let tcp = tokio::time::timeout(Duration::from_secs(10), tokio::net::TcpStream::connect(addr)).await.map_err(|_| "connect timeout".to_string())?.map_err(|e| e.to_string())?;
                let (client, conn) = tokio::time::timeout(Duration::from_secs(10), h2::client::handshake(tcp)).await.map_err(|_| "handshake timeout".to_string())?.map_err(|e| e.to_string())?;
                Ok::<_, String>((client, tokio::spawn(async move {
                    let _ = conn.await;
                })))
            };
            let mut cur = conn.await.ok();
            for (class, path, want) in cases {
                let uid = next_uid();
                let Some(uri) = uri_for(addr, &path) else {
                    out.push((class, path, want, uid, Err("client cannot express this :path".into())));
                    continue;
                };
                if cur.is_none() {
                    let tcp = tokio::net::TcpStream::connect(addr).await;
                    if let Ok(tcp) = tcp {
                        if let Ok((client, conn)) = h2::client::handshake(tcp).await {
                            cur = Some((client, tokio::spawn(async move {
                                let _ = conn.await;
                            })));
                        }
                    }
                }
                let Some((client, _)) = cur.as_mut() else {
                    out.push((class, path, want, uid, Err("no connection".into())));
                    continue;
                };
                let req = http::Request::builder().method("GET").uri(uri).header("x-vmon-uid", uid.to_string()).body(()).unwrap();
                let r = tokio::time::timeout(Duration::from_secs(20), async {
                    let mut c = client.clone().ready().await.map_err(|e| format!("ready: {e}"))?;
                    let (resp, _) = c.send_request(req, true).map_err(|e| format!("send_request: {e}"))?;
                    let resp = resp.await.map_err(|e| format!("response: {e}"))?;
                    let status = resp.status().as_u16();
                    let mut body = resp.into_body();
                    let mut got = vec![];
                    while let Some(chunk) = body.data().await {
                        let chunk = chunk.map_err(|e| format!("body: {e}"))?;
                        let _ = body.flow_control().release_capacity(chunk.len());
                        got.extend_from_slice(&chunk);
                    }
                    Ok::<_, String>((status, got))
                })
                .await
                .unwrap_or_else(|_| Err("watchdog".into()));
                if r.is_err() {
                    // a refused stream may take the connection with it: start afresh
                    if let Some((_, t)) = cur.take() {
                        t.abort();
                    }
                }
                out.push((class, path, want, uid, r));
            }
            if let Some((_, t)) = cur.take() {
                t.abort();
            }
            out
        });
        // the client runtime goes first, with every socket it still owns: a silent peer on
        // an open HTTP/2 connection keeps graceful shutdown waiting (DESIGN.md §7, O1)
        drop(rt);
        let _ = srv.close();
        let entered: std::collections::HashSet<u64> = log.snapshot().iter().filter(|e| e.kind == "H_ENTER").map(|e| e.uid).collect();
        for (class, path, want, uid, r) in results {
            let wit = |extra: Value| json!({"seed": seed, "mode": mode_tag, "transport": "h2", ":path": path, "class": class, "detail": extra});
            match (&want, r) {
                (_, Err(e)) if e.starts_with("client cannot") => rep.count("paths_the_client_cannot_express", 1),
                (_, Err(e)) if e == "watchdog" || e == "no connection" => rep.inconclusive(&format!("h2 request: {e}")),
                (Want::Bad, Err(e)) => {
                    // the stream was refused below HTTP semantics (RST_STREAM / GOAWAY): not
                    // a 400, but no handler may have run
                    rep.eval(format!("{class}|{mode_tag}|stream-error"));
                    rep.count("bad_paths_refused_with_stream_error", 1);
                    if entered.contains(&uid) {
                        rep.violate("C03:h2:handler-ran-for-invalid-path", wit(json!({"stream_error": e})));
                    }
                }
                (Want::Bad, Ok((status, body))) => {
                    rep.eval(format!("{class}|{mode_tag}|{status}"));
                    let what = if class.starts_with("dot") { "dot-segment" } else { "non-utf8" };
                    if entered.contains(&uid) {
                        rep.violate(format!("C03:h2:{what}-path-dispatched"), wit(json!({"status": status, "body": String::from_utf8_lossy(&body).chars().take(300).collect::<String>()})));
                    } else if status != 400 {
                        rep.violate(format!("C03:h2:{what}-path-not-400"), wit(json!({"status": status, "body": String::from_utf8_lossy(&body).chars().take(300).collect::<String>()})));
                    }
                }
                (Want::Rest(segs), Ok((status, body))) => {
                    rep.eval(format!("{class}|{mode_tag}|{status}"));
                    let j: Value = serde_json::from_slice(&body).unwrap_or(Value::Null);
                    if status != 200 || j["args"]["path"]["rest"] != json!(segs) {
                        rep.violate("C03:h2:valid-path-not-normalised", wit(json!({"status": status, "body": String::from_utf8_lossy(&body).chars().take(300).collect::<String>()})));
                    }
                }
                (Want::Rest(_), Err(e)) => rep.violate("C03:h2:valid-path-refused", wit(json!({"error": e}))),
            }
        }
    }
    rep
}
