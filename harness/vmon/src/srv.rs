//! Starting real dropshot servers for the live engines.

use crate::evlog::EvLog;
use dropshot::{
    ApiDescription, ClientSpecifiesVersionInHeader, ConfigDropshot,
    HandlerTaskMode, HttpServer, ServerBuilder, VersionPolicy,
};
use std::collections::HashMap;
use std::net::SocketAddr;
use std::sync::atomic::{AtomicU64, Ordering};
use std::sync::{Arc, Mutex};

/// Per-uid gate a handler can wait on (opened by the scenario driver).
#[derive(Default)]
pub struct Gates {
    m: Mutex<HashMap<u64, Arc<tokio::sync::Notify>>>,
    open: Mutex<std::collections::HashSet<u64>>,
}

impl Gates {
    fn notify(&self, uid: u64) -> Arc<tokio::sync::Notify> {
        self.m.lock().unwrap().entry(uid).or_default().clone()
    }
    pub fn open(&self, uid: u64) {
        self.open.lock().unwrap().insert(uid);
        self.notify(uid).notify_waiters();
    }
    pub fn is_open(&self, uid: u64) -> bool {
        self.open.lock().unwrap().contains(&uid)
    }
    pub async fn wait(&self, uid: u64) {
        let n = self.notify(uid);
        loop {
            let fut = n.notified();
            tokio::pin!(fut);
            // register interest before checking the flag
            fut.as_mut().enable();
            if self.is_open(uid) {
                return;
            }
            fut.await;
        }
    }
}

/// The private context of every harness server.
pub struct Ctx {
    pub log: EvLog,
    pub gates: Gates,
    pub instance: u64,
    pub data: Mutex<HashMap<String, serde_json::Value>>,
}

static INSTANCE: AtomicU64 = AtomicU64::new(1);

impl Ctx {
    pub fn new(log: EvLog) -> Arc<Ctx> {
        Arc::new(Ctx {
            log,
            gates: Gates::default(),
            instance: INSTANCE.fetch_add(1, Ordering::Relaxed),
            data: Mutex::new(HashMap::new()),
        })
    }
}

pub type C = Arc<Ctx>;

#[derive(Clone, Debug)]
pub struct SrvCfg {
    pub mode: HandlerTaskMode,
    pub body_max: usize,
    /// Some((header name, max version)) => versioned by header
    pub versioned: Option<(String, String)>,
    pub workers: usize,
}

impl Default for SrvCfg {
    fn default() -> Self {
        SrvCfg {
            mode: HandlerTaskMode::Detached,
            body_max: 1024,
            versioned: None,
            workers: 4,
        }
    }
}

pub const CLOSE_WATCHDOG_S: u64 = 60;
pub const CLOSE_HUNG: &str = "CLOSE_HUNG";

pub struct Running {
    pub rt: Option<tokio::runtime::Runtime>,
    pub server: Option<HttpServer<C>>,
    pub addr: SocketAddr,
    pub ctx: C,
}

/// The server's own request log as a second event source: which request ids the
/// server recorded as "request completed" and which as "request handling
/// cancelled (client disconnected)".  Enabled per process by `enable_log_capture`.
#[derive(Default)]
pub struct LogCapture {
    pub completed: Mutex<HashMap<String, u32>>,
    pub cancelled: Mutex<HashMap<String, u32>>,
    pub records: AtomicU64,
}

static CAPTURE: std::sync::OnceLock<Arc<LogCapture>> = std::sync::OnceLock::new();

pub fn enable_log_capture() -> Arc<LogCapture> {
    CAPTURE.get_or_init(|| Arc::new(LogCapture::default())).clone()
}

struct ReqIdOf(Option<String>);
impl slog::Serializer for ReqIdOf {
    fn emit_arguments(&mut self, key: slog::Key, val: &std::fmt::Arguments) -> slog::Result {
        if key == "req_id" {
            self.0 = Some(val.to_string());
        }
        Ok(())
    }
}

struct CaptureDrain(Arc<LogCapture>);
impl slog::Drain for CaptureDrain {
    type Ok = ();
    type Err = slog::Never;
    fn log(&self, record: &slog::Record, values: &slog::OwnedKVList) -> Result<(), slog::Never> {
        use slog::KV;
        self.0.records.fetch_add(1, Ordering::Relaxed);
        let msg = record.msg().to_string();
        let which = if msg == "request completed" {
            Some(&self.0.completed)
        } else if msg.starts_with("request handling cancelled") {
            Some(&self.0.cancelled)
        } else {
            None
        };
        if let Some(map) = which {
            let mut ser = ReqIdOf(None);
            let _ = values.serialize(record, &mut ser);
            let _ = record.kv().serialize(record, &mut ser);
            if let Some(id) = ser.0 {
                *map.lock().unwrap().entry(id).or_insert(0) += 1;
            }
        }
        Ok(())
    }
}

/// the logger every harness server gets: discards everything, unless log capture
/// was enabled for this process
pub fn discard_logger() -> slog::Logger {
    match CAPTURE.get() {
        Some(cap) => slog::Logger::root(slog::Fuse(CaptureDrain(cap.clone())), slog::o!()),
        None => slog::Logger::root(slog::Discard, slog::o!()),
    }
}

pub fn start(
    api: ApiDescription<C>,
    ctx: C,
    cfg: &SrvCfg,
) -> Result<Running, String> {
    let rt = tokio::runtime::Builder::new_multi_thread()
        .worker_threads(cfg.workers.max(1))
        .enable_all()
        .build()
        .map_err(|e| format!("runtime: {e}"))?;
    let config = ConfigDropshot {
        bind_address: "127.0.0.1:0".parse().unwrap(),
        default_request_body_max_bytes: cfg.body_max,
        default_handler_task_mode: cfg.mode,
        log_headers: vec![],
    };
    let mut b = ServerBuilder::new(api, ctx.clone(), discard_logger()).config(config);
    if let Some((h, max)) = &cfg.versioned {
        let name = http::HeaderName::from_bytes(h.as_bytes()).unwrap();
        let max = semver::Version::parse(max).unwrap();
        b = b.version_policy(VersionPolicy::Dynamic(Box::new(
            ClientSpecifiesVersionInHeader::new(name, max),
        )));
    }
    let server = rt
        .block_on(async move { b.start() })
        .map_err(|e| format!("start: {e}"))?;
    let addr = server.local_addr();
    Ok(Running { rt: Some(rt), server: Some(server), addr, ctx })
}

impl Running {
    /// graceful close; returns close()'s result
    pub fn close(&mut self) -> Option<Result<(), String>> {
        let server = self.server.take()?;
        let rt = self.rt.as_ref()?;
        // HttpServer::close() panics ("failed to send close signal") when the server's
        // accept-loop task is already gone; that is a finding for the caller to judge,
        // not a reason for the harness to die
        // bounded, and bounded from OUTSIDE the server's runtime (its timers stop when
        // every worker thread is stuck): a helper thread drives close(), this thread
        // waits for it with a std timeout; callers see CLOSE_HUNG in the error text
        let handle = rt.handle().clone();
        let (tx, rx) = std::sync::mpsc::channel();
        let spawned = std::thread::Builder::new().name("vmon-close".into()).spawn(move || {
            let r = crate::panics::catch_quiet(std::panic::AssertUnwindSafe(|| handle.block_on(server.close())));
            let _ = tx.send(r);
        });
        if spawned.is_err() {
            return Some(Err("could not spawn the close() helper thread".into()));
        }
        Some(match rx.recv_timeout(std::time::Duration::from_secs(CLOSE_WATCHDOG_S)) {
            Ok(Ok(r)) => r,
            Ok(Err(p)) => Err(format!("close() panicked: {}", p.message)),
            Err(_) => Err(format!("{CLOSE_HUNG}: close() did not return within {CLOSE_WATCHDOG_S} s")),
        })
    }

    pub fn handle(&self) -> tokio::runtime::Handle {
        self.rt.as_ref().unwrap().handle().clone()
    }
}

impl Drop for Running {
    fn drop(&mut self) {
        if let (Some(server), Some(rt)) = (self.server.take(), self.rt.as_ref()) {
            let _ = crate::panics::catch_quiet(std::panic::AssertUnwindSafe(|| {
                rt.block_on(async {
                    tokio::time::timeout(std::time::Duration::from_secs(10), server.close())
                        .await
                })
            }));
        }
        if let Some(rt) = self.rt.take() {
            rt.shutdown_background();
        }
    }
}
