//! C18 against a server in its OWN PROCESS.  The in-process engines cannot see the
//! worst outcome of hostile input — the whole process going down (allocation
//! failure aborts and stack overflows escape `catch_unwind`) — because the monitor
//! dies with it.  Here the harness binary starts itself as a child (`c18-serve`),
//! the child runs a real dropshot server, and the parent sends the faults and
//! watches the child: it must still be running after every fault group, must keep
//! answering well-formed requests, and must shut down cleanly when asked.

use crate::c18::{announced_size_faults, drive, h2_faults, health_check_fresh, random_fault, End};
use crate::evlog::EvLog;
use crate::live::echo_api;
use crate::report::Report;
use crate::rng::Rng;
use crate::srv::{start, Ctx, SrvCfg};
use dropshot::HandlerTaskMode;
use serde_json::json;
use std::io::{BufRead, BufReader, Write};
use std::net::SocketAddr;
use std::process::{Child, Command, Stdio};
use std::time::{Duration, Instant};

/// child side: `vmon c18-serve <det|cod> <body_max>`; prints `PORT <n>`, serves until
/// stdin reaches EOF, closes gracefully, prints `CLOSED <result>`.
pub fn serve(mode: &str, body_max: usize) -> i32 {
    let mode = if mode == "cod" { HandlerTaskMode::CancelOnDisconnect } else { HandlerTaskMode::Detached };
    let ctx = Ctx::new(EvLog::new());
    let cfg = SrvCfg { mode, body_max, versioned: None, workers: 4 };
    let mut srv = match start(echo_api(&[]), ctx, &cfg) {
        Ok(s) => s,
        Err(e) => {
            println!("ERROR {e}");
            return 3;
        }
    };
    println!("PORT {}", srv.addr.port());
    let _ = std::io::stdout().flush();
    let mut sink = String::new();
    // block until the parent closes our stdin
    while std::io::stdin().read_line(&mut sink).map(|n| n > 0).unwrap_or(false) {
        sink.clear();
    }
    let r = srv.close();
    println!("CLOSED {r:?}");
    let _ = std::io::stdout().flush();
    match r {
        Some(Ok(())) => 0,
        _ => 4,
    }
}

struct ChildSrv {
    child: Child,
    out: BufReader<std::process::ChildStdout>,
    addr: SocketAddr,
    /// the last bytes the child wrote to stderr (drained continuously so that the
    /// child can never block on a full pipe)
    err_tail: std::sync::Arc<std::sync::Mutex<Vec<u8>>>,
}

fn spawn(mode_tag: &str, body_max: usize) -> Result<ChildSrv, String> {
    let exe = std::env::current_exe().map_err(|e| format!("current_exe: {e}"))?;
    let mut child = Command::new(exe)
        .args(["c18-serve", mode_tag, &body_max.to_string()])
        .stdin(Stdio::piped())
        .stdout(Stdio::piped())
        .stderr(Stdio::piped())
        .spawn()
        .map_err(|e| format!("spawn: {e}"))?;
    let mut out = BufReader::new(child.stdout.take().unwrap());
    let err_tail = std::sync::Arc::new(std::sync::Mutex::new(Vec::new()));
    if let Some(mut e) = child.stderr.take() {
        let tail = err_tail.clone();
        std::thread::spawn(move || {
            use std::io::Read;
            let mut buf = [0u8; 8192];
            while let Ok(n) = e.read(&mut buf) {
                if n == 0 {
                    break;
                }
                let mut t = tail.lock().unwrap();
                t.extend_from_slice(&buf[..n]);
                let len = t.len();
                if len > 4000 {
                    t.drain(..len - 4000);
                }
            }
        });
    }
    let mut line = String::new();
    out.read_line(&mut line).map_err(|e| format!("child stdout: {e}"))?;
    let port: u16 = line.trim().strip_prefix("PORT ").and_then(|p| p.parse().ok()).ok_or_else(|| format!("child said {line:?}"))?;
    Ok(ChildSrv { child, out, addr: SocketAddr::from(([127, 0, 0, 1], port)), err_tail })
}

fn status_text(st: std::process::ExitStatus) -> String {
    use std::os::unix::process::ExitStatusExt;
    match (st.code(), st.signal()) {
        (Some(c), _) => format!("exit-code-{c}"),
        (None, Some(s)) => format!("signal-{s}"),
        _ => "unknown".into(),
    }
}

fn stderr_tail(srv: &ChildSrv) -> String {
    // the drain thread sees EOF shortly after the child is gone
    std::thread::sleep(Duration::from_millis(100));
    let t = srv.err_tail.lock().unwrap();
    let s = String::from_utf8_lossy(&t).to_string();
    let n = s.chars().count();
    s.chars().skip(n.saturating_sub(1500)).collect()
}

fn vm_hwm_kib(pid: u32) -> Option<u64> {
    let st = std::fs::read_to_string(format!("/proc/{pid}/status")).ok()?;
    st.lines().find(|l| l.starts_with("VmHWM:"))?.split_whitespace().nth(1)?.parse().ok()
}

/// A body far over the limit that arrives in pieces each WITHIN the limit (chunks of
/// 4000 bytes against a 4096-byte limit, 192 MiB in all) to every buffering extractor:
/// whatever the answer, the server must not keep it — the child's peak resident set
/// may not grow by anything like the body's size.
fn oversized_stream_group(rep: &mut Report, addr: SocketAddr, pid: u32, mode_tag: &str, seed: u64) {
    use std::io::Write;
    const TOTAL: usize = 192 << 20;
    for (path, ct) in [("/raw", "application/octet-stream"), ("/json", "application/json"), ("/form", "application/x-www-form-urlencoded")] {
        let Some(before) = vm_hwm_kib(pid) else {
            rep.inconclusive("cannot read the child's VmHWM");
            return;
        };
        let Ok(mut sock) = std::net::TcpStream::connect(addr) else {
            rep.inconclusive("connect");
            continue;
        };
        let _ = sock.set_write_timeout(Some(Duration::from_secs(20)));
        let head = format!("POST {path} HTTP/1.1\r\nhost: a\r\ncontent-type: {ct}\r\nx-vmon-uid: 0\r\ntransfer-encoding: chunked\r\n\r\n");
        let mut chunk = b"fa0\r\n".to_vec();
        chunk.extend(std::iter::repeat(if path == "/json" { b' ' } else { b'a' }).take(4000));
        chunk.extend_from_slice(b"\r\n");
        let mut sent = 0usize;
        if sock.write_all(head.as_bytes()).is_ok() {
            // several chunks per write; a refusal may close the connection early
            let batch: Vec<u8> = chunk.iter().cycle().take(chunk.len() * 16).copied().collect();
            while sent < TOTAL {
                if sock.write_all(&batch).is_err() {
                    break;
                }
                sent += 4000 * 16;
            }
            let _ = sock.write_all(b"0\r\n\r\n");
        }
        drop(sock);
        std::thread::sleep(Duration::from_millis(200));
        let after = vm_hwm_kib(pid).unwrap_or(before);
        let grown = after.saturating_sub(before);
        rep.eval(format!("oversized-in-small-chunks|{path}|{mode_tag}|sent~{}MiB", sent >> 20));
        rep.count("oversized_stream_bytes_sent", sent as u64);
        if grown > (96 << 10) && sent > (128 << 20) {
            rep.violate(
                "C18:server-memory-grows-with-oversized-body",
                json!({"seed": seed, "mode": mode_tag, "path": path, "body_limit": 4096, "chunk_size": 4000, "body_bytes_sent": sent,
                       "child_peak_rss_before_kib": before, "child_peak_rss_after_kib": after,
                       "what": "a body 49152 times the limit, sent in chunks each within the limit, was kept in memory by the server process"}),
            );
        }
    }
}

pub fn run(seed: u64, quick: bool) -> Report {
    let mut rep = Report::new(
        "C18",
        "E2-hostile-traffic-vs-server-process",
        "the server runs in a child process of its own (both task modes); fault groups: requests announcing body sizes from 2^31 to \
         beyond 2^64 (Content-Length or chunk size) to every body extractor with 0 / few / many bytes actually sent, then FIN / RST / hold; \
         a 192 MiB body in 4000-byte chunks (each within the 4096-byte limit) to every buffering extractor while the child's peak resident set is read from /proc (growth by more than 96 MiB = the body was kept); HTTP/2 streams over and under the body limit reset with each RST_STREAM reason, dropped with the connection, or ended short of their \
         content-length, 1-8 streams at once; a sample of the random HTTP/1.1 faults of c18-hostile.  Oracle after every group: the child \
         process is still running (no abort, no signal), a fresh-connection health probe is answered, no announced-but-unsent body is \
         answered 2xx; at the end the child closes gracefully with exit status 0.  class = fault class x end x mode",
    );
    let limit = 4096;
    for mode_tag in ["det", "cod"] {
        let mut srv = match spawn(mode_tag, limit) {
            Ok(s) => s,
            Err(e) => {
                rep.inconclusive(&format!("child server: {}", e.chars().take(80).collect::<String>()));
                continue;
            }
        };
        let addr = srv.addr;
        let mut rng = Rng::derive(seed, "c18-proc", if mode_tag == "det" { 0 } else { 1 }, 0);
        let mut groups: Vec<(&'static str, Box<dyn FnOnce(&mut Report)>)> = vec![];
        let n_sizes = if quick { 110 } else { 1100 };
        let sizes = announced_size_faults(&mut rng, n_sizes);
        groups.push(("announced-size", Box::new(move |rep: &mut Report| drive(rep, addr, sizes, 8, mode_tag, seed))));
        let n_h2 = if quick { 36 } else { 400 };
        groups.push(("h2-stream-faults", Box::new(move |rep: &mut Report| h2_faults(rep, addr, n_h2, seed ^ 0x51, mode_tag, limit))));
        let mut randoms = vec![];
        for i in 0..(if quick { 300 } else { 6000 }) {
            let mut r = Rng::derive(seed, "c18-proc-fault", if mode_tag == "det" { 0 } else { 1 }, i as u64);
            let mut f = random_fault(&mut r);
            if f.end == End::Fin && !f.dribble {
                f.end = *r.pick(&[End::Fin, End::Hold, End::Rst]);
            }
            randoms.push(f);
        }
        groups.push(("random-faults", Box::new(move |rep: &mut Report| drive(rep, addr, randoms, 8, mode_tag, seed))));
        let pid = srv.child.id();
        let mt: &'static str = mode_tag;
        groups.insert(1, ("oversized-in-small-chunks", Box::new(move |rep: &mut Report| oversized_stream_group(rep, addr, pid, mt, seed))));
        let mut dead = false;
        for (gname, g) in groups {
            g(&mut rep);
            match srv.child.try_wait() {
                Ok(None) => {
                    rep.eval(format!("child-alive-after|{gname}|{mode_tag}"));
                    match health_check_fresh(addr) {
                        Ok(()) => rep.count("fresh_connection_health_probes_ok", 1),
                        Err(e) => {
                            std::thread::sleep(Duration::from_secs(2));
                            if let Err(e2) = health_check_fresh(addr) {
                                rep.violate(
                                    "C18:server-not-answering-after-faults",
                                    json!({"error": e, "second_probe": e2, "after_group": gname, "mode": mode_tag, "server": "child process"}),
                                );
                                // nothing more to learn from a server that has stopped answering
                                let _ = srv.child.kill();
                                let _ = srv.child.wait();
                                dead = true;
                            }
                        }
                    }
                }
                Ok(Some(st)) => {
                    let how = status_text(st);
                    rep.violate(
                        format!("C18:server-process-died:{gname}"),
                        json!({"exit": how, "after_group": gname, "mode": mode_tag, "seed": seed, "child_stderr_tail": stderr_tail(&srv)}),
                    );
                    dead = true;
                    break;
                }
                Err(e) => {
                    rep.inconclusive(&format!("try_wait: {e}"));
                    dead = true;
                    break;
                }
            }
            if dead {
                break;
            }
        }
        if dead {
            continue;
        }
        // graceful shutdown: close the child's stdin and wait (bounded) for its exit
        drop(srv.child.stdin.take());
        let t0 = Instant::now();
        let st = loop {
            match srv.child.try_wait() {
                Ok(Some(st)) => break Some(st),
                Ok(None) if t0.elapsed() > Duration::from_secs(60) => break None,
                Ok(None) => std::thread::sleep(Duration::from_millis(20)),
                Err(_) => break None,
            }
        };
        let mut said = String::new();
        let _ = srv.out.read_line(&mut said);
        match st {
            Some(st) if st.success() => rep.eval(format!("child-closed-cleanly|{mode_tag}")),
            Some(st) => rep.violate(
                "C18:server-task-died",
                json!({"exit": status_text(st), "child_said": said.trim(), "mode": mode_tag, "child_stderr_tail": stderr_tail(&srv)}),
            ),
            None => {
                let _ = srv.child.kill();
                let _ = srv.child.wait();
                rep.inconclusive("child server did not exit within 60 s of being asked to close");
            }
        }
    }
    rep
}
