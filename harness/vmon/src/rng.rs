//! Deterministic PRNG (splitmix64 seeding + xoshiro256**), own code so that a
//! (seed, property, shard, case) tuple replays identically everywhere.

#[derive(Clone, Debug)]
pub struct Rng {
    s: [u64; 4],
}

fn splitmix(x: &mut u64) -> u64 {
    *x = x.wrapping_add(0x9E37_79B9_7F4A_7C15);
    let mut z = *x;
    z = (z ^ (z >> 30)).wrapping_mul(0xBF58_476D_1CE4_E5B9);
    z = (z ^ (z >> 27)).wrapping_mul(0x94D0_49BB_1331_11EB);
    z ^ (z >> 31)
}

pub fn fnv1a(data: &[u8]) -> u64 {
    let mut h: u64 = 0xcbf2_9ce4_8422_2325;
    for b in data {
        h ^= u64::from(*b);
        h = h.wrapping_mul(0x0000_0100_0000_01B3);
    }
    h
}

impl Rng {
    pub fn new(seed: u64) -> Rng {
        let mut x = seed;
        let s = [
            splitmix(&mut x),
            splitmix(&mut x),
            splitmix(&mut x),
            splitmix(&mut x),
        ];
        Rng { s }
    }

    /// Derive a generator from (seed, label, shard, index).
    pub fn derive(seed: u64, label: &str, shard: u64, index: u64) -> Rng {
        let mut x = seed ^ fnv1a(label.as_bytes()).rotate_left(17);
        let a = splitmix(&mut x);
        let mut y = a ^ shard.wrapping_mul(0xA24B_AED4_963E_E407);
        let b = splitmix(&mut y);
        let mut z = b ^ index.wrapping_mul(0x9FB2_1C65_1E98_DF25);
        Rng::new(splitmix(&mut z))
    }

    pub fn next(&mut self) -> u64 {
        let r = self.s[1].wrapping_mul(5).rotate_left(7).wrapping_mul(9);
        let t = self.s[1] << 17;
        self.s[2] ^= self.s[0];
        self.s[3] ^= self.s[1];
        self.s[1] ^= self.s[2];
        self.s[0] ^= self.s[3];
        self.s[2] ^= t;
        self.s[3] = self.s[3].rotate_left(45);
        r
    }

    /// uniform in 0..n (n > 0)
    pub fn below(&mut self, n: u64) -> u64 {
        debug_assert!(n > 0);
        // multiply-shift; bias is irrelevant here
        ((u128::from(self.next()) * u128::from(n)) >> 64) as u64
    }

    pub fn usize(&mut self, n: usize) -> usize {
        self.below(n as u64) as usize
    }

    /// inclusive range
    pub fn range(&mut self, lo: i64, hi: i64) -> i64 {
        lo + self.below((hi - lo + 1) as u64) as i64
    }

    pub fn chance(&mut self, num: u64, den: u64) -> bool {
        self.below(den) < num
    }

    pub fn bool(&mut self) -> bool {
        self.next() & 1 == 1
    }

    pub fn pick<'a, T>(&mut self, xs: &'a [T]) -> &'a T {
        &xs[self.usize(xs.len())]
    }

    pub fn shuffle<T>(&mut self, xs: &mut [T]) {
        for i in (1..xs.len()).rev() {
            let j = self.usize(i + 1);
            xs.swap(i, j);
        }
    }

    pub fn bytes(&mut self, n: usize) -> Vec<u8> {
        (0..n).map(|_| self.next() as u8).collect()
    }

    pub fn f64(&mut self) -> f64 {
        (self.next() >> 11) as f64 / (1u64 << 53) as f64
    }
}
