//! C11: request bodies larger than the limit are never delivered; bodies up to
//! the limit are delivered intact, whatever the framing.

use crate::client::*;
use crate::evlog::{next_uid, EvLog};
use crate::live::echo_api;
use crate::report::Report;
use crate::rng::{fnv1a, Rng};
use crate::srv::{start, Ctx, SrvCfg};
use dropshot::HandlerTaskMode;
use serde_json::{json, Value};
use std::collections::HashMap;
use std::time::Duration;

const OVERRIDES: [usize; 5] = [0, 1, 100, 70_000, usize::MAX];

/// a body of exactly `len` bytes valid for `kind` (None if impossible)
fn make_body(rng: &mut Rng, kind: &str, len: usize, uid: u64) -> Option<(Vec<u8>, String, Value)> {
    match kind {
        "raw" | "stream" => {
            let b = rng.bytes(len);
            let exp = json!({"len": len, "hash": fnv1a(&b).to_string()});
            Some((b, "application/octet-stream".into(), exp))
        }
        "json" => {
            let skeleton = |pad: &str| {
                format!(
                    "{{\"s\":\"{pad}\",\"u\":1,\"i\":-1,\"f\":1.5,\"b\":true,\"e\":\"red\",\"v\":[],\"m\":{{}},\"nested\":{{\"a\":\"q\",\"n\":3}},\"uid\":{uid}}}"
                )
            };
            let min = skeleton("").len();
            if len < min {
                return None;
            }
            let pad = "a".repeat(len - min);
            let b = skeleton(&pad).into_bytes();
            Some((b, "application/json".into(), json!({"s_len": pad.len()})))
        }
        "form" => {
            let skeleton = |pad: &str| format!("s={pad}&u=1&i=-1&b=true&e=red&uid={uid}");
            let min = skeleton("").len();
            if len < min {
                return None;
            }
            let pad = "a".repeat(len - min);
            Some((skeleton(&pad).into_bytes(), "application/x-www-form-urlencoded".into(), json!({"s_len": pad.len()})))
        }
        _ => {
            // multipart: one field whose content pads the whole encoding to `len`
            let boundary = "vmonBOUNDARYvmon";
            let head = format!("--{boundary}\r\nContent-Disposition: form-data; name=\"f\"\r\n\r\n");
            // no epilogue after the close delimiter: the parser stops at the delimiter and
            // would leave trailing bytes unread (and uncounted)
            let tail = format!("\r\n--{boundary}--");
            let min = head.len() + tail.len();
            if len < min {
                return None;
            }
            let content: Vec<u8> = (0..len - min).map(|_| b'a' + (rng.next() % 26) as u8).collect();
            let mut b = head.into_bytes();
            b.extend_from_slice(&content);
            b.extend_from_slice(tail.as_bytes());
            Some((
                b,
                format!("multipart/form-data; boundary={boundary}"),
                json!({"total": content.len(), "hash": fnv1a(&content).to_string()}),
            ))
        }
    }
}

fn check_delivered(kind: &str, resp: &Resp, exp: &Value) -> Option<String> {
    let j = resp.json()?;
    let a = &j["args"];
    let ok = match kind {
        "raw" | "stream" => a["len"] == exp["len"] && a["hash"] == exp["hash"],
        "json" | "form" => a["body"]["s"].as_str().map(|s| s.len() as u64) == exp["s_len"].as_u64(),
        _ => a["total"] == exp["total"] && a["fields"][0]["hash"] == exp["hash"],
    };
    if ok {
        None
    } else {
        Some(format!("{a}").chars().take(300).collect())
    }
}

pub struct Work {
    pub defaults: Vec<usize>,
    pub per_combo: usize,
    pub huge: bool,
}

pub fn run(seed: u64, w: &Work) -> Report {
    let mut rep = Report::new(
        "C11",
        "E2-body-limit",
        "servers with default limit in {0,1,7,1024,65536} x endpoints with override in {none,0,1,100,70000,usize::MAX} x extractors \
         {TypedBody json, TypedBody urlencoded, UntypedBody, StreamingBody, MultipartBody}; body length L in {0, limit-1, limit, limit+1, \
         2*limit, limit+65536, (thorough) 5 MB, random}; framing: content-length in one write / dribbled, chunked with 1-byte chunks, \
         random chunks, a chunk boundary exactly at the limit, one huge chunk, a within-limit Content-Length header followed by a chunked over-limit body; oracle: L <= limit => 200 and length+hash intact, \
         L > limit => 4xx, and for every request max(H_BYTES logged by the handler) <= limit; class = (extractor, limit source, \
         L relative to limit, framing)",
    );
    let kinds = ["raw", "stream", "json", "form", "multi"];
    for &default in &w.defaults {
        for mode in [HandlerTaskMode::Detached, HandlerTaskMode::CancelOnDisconnect] {
            let log = EvLog::new();
            let ctx = Ctx::new(log.clone());
            let cfg = SrvCfg { mode, body_max: default, versioned: None, workers: 4 };
            let mut srv = match start(echo_api(&OVERRIDES), ctx, &cfg) {
                Ok(s) => s,
                Err(e) => {
                    rep.inconclusive(&format!("server start: {e}"));
                    continue;
                }
            };
            let addr = srv.addr;
            let mode_tag = if matches!(mode, HandlerTaskMode::Detached) { "det" } else { "cod" };
            let per = w.per_combo;
            let huge = w.huge;
            let hs: Vec<_> = kinds
                .iter()
                .enumerate()
                .map(|(ki, kind)| {
                    let kind = *kind;
                    std::thread::spawn(move || {
                        let mut rep = Report::new("C11", "E2-body-limit", "");
                        let mut limits: HashMap<u64, (usize, Value)> = HashMap::new();
                        let mut combos: Vec<Option<usize>> = vec![None];
                        combos.extend(OVERRIDES.iter().map(|o| Some(*o)));
                        for (ci, ov) in combos.iter().enumerate() {
                            let limit = ov.unwrap_or(default);
                            let path = match ov {
                                None => format!("/{kind}"),
                                Some(n) => format!("/{kind}-o{n}"),
                            };
                            for k in 0..per {
                                let mut rng = Rng::derive(seed, "c11", (default * 100 + ki * 10 + ci) as u64 + if mode_tag == "det" { 0 } else { 7777 }, k as u64);
                                let lens: Vec<(usize, &str)> = if limit > (1 << 40) {
                                    // an effectively unlimited endpoint: every body we can send is within it
                                    vec![(0, "zero"), (1, "random-below"), (rng.usize(5000), "random-below"), (70_000 + rng.usize(70_000), "random-below")]
                                } else {
                                    vec![
                                    (0, "zero"),
                                    (limit.saturating_sub(1), "limit-1"),
                                    (limit, "limit"),
                                    (limit + 1, "limit+1"),
                                    (2 * limit + 2, "2xlimit"),
                                    (limit + 65536, "limit+64k"),
                                    (rng.usize(limit + 1), "random-below"),
                                    (limit + 1 + rng.usize(3 * limit + 200), "random-above"),
                                    (5 << 20, "5MB"),
                                ]
                                };
                                let (len, lclass) = loop {
                                    let c = *rng.pick(&lens);
                                    if c.1 == "5MB" && !(huge && rng.chance(1, 20)) {
                                        continue;
                                    }
                                    break c;
                                };
                                let uid = next_uid();
                                let Some((body, ct, exp)) = make_body(&mut rng, kind, len, uid) else {
                                    continue;
                                };
                                let mut req = Req::new("POST", &path).uid(uid).header("content-type", &ct).body(&body);
                                let framing: &str = match rng.below(8) {
                                    7 if len > limit => {
                                        // a Content-Length within the limit FOLLOWED by Transfer-Encoding:
                                        // chunked (RFC 9112 6.3: the transfer coding decides the length; hyper
                                        // accepts the request and leaves the header in place): the real body
                                        // is over the limit
                                        req = req.header("content-length", &rng.usize(limit + 1).to_string());
                                        req.chunked = Some((0..4).map(|_| 1 + rng.usize(3000)).collect());
                                        "content-length-then-chunked"
                                    }
                                    0 if len <= 3000 => {
                                        req.chunked = Some(vec![1]);
                                        "chunked-1"
                                    }
                                    1 => {
                                        req.chunked = Some((0..5).map(|_| 1 + rng.usize(5000)).collect());
                                        "chunked-random"
                                    }
                                    2 if limit > 0 && len > limit => {
                                        req.chunked = Some(vec![limit, 1, usize::MAX >> 4]);
                                        "chunked-boundary-at-limit"
                                    }
                                    3 => {
                                        req.chunked = Some(vec![]);
                                        "chunked-one-huge"
                                    }
                                    4 => "length-dribbled",
                                    _ => "length",
                                };
                                let wire = req.encode();
                                let mut c = match Conn::connect(addr) {
                                    Ok(c) => c,
                                    Err(e) => {
                                        rep.inconclusive(&format!("connect: {}", e.kind()));
                                        continue;
                                    }
                                };
                                let sent = if framing == "length-dribbled" {
                                    let cuts: Vec<usize> = (0..4).map(|_| rng.usize(wire.len().max(1))).collect();
                                    c.send_split(&wire, &cuts, Duration::from_micros(200))
                                } else {
                                    c.send(&wire)
                                };
                                // a server may answer (and even close) before an over-limit body is
                                // fully sent: a send error is not a verdict, read what is there
                                let send_failed = sent.is_err();
                                let expect_ok = len <= limit;
                                rep.eval(format!("{kind}|{}|{lclass}|{framing}|{mode_tag}", if ov.is_some() { "override" } else { "default" }));
                                limits.insert(uid, (limit, json!({"kind": kind, "path": path, "limit": limit, "len": len, "framing": framing, "default": default})));
                                let wit = |extra: Value| json!({"seed": seed, "server_default": default, "override": ov, "effective_limit": limit,
                                    "extractor": kind, "path": path, "body_len": len, "framing": framing, "mode": mode_tag, "detail": extra});
                                match c.read_response(false) {
                                    Ok(resp) => {
                                        if expect_ok {
                                            if resp.status != 200 {
                                                rep.violate(
                                                    format!("C11:{kind}:body-within-limit-refused"),
                                                    wit(json!({"status": resp.status, "body": String::from_utf8_lossy(&resp.body).chars().take(200).collect::<String>()})),
                                                );
                                            } else if let Some(diff) = check_delivered(kind, &resp, &exp) {
                                                rep.violate(format!("C11:{kind}:body-within-limit-not-intact"), wit(json!({"got": diff, "expected": exp})));
                                            } else if rep.want_sample() {
                                                rep.sample(wit(json!({"status": 200})));
                                            }
                                        } else if !(400..500).contains(&resp.status) {
                                            let what = if resp.status == 200 { "delivered" } else { "not-4xx" };
                                            rep.violate(
                                                format!("C11:{kind}:body-over-limit-{what}"),
                                                wit(json!({"status": resp.status, "body": String::from_utf8_lossy(&resp.body).chars().take(200).collect::<String>()})),
                                            );
                                        } else if rep.want_sample() {
                                            rep.sample(wit(json!({"status": resp.status})));
                                        }
                                    }
                                    Err(ReadErr::Timeout(_)) => rep.inconclusive("response watchdog"),
                                    Err(ReadErr::Closed) | Err(ReadErr::Reset(_)) | Err(ReadErr::Truncated(_)) if send_failed || !expect_ok => {
                                        // connection torn down while an over-limit body was in flight: the
                                        // refusal itself is not observable; the H_BYTES bound below still is
                                        rep.inconclusive("connection closed while over-limit body in flight");
                                    }
                                    Err(e) => {
                                        rep.violate(
                                            format!("C11:{kind}:no-valid-response"),
                                            wit(json!({"error": format!("{e:?}").chars().take(200).collect::<String>(), "send_failed": send_failed})),
                                        );
                                    }
                                }
                            }
                        }
                        (rep, limits)
                    })
                })
                .collect();
            let mut limits: HashMap<u64, (usize, Value)> = HashMap::new();
            for h in hs {
                let (r, l) = h.join().expect("thread");
                rep.merge(r);
                limits.extend(l);
            }
            // bodies within the limit that are only PARTLY sent before the client leaves:
            // "accepted and delivered intact" leaves no room for a handler being given the part
            let mut truncated: Vec<(u64, &'static str, usize, usize)> = vec![];
            for k in 0..(per * 4).clamp(40, 400) {
                let mut rng = Rng::derive(seed, "c11-trunc", default as u64 + if mode_tag == "det" { 0 } else { 7777 }, k as u64);
                let kind = *rng.pick(&["raw", "stream", "form"]);
                let (path, limit) = (format!("/{kind}-o70000"), 70_000usize);
                let len = 2 + rng.usize(4000);
                let uid = next_uid();
                let Some((body, ct, _)) = make_body(&mut rng, kind, len, uid) else { continue };
                let mut req = Req::new("POST", &path).uid(uid).header("content-type", &ct).body(&body);
                let chunked = rng.chance(1, 3);
                if chunked {
                    req.chunked = Some(vec![1 + rng.usize(500)]);
                }
                let wire = req.encode();
                let Some(he) = crate::client::find(&wire, b"\r\n\r\n") else { continue };
                let stop = if chunked { wire.len().saturating_sub(5) } else { wire.len() - 1 };
                if stop <= he + 4 {
                    continue;
                }
                let cut = he + 4 + rng.usize(stop - he - 4);
                let Ok(mut c) = Conn::connect(addr) else { continue };
                if c.send(&wire[..cut]).is_err() {
                    continue;
                }
                std::thread::sleep(Duration::from_micros(200 + rng.below(2000)));
                let how = if rng.bool() { "half-close" } else { "close" };
                rep.eval(format!("{kind}|truncated|{}|{how}|{mode_tag}", if chunked { "chunked" } else { "length" }));
                if how == "half-close" {
                    c.shutdown_write();
                    if let Ok(resp) = c.read_response_within(false, Duration::from_secs(10)) {
                        if (200..300).contains(&resp.status) {
                            rep.violate(
                                format!("C11:{kind}:partial-body-delivered"),
                                json!({"seed": seed, "server_default": default, "mode": mode_tag, "extractor": kind, "effective_limit": limit,
                                       "announced_body_len": len, "body_bytes_sent": cut - he - 4, "status": resp.status,
                                       "body": String::from_utf8_lossy(&resp.body).chars().take(200).collect::<String>()}),
                            );
                        }
                    }
                }
                truncated.push((uid, kind, len, cut - he - 4));
            }
            let _ = srv.close();
            {
                let done: std::collections::HashSet<u64> = log.snapshot().iter().filter(|e| e.kind == "H_DONE").map(|e| e.uid).collect();
                for (uid, kind, len, sent) in &truncated {
                    if done.contains(uid) {
                        rep.violate(
                            format!("C11:{kind}:partial-body-delivered"),
                            json!({"seed": seed, "server_default": default, "mode": mode_tag, "extractor": kind, "uid": uid, "announced_body_len": len,
                                   "body_bytes_sent": sent, "observed": "H_DONE: the handler completed with a body the client never finished sending"}),
                        );
                    }
                }
                rep.count("partly_sent_bodies", truncated.len() as u64);
            }
            // history: no handler ever observed more bytes than its limit
            let mut maxb: HashMap<u64, i64> = HashMap::new();
            let evs = log.snapshot();
            for e in &evs {
                if e.kind == "H_BYTES" {
                    let m = maxb.entry(e.uid).or_insert(0);
                    *m = (*m).max(e.n);
                }
                if e.kind == "H_BYTES_AFTER_ERR" {
                    if let Some((_, w)) = limits.get(&e.uid) {
                        rep.violate("C11:stream:bytes-delivered-after-limit-error", json!({"bytes": e.n, "case": w}));
                    }
                }
            }
            rep.count("h_bytes_events", evs.iter().filter(|e| e.kind == "H_BYTES").count() as u64);
            rep.count("requests_with_observed_bytes", maxb.len() as u64);
            for (uid, m) in maxb {
                if let Some((limit, w)) = limits.get(&uid) {
                    if m as usize > *limit {
                        let kind = w["kind"].as_str().unwrap_or("?").to_string();
                        rep.violate(format!("C11:{kind}:handler-observed-more-than-limit"), json!({"observed_bytes": m, "case": w}));
                    }
                }
            }
        }
    }
    rep
}
