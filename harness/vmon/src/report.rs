//! What an engine run hands back to bin/check: measured coverage, samples,
//! violations (keyed by a precise signature), inconclusive counts.

use serde_json::{json, Map, Value};
use std::collections::{BTreeMap, BTreeSet};

#[derive(Debug, Clone)]
pub struct Violation {
    /// precise signature of the witness; known_findings.json is keyed on it
    pub sig: String,
    pub count: u64,
    /// first few witnesses
    pub details: Vec<Value>,
}

#[derive(Debug, Default, Clone)]
pub struct Report {
    pub property: String,
    pub engine: String,
    pub evaluations: u64,
    /// distinct non-trivial case-class signatures observed
    pub classes: BTreeSet<String>,
    pub samples: Vec<Value>,
    pub violations: BTreeMap<String, Violation>,
    pub inconclusive: BTreeMap<String, u64>,
    pub counters: BTreeMap<String, u64>,
    pub extra: Map<String, Value>,
    pub exhaustive: Option<bool>,
    pub rule: String,
    sample_cap: usize,
}

impl Report {
    pub fn new(property: &str, engine: &str, rule: &str) -> Report {
        Report {
            property: property.to_string(),
            engine: engine.to_string(),
            rule: rule.to_string(),
            sample_cap: 12,
            ..Default::default()
        }
    }

    /// one evaluated case belonging to class `class`
    pub fn eval(&mut self, class: impl Into<String>) {
        self.evaluations += 1;
        self.classes.insert(class.into());
    }

    /// evaluated but trivial (does not count as a distinct non-trivial class)
    pub fn eval_trivial(&mut self) {
        self.evaluations += 1;
    }

    pub fn sample(&mut self, v: Value) {
        if self.samples.len() < self.sample_cap {
            self.samples.push(v);
        }
    }

    pub fn want_sample(&self) -> bool {
        self.samples.len() < self.sample_cap
    }

    pub fn count(&mut self, key: &str, n: u64) {
        *self.counters.entry(key.to_string()).or_insert(0) += n;
    }

    pub fn inconclusive(&mut self, reason: &str) {
        *self.inconclusive.entry(reason.to_string()).or_insert(0) += 1;
    }

    pub fn violate(&mut self, sig: impl Into<String>, detail: Value) {
        let sig = sig.into();
        let e = self.violations.entry(sig.clone()).or_insert(Violation {
            sig,
            count: 0,
            details: vec![],
        });
        e.count += 1;
        if e.details.len() < 3 {
            e.details.push(detail);
        }
    }

    pub fn merge(&mut self, o: Report) {
        self.evaluations += o.evaluations;
        self.classes.extend(o.classes);
        for s in o.samples {
            self.sample(s);
        }
        for (k, v) in o.violations {
            let e = self.violations.entry(k.clone()).or_insert(Violation {
                sig: k,
                count: 0,
                details: vec![],
            });
            e.count += v.count;
            for d in v.details {
                if e.details.len() < 3 {
                    e.details.push(d);
                }
            }
        }
        for (k, v) in o.inconclusive {
            *self.inconclusive.entry(k).or_insert(0) += v;
        }
        for (k, v) in o.counters {
            *self.counters.entry(k).or_insert(0) += v;
        }
        for (k, v) in o.extra {
            self.extra.insert(k, v);
        }
        if let Some(e) = o.exhaustive {
            self.exhaustive = Some(self.exhaustive.unwrap_or(true) && e);
        }
    }

    pub fn to_json(&self) -> Value {
        let viol: Vec<Value> = self
            .violations
            .values()
            .map(|v| json!({"sig": v.sig, "count": v.count, "details": v.details}))
            .collect();
        json!({
            "property": self.property,
            "engine": self.engine,
            "rule": self.rule,
            "evaluations": self.evaluations,
            "distinct_nontrivial": self.classes.len(),
            "classes_sample": self.classes.iter().take(40).collect::<Vec<_>>(),
            "samples": self.samples,
            "violations": viol,
            "inconclusive": self.inconclusive,
            "counters": self.counters,
            "extra": self.extra,
            "exhaustive": self.exhaustive,
        })
    }
}
