//! C09: handlers receive exactly what the client sent — for every legal
//! encoding and framing, under concurrent and pipelined requests.

use crate::client::*;
use crate::evlog::{next_uid, EvLog};
use crate::live::echo_api;
use crate::report::Report;
use crate::rng::{fnv1a, Rng};
use crate::srv::{start, Ctx, SrvCfg};
use dropshot::HandlerTaskMode;
use serde_json::{json, Value};
use std::net::SocketAddr;
use std::time::Duration;

// ------------------------------------------------------------ value generators

pub fn gen_string(rng: &mut Rng, for_path: bool) -> (String, &'static str) {
    let (s, class): (String, &'static str) = match rng.below(13) {
        // the neighbours of the two dot segments are ordinary strings
        12 => (rng.pick(&["...", "....", "......", ". .", "..a", "a..", ".x.", "...."]).to_string(), "dots"),
        0 => ("hello".into(), "ascii"),
        1 => ("two words and  double".into(), "spaces"),
        2 => ("/?#&=+%;:@,$!'()*[]".into(), "reserved"),
        3 => ("é日本ж".into(), "bmp"),
        4 => ("😀𝔘🦀".into(), "astral"),
        5 => ("a\u{0}b\nc\td\u{7f}\r".into(), "controls"),
        6 => (rng.pick(&["123", "-1", "1e5", "true", "false", "null", "NaN"]).to_string(), "looks-like-literal"),
        7 => ("%41%2F%zz%".into(), "percent"),
        8 => ("\"quoted\\back\"".into(), "quotes"),
        9 => {
            let n = 1 + rng.usize(120);
            let mut s = String::new();
            for _ in 0..n {
                let c = match rng.below(6) {
                    0 => char::from_u32(0x20 + rng.below(0x5f) as u32).unwrap(),
                    1 => char::from_u32(rng.below(0x20) as u32).unwrap(),
                    2 => char::from_u32(0xa0 + rng.below(0x700) as u32).unwrap_or('x'),
                    3 => char::from_u32(0x4e00 + rng.below(0x5000) as u32).unwrap_or('x'),
                    4 => char::from_u32(0x1f300 + rng.below(0x300) as u32).unwrap_or('x'),
                    _ => char::from_u32(0xe000 + rng.below(0x1000) as u32).unwrap_or('x'),
                };
                s.push(c);
            }
            (s, "random-unicode")
        }
        10 => ("\u{feff}\u{200b}\u{202e}x\u{301}".into(), "invisible"),
        _ => (String::new(), "empty"),
    };
    if for_path && (s.is_empty() || s == "." || s == "..") {
        return ("x.y".into(), "dotty");
    }
    (s, class)
}

pub fn gen_u64(rng: &mut Rng) -> u64 {
    match rng.below(6) {
        0 => 0,
        1 => u64::MAX,
        2 => i64::MAX as u64 + 1,
        3 => 1,
        _ => rng.next() >> rng.below(64),
    }
}
pub fn gen_i64(rng: &mut Rng) -> i64 {
    match rng.below(6) {
        0 => 0,
        1 => i64::MIN,
        2 => i64::MAX,
        3 => -1,
        _ => (rng.next() >> rng.below(64)) as i64 * if rng.bool() { -1 } else { 1 },
    }
}
pub fn gen_f64(rng: &mut Rng) -> f64 {
    match rng.below(9) {
        0 => 0.0,
        1 => -0.0,
        2 => 1.5,
        3 => f64::MIN_POSITIVE,
        4 => 5e-324,
        5 => f64::MAX,
        6 => -f64::MAX,
        7 => 0.1 + 0.2,
        _ => loop {
            let f = f64::from_bits(rng.next());
            if f.is_finite() {
                break f;
            }
        },
    }
}
pub fn gen_color(rng: &mut Rng) -> &'static str {
    *rng.pick(&["red", "green", "blue"])
}

// ------------------------------------------------------------ encoders

pub fn enc_seg(rng: &mut Rng, s: &str) -> Vec<u8> {
    pct_encode_with(s.as_bytes(), must_encode_in_segment, || rng.next())
}

/// application/x-www-form-urlencoded component: space as '+' or %20
pub fn enc_form(rng: &mut Rng, s: &str) -> Vec<u8> {
    let mut out = vec![];
    for &b in s.as_bytes() {
        let r = rng.next();
        if b == b' ' && r % 2 == 0 {
            out.push(b'+');
        } else if must_encode_in_query(b) || b == b' ' || r % 5 == 0 {
            let hex: &[u8; 16] = if (r >> 8) & 1 == 0 { b"0123456789ABCDEF" } else { b"0123456789abcdef" };
            out.push(b'%');
            out.push(hex[(b >> 4) as usize]);
            out.push(hex[(b & 15) as usize]);
        } else {
            out.push(b);
        }
    }
    out
}

pub fn enc_pairs(rng: &mut Rng, pairs: &[(String, String)]) -> Vec<u8> {
    let mut idx: Vec<usize> = (0..pairs.len()).collect();
    rng.shuffle(&mut idx);
    let mut out = vec![];
    for (n, i) in idx.iter().enumerate() {
        if n > 0 {
            out.push(b'&');
        }
        out.extend(enc_form(rng, &pairs[*i].0));
        out.push(b'=');
        out.extend(enc_form(rng, &pairs[*i].1));
    }
    out
}

fn json_ws(rng: &mut Rng, out: &mut Vec<u8>) {
    for _ in 0..(rng.below(8) / 6) {
        out.push(*rng.pick(b" \n\t\r"));
    }
}

pub fn enc_json_string(rng: &mut Rng, s: &str, out: &mut Vec<u8>) {
    out.push(b'"');
    for c in s.chars() {
        let r = rng.below(8);
        let must = c == '"' || c == '\\' || (c as u32) < 0x20;
        if must || r == 0 {
            match c {
                '"' if r % 2 == 0 => out.extend_from_slice(b"\\\""),
                '\\' if r % 2 == 0 => out.extend_from_slice(b"\\\\"),
                '\n' if r % 2 == 0 => out.extend_from_slice(b"\\n"),
                '\t' if r % 2 == 0 => out.extend_from_slice(b"\\t"),
                '/' if r % 2 == 0 => out.extend_from_slice(b"\\/"),
                _ => {
                    let mut buf = [0u16; 2];
                    for u in c.encode_utf16(&mut buf) {
                        let h = if rng.bool() { format!("\\u{:04x}", u) } else { format!("\\u{:04X}", u) };
                        out.extend_from_slice(h.as_bytes());
                    }
                }
            }
        } else {
            let mut b = [0u8; 4];
            out.extend_from_slice(c.encode_utf8(&mut b).as_bytes());
        }
    }
    out.push(b'"');
}

/// JSON text for `v` with random whitespace, key order and string escapes.
/// Numbers are written from their exact textual form.
pub fn enc_json(rng: &mut Rng, v: &Value, out: &mut Vec<u8>) {
    json_ws(rng, out);
    match v {
        Value::Null => out.extend_from_slice(b"null"),
        Value::Bool(b) => out.extend_from_slice(if *b { b"true" } else { b"false" }),
        Value::Number(n) => out.extend_from_slice(n.to_string().as_bytes()),
        Value::String(s) => enc_json_string(rng, s, out),
        Value::Array(a) => {
            out.push(b'[');
            for (i, x) in a.iter().enumerate() {
                if i > 0 {
                    out.push(b',');
                }
                enc_json(rng, x, out);
            }
            json_ws(rng, out);
            out.push(b']');
        }
        Value::Object(m) => {
            out.push(b'{');
            let mut keys: Vec<&String> = m.keys().collect();
            rng.shuffle(&mut keys);
            for (i, k) in keys.iter().enumerate() {
                if i > 0 {
                    out.push(b',');
                }
                json_ws(rng, out);
                enc_json_string(rng, k, out);
                json_ws(rng, out);
                out.push(b':');
                enc_json(rng, &m[*k], out);
            }
            json_ws(rng, out);
            out.push(b'}');
        }
    }
    json_ws(rng, out);
}

fn f64_text(f: f64) -> String {
    // Rust's shortest round-trip form; always a legal JSON number and FromStr input
    let s = format!("{f:?}");
    s
}

// ------------------------------------------------------------ request cases

pub struct Case {
    pub kind: &'static str,
    pub class: String,
    pub req: Req,
    pub uid: u64,
    /// expected `args` of the echo
    pub expect: Value,
    pub target: String,
}

fn rand_token(rng: &mut Rng, n: usize) -> String {
    (0..n)
        .map(|_| *rng.pick(b"abcdefghijklmnopqrstuvwxyzABCDEFGHIJKLMNOPQRSTUVWXYZ0123456789") as char)
        .collect()
}

pub fn gen_case(rng: &mut Rng, kinds: &[&'static str]) -> Case {
    let uid = next_uid();
    let kind = *rng.pick(kinds);
    let sleep = if rng.chance(1, 3) { rng.below(1500) } else { 0 };
    let base = |m: &str, target: Vec<u8>| {
        Req::raw_target(m, &target).uid(uid).header("x-vmon-sleep-us", &sleep.to_string())
    };
    match kind {
        "paths" => {
            let (a, ca) = gen_string(rng, true);
            let (b, cb) = gen_string(rng, true);
            let mut t = b"/p/".to_vec();
            t.extend(enc_seg(rng, &a));
            t.push(b'/');
            t.extend(enc_seg(rng, &b));
            t.extend(format!("?uid={uid}").as_bytes());
            let target = String::from_utf8_lossy(&t).to_string();
            Case {
                kind,
                class: format!("paths|{ca}|{cb}"),
                req: base("PUT", t),
                uid,
                expect: json!({"path": {"a": a, "b": b}, "query_uid": uid}),
                target,
            }
        }
        "pathn" => {
            let (u, i, f, flag, e) = (gen_u64(rng), gen_i64(rng), gen_f64(rng), rng.bool(), gen_color(rng));
            let t = format!("/pn/{u}/{i}/{}/{flag}/{e}", f64_text(f));
            Case {
                kind,
                class: format!("pathn|u{}|i{}|f{}", (u == u64::MAX) as u8 + (u > i64::MAX as u64) as u8, (i == i64::MIN) as u8, if f == 0.0 { "zero" } else if f.abs() < f64::MIN_POSITIVE { "subnormal" } else if f.abs() > 1e300 { "huge" } else { "normal" }),
                req: base("GET", t.clone().into_bytes()),
                uid,
                expect: json!({"path": {"u": u, "i": i, "f_bits": f.to_bits(), "flag": flag, "e": e}}),
                target: t,
            }
        }
        "pagq" => {
            // first-page request of a paginated endpoint: scan parameters with optional members
            let (sv, cs) = gen_string(rng, false);
            let o: Option<String> = match rng.below(3) {
                0 => None,
                1 => Some(String::new()),
                _ => Some(gen_string(rng, false).0),
            };
            let n: Option<u32> = if rng.bool() { Some(rng.next() as u32) } else { None };
            let mut pairs: Vec<(String, String)> = vec![("s".into(), sv.clone()), ("uid".into(), uid.to_string())];
            if let Some(o) = &o {
                pairs.push(("o".into(), o.clone()));
            }
            if let Some(n) = n {
                pairs.push(("n".into(), n.to_string()));
            }
            let mut t = b"/pag?".to_vec();
            t.extend(enc_pairs(rng, &pairs));
            let target = String::from_utf8_lossy(&t).to_string();
            let oc = match &o {
                None => "absent",
                Some(x) if x.is_empty() => "present-empty",
                _ => "present",
            };
            Case {
                kind,
                class: format!("pagq|{cs}|o-{oc}|n{}", n.is_some() as u8),
                req: base("GET", t),
                uid,
                expect: json!({"which": "first", "scan": {"s": sv, "o": o, "n": n, "uid": uid}}),
                target,
            }
        }
        "pathw" => {
            let n = rng.usize(5);
            let mut segs = vec![];
            let mut t = b"/w".to_vec();
            let mut cls = vec![];
            for _ in 0..n {
                let (s, c) = gen_string(rng, true);
                t.push(b'/');
                t.extend(enc_seg(rng, &s));
                segs.push(s);
                cls.push(c);
            }
            if n == 0 && rng.bool() {
                t.push(b'/');
            }
            let target = String::from_utf8_lossy(&t).to_string();
            Case {
                kind,
                class: format!("pathw|n{n}|{}", cls.first().copied().unwrap_or("-")),
                req: base("GET", t),
                uid,
                expect: json!({"path": {"rest": segs}}),
                target,
            }
        }
        "pathsw" => {
            // DELETE /p/{a}/{b}/{rest:.*}: the wildcard registered below the `paths`
            // endpoint (PUT /p/{a}/{b}); n = 0 is the wildcard's empty match
            let (a, ca) = gen_string(rng, true);
            let (b, _) = gen_string(rng, true);
            let n = rng.usize(4);
            let mut t = b"/p/".to_vec();
            t.extend(enc_seg(rng, &a));
            t.push(b'/');
            t.extend(enc_seg(rng, &b));
            let mut segs = vec![];
            for _ in 0..n {
                let (s, _) = gen_string(rng, true);
                t.push(b'/');
                t.extend(enc_seg(rng, &s));
                segs.push(s);
            }
            if n == 0 && rng.bool() {
                t.push(b'/');
            }
            let target = String::from_utf8_lossy(&t).to_string();
            Case {
                kind,
                class: format!("pathsw|n{n}|{ca}"),
                req: base("DELETE", t),
                uid,
                expect: json!({"path": {"a": a, "b": b, "rest": segs}}),
                target,
            }
        }
        "query" | "form" => {
            let (s, cs) = gen_string(rng, false);
            let (u, i, b, e) = (gen_u64(rng), gen_i64(rng), rng.bool(), gen_color(rng));
            let o = if rng.bool() { Some(gen_string(rng, false).0) } else { None };
            let mut pairs: Vec<(String, String)> = vec![
                ("s".into(), s.clone()),
                ("u".into(), u.to_string()),
                ("i".into(), i.to_string()),
                ("b".into(), b.to_string()),
                ("e".into(), e.to_string()),
                ("uid".into(), uid.to_string()),
            ];
            if let Some(o) = &o {
                pairs.push(("o".into(), o.clone()));
            }
            if kind == "query" {
                let f = gen_f64(rng);
                pairs.push(("f".into(), f64_text(f)));
                let d = if rng.bool() { Some(rng.below(1000) as u32) } else { None };
                if let Some(d) = d {
                    pairs.push(("d".into(), d.to_string()));
                }
                let mut t = b"/q?".to_vec();
                t.extend(enc_pairs(rng, &pairs));
                let target = String::from_utf8_lossy(&t).to_string();
                Case {
                    kind,
                    class: format!("query|{cs}|o{}|d{}", o.is_some() as u8, d.is_some() as u8),
                    req: base("GET", t),
                    uid,
                    expect: json!({"query": {"s": s, "u": u, "i": i, "f_bits": f.to_bits(), "b": b, "e": e, "o": o, "d": d.unwrap_or(0), "uid": uid}}),
                    target,
                }
            } else {
                let body = enc_pairs(rng, &pairs);
                let ct = *rng.pick(&[
                    "application/x-www-form-urlencoded",
                    "application/x-www-form-urlencoded; charset=utf-8",
                    "Application/X-WWW-Form-Urlencoded",
                ]);
                Case {
                    kind,
                    class: format!("form|{cs}|o{}", o.is_some() as u8),
                    req: base("POST", b"/form".to_vec()).header("content-type", ct).body(&body),
                    uid,
                    expect: json!({"body": {"s": s, "u": u, "i": i, "b": b, "e": e, "o": o, "uid": uid}}),
                    target: "/form".into(),
                }
            }
        }
        "json" => {
            let (s, cs) = gen_string(rng, false);
            let (u, i, f, b, e) = (gen_u64(rng), gen_i64(rng), gen_f64(rng), rng.bool(), gen_color(rng));
            let o = match rng.below(3) {
                0 => None,
                _ => Some(gen_string(rng, false).0),
            };
            let v: Vec<String> = (0..rng.usize(4)).map(|_| gen_string(rng, false).0).collect();
            let mut m = serde_json::Map::new();
            for _ in 0..rng.usize(3) {
                m.insert(gen_string(rng, false).0, Value::String(gen_string(rng, false).0));
            }
            let na = gen_string(rng, false).0;
            let nn = gen_i64(rng) as i32;
            // numbers are written from exact text: build through serde_json's arbitrary precision-free path
            let fnum: Value = serde_json::from_str(&f64_text(f)).unwrap();
            let mut obj = json!({"s": s, "u": u, "i": i, "f": fnum, "b": b, "e": e, "v": v, "m": m,
                                 "nested": {"a": na, "n": nn}, "uid": uid});
            let o_class = match &o {
                None => {
                    if rng.bool() {
                        obj["o"] = Value::Null;
                        "null"
                    } else {
                        "absent"
                    }
                }
                Some(x) => {
                    obj["o"] = json!(x);
                    "some"
                }
            };
            let mut body = vec![];
            enc_json(rng, &obj, &mut body);
            // -0.0: serde_json::Value keeps it as -0.0; fine
            let ct = *rng.pick(&["application/json", "application/json; charset=utf-8", "APPLICATION/JSON", ""]);
            let mut req = base("POST", b"/json".to_vec()).body(&body);
            if !ct.is_empty() {
                req = req.header("content-type", ct);
            }
            Case {
                kind,
                class: format!("json|{cs}|o-{o_class}|ct{}", ct.len().min(1)),
                req,
                uid,
                expect: json!({"body": {"s": s, "u": u, "i": i, "f_bits": f.to_bits(), "b": b, "e": e, "o": o, "v": v, "m": m,
                                        "nested": {"a": na, "n": nn}, "uid": uid}}),
                target: "/json".into(),
            }
        }
        "raw" | "stream" => {
            let n = match rng.below(5) {
                0 => 0,
                1 => 1,
                2 => rng.usize(300),
                3 => 4096 + rng.usize(5000),
                _ => rng.usize(70_000),
            };
            let body = rng.bytes(n);
            let path = if kind == "raw" { "/raw" } else { "/stream" };
            let mut expect = json!({"len": n, "hash": fnv1a(&body).to_string()});
            if kind == "raw" {
                expect["hex"] = if n <= 256 {
                    json!(body.iter().map(|x| format!("{x:02x}")).collect::<String>())
                } else {
                    Value::Null
                };
            }
            Case {
                kind,
                class: format!("{kind}|len{}", if n == 0 { "0".to_string() } else { format!("~2^{}", usize::BITS - n.leading_zeros()) }),
                req: base("POST", path.as_bytes().to_vec()).header("content-type", "application/octet-stream").body(&body),
                uid,
                expect,
                target: path.into(),
            }
        }
        _ => {
            // multipart
            let boundary = loop {
                let n = 8 + rng.usize(30);
                let b = rand_token(rng, n);
                if !b.is_empty() {
                    break b;
                }
            };
            let nf = 1 + rng.usize(3);
            let mut body = vec![];
            let mut fields = vec![];
            let mut total = 0usize;
            for k in 0..nf {
                let name = format!("f{k}{}", rand_token(rng, 3));
                let file = if rng.bool() { Some(format!("{}.bin", rand_token(rng, 5))) } else { None };
                let content = loop {
                    let n = match rng.below(3) {
                        0 => 0,
                        1 => rng.usize(200),
                        _ => rng.usize(3000),
                    };
                    let c = if rng.bool() { rng.bytes(n) } else { gen_string(rng, false).0.into_bytes() };
                    if find(&c, boundary.as_bytes()).is_none() {
                        break c;
                    }
                };
                let ct = if rng.bool() { Some("application/octet-stream") } else { None };
                body.extend_from_slice(format!("--{boundary}\r\nContent-Disposition: form-data; name=\"{name}\"").as_bytes());
                if let Some(f) = &file {
                    body.extend_from_slice(format!("; filename=\"{f}\"").as_bytes());
                }
                body.extend_from_slice(b"\r\n");
                if let Some(ct) = ct {
                    body.extend_from_slice(format!("Content-Type: {ct}\r\n").as_bytes());
                }
                body.extend_from_slice(b"\r\n");
                body.extend_from_slice(&content);
                body.extend_from_slice(b"\r\n");
                total += content.len();
                fields.push(json!({"name": name, "file": file, "ct": ct, "len": content.len(), "hash": fnv1a(&content).to_string(),
                    "hex": if content.len() <= 256 { json!(content.iter().map(|x| format!("{x:02x}")).collect::<String>()) } else { Value::Null }}));
            }
            body.extend_from_slice(format!("--{boundary}--\r\n").as_bytes());
            let (ct, bclass) = match rng.below(4) {
                0 => (format!("multipart/form-data; boundary=\"{boundary}\""), "quoted-boundary"),
                1 => (format!("multipart/form-data; boundary={boundary}; charset=utf-8"), "param-after-boundary"),
                2 => (format!("multipart/form-data; charset=utf-8; boundary={boundary}"), "param-before-boundary"),
                _ => (format!("multipart/form-data; boundary={boundary}"), "plain-boundary"),
            };
            Case {
                kind: "multi",
                class: format!("multi|{bclass}|nf{nf}"),
                req: base("POST", b"/multi".to_vec()).header("content-type", &ct).body(&body),
                uid,
                expect: json!({"fields": fields, "total": total}),
                target: "/multi".into(),
            }
        }
    }
}

pub fn framing_variant(rng: &mut Rng, req: &mut Req) -> &'static str {
    if req.body.is_empty() && req.method != "POST" {
        return "nobody";
    }
    match rng.below(5) {
        // one-byte chunks only for small bodies (every chunk is an event in the handler's log)
        0 if req.body.len() <= 2000 => {
            req.chunked = Some(vec![1]);
            "chunked-1"
        }
        1 => {
            let sizes: Vec<usize> = (0..4).map(|_| 1 + rng.usize(4000)).collect();
            req.chunked = Some(sizes);
            "chunked-random"
        }
        2 => {
            req.chunked = Some(vec![]);
            "chunked-one"
        }
        _ => "content-length",
    }
}

/// compare echo with expectation; returns violation signature part if wrong
fn check_echo(case: &Case, resp: &Resp, local: SocketAddr) -> Option<(String, Value)> {
    check_echo_ex(case, resp, Some(local), false)
}

/// `h2`: the request context's URI is in absolute form (scheme + authority + target)
pub fn check_echo_ex(case: &Case, resp: &Resp, local: Option<SocketAddr>, h2: bool) -> Option<(String, Value)> {
    if resp.status != 200 {
        let body = String::from_utf8_lossy(&resp.body).to_string();
        let tag = case.class.split('|').nth(1).unwrap_or("");
        let sig = if case.kind == "multi" {
            format!("C09:multipart:{tag}:valid-request-refused")
        } else {
            format!("C09:{}:valid-request-refused", case.kind)
        };
        return Some((sig, json!({"status": resp.status, "body": body})));
    }
    let Some(j) = resp.json() else {
        return Some((format!("C09:{}:echo-not-json", case.kind), json!({"body": String::from_utf8_lossy(&resp.body)})));
    };
    let meta = &j["meta"];
    if meta["uid"].as_u64() != Some(case.uid) {
        return Some(("C09:cross-request-leak:header".into(), json!({"meta": meta})));
    }
    if meta["method"].as_str() != Some(case.req.method.as_str()) {
        return Some(("C09:request-context:method-differs".into(), json!({"meta": meta})));
    }
    let uri_ok = match meta["uri"].as_str() {
        Some(u) if h2 => u.ends_with(case.target.as_str()),
        Some(u) => u == case.target,
        None => false,
    };
    if !uri_ok {
        return Some(("C09:request-context:uri-differs".into(), json!({"meta": meta, "sent": case.target})));
    }
    if let Some(local) = local {
        if meta["remote"].as_str() != Some(local.to_string().as_str()) {
            return Some(("C09:request-context:peer-address-differs".into(), json!({"meta": meta, "local": local.to_string()})));
        }
    }
    if j["args"] != case.expect {
        // which uid does the body/query/path carry?
        let leak = ["body", "query"].iter().any(|k| {
            j["args"][k]["uid"].as_u64().map(|u| u != case.uid).unwrap_or(false)
        }) || j["args"]["query_uid"].as_u64().map(|u| u != case.uid).unwrap_or(false);
        // JSON floats: is the only difference a one-ulp rounding of "f"?
        let few_ulp = case.kind == "json" && {
            let (g, e) = (j["args"]["body"]["f_bits"].as_u64(), case.expect["body"]["f_bits"].as_u64());
            let mut g2 = j["args"].clone();
            g2["body"]["f_bits"] = case.expect["body"]["f_bits"].clone();
            matches!((g, e), (Some(g), Some(e)) if g.abs_diff(e) <= 4) && g2 == case.expect
        };
        let sig = if leak {
            "C09:cross-request-leak:arguments".to_string()
        } else if few_ulp {
            "C09:json:float-not-correctly-rounded".to_string()
        } else {
            format!("C09:{}:value-differs", case.kind)
        };
        return Some((sig, json!({"got": j["args"], "expected": case.expect})));
    }
    None
}

/// HTTP/2 (prior knowledge) multiplexing: `tasks` concurrent streams on each of
/// `conns` connections, driven with hyper's own h2 client.
fn run_h2(seed: u64, addr: SocketAddr, kinds: &[&'static str], conns: usize, tasks: usize, per_task: usize, tag: &str) -> Report {
    use http_body_util::combinators::BoxBody;
    use http_body_util::{BodyExt, StreamBody};
    use hyper::body::Frame;
    type ReqBody = BoxBody<bytes::Bytes, std::convert::Infallible>;
    use hyper_util::client::legacy::connect::{HttpConnector, HttpInfo};
    use hyper_util::client::legacy::Client;
    use hyper_util::rt::TokioExecutor;
    let mut rep = Report::new("C09", "E2-echo", "");
    let rt = match tokio::runtime::Builder::new_multi_thread().worker_threads(4).enable_all().build() {
        Ok(r) => r,
        Err(e) => {
            rep.inconclusive(&format!("h2 client runtime: {e}"));
            return rep;
        }
    };
    let kinds: Vec<&'static str> = kinds.iter().copied().filter(|k| *k != "multi").collect();
    let tag = tag.to_string();
    let reports = rt.block_on(async move {
        let mut hs = vec![];
        for c in 0..conns {
            // one client = one pooled h2 connection
            let client: Client<HttpConnector, ReqBody> =
                Client::builder(TokioExecutor::new()).http2_only(true).build(HttpConnector::new());
            for t in 0..tasks {
                let client = client.clone();
                let kinds = kinds.clone();
                let tag = tag.clone();
                hs.push(tokio::spawn(async move {
                    let mut rep = Report::new("C09", "E2-echo", "");
                    for k in 0..per_task {
                        let mut rng = Rng::derive(seed, "c09-h2", (c * 1000 + t) as u64, k as u64);
                        let case = gen_case(&mut rng, &kinds);
                        let uri = format!("http://{}{}", addr, case.target);
                        let mut b = hyper::Request::builder().method(case.req.method.as_str()).uri(&uri);
                        for (n, v) in &case.req.headers {
                            b = b.header(n.as_str(), v.as_slice());
                        }
                        // the body as a sequence of DATA frames cut at random points, some of
                        // them EMPTY (legal in HTTP/2 anywhere before END_STREAM)
                        let mut frames: Vec<Result<Frame<bytes::Bytes>, std::convert::Infallible>> = vec![];
                        let body = &case.req.body;
                        let mut off = 0;
                        let mut empties = 0;
                        while off < body.len() {
                            if rng.chance(1, 4) {
                                frames.push(Ok(Frame::data(bytes::Bytes::new())));
                                empties += 1;
                            }
                            let n = (1 + rng.usize(body.len())).min(body.len() - off);
                            frames.push(Ok(Frame::data(bytes::Bytes::copy_from_slice(&body[off..off + n]))));
                            off += n;
                        }
                        if rng.chance(1, 4) {
                            frames.push(Ok(Frame::data(bytes::Bytes::new())));
                            empties += 1;
                        }
                        let nframes = frames.len();
                        let rb: ReqBody = BodyExt::boxed(StreamBody::new(futures::stream::iter(frames)));
                        let req = match b.body(rb) {
                            Ok(r) => r,
                            Err(_) => {
                                // a target the http crate will not carry (generator domain)
                                rep.inconclusive("h2 client cannot express this request");
                                continue;
                            }
                        };
                        let r = tokio::time::timeout(Duration::from_secs(30), client.request(req)).await;
                        let resp = match r {
                            Ok(Ok(r)) => r,
                            Ok(Err(e)) => {
                                rep.inconclusive(&format!("h2 request error: {}", e.to_string().chars().take(50).collect::<String>()));
                                continue;
                            }
                            Err(_) => {
                                rep.inconclusive("h2 response watchdog");
                                continue;
                            }
                        };
                        let local = resp.extensions().get::<HttpInfo>().map(|i| i.local_addr());
                        let status = resp.status().as_u16();
                        let body = match resp.into_body().collect().await {
                            Ok(b) => b.to_bytes().to_vec(),
                            Err(_) => {
                                rep.inconclusive("h2 body read error");
                                continue;
                            }
                        };
                        let fake = Resp { version: "HTTP/2".into(), status, reason: String::new(), headers: vec![], body, framing: "h2", chunks: 0 };
                        rep.eval(format!("{}|h2|streams{}|frames{}|empty{}|{tag}", case.class, tasks.min(64), nframes.min(4), empties.min(2)));
                        rep.count("h2_empty_data_frames_sent", empties as u64);
                        rep.count("h2_responses", 1);
                        if let Some((sig, detail)) = check_echo_ex(&case, &fake, local, true) {
                            rep.violate(sig, json!({"seed": seed, "transport": "h2", "connection": c, "stream_task": t, "index": k,
                                "kind": case.kind, "target": case.target, "detail": detail}));
                        }
                    }
                    rep
                }));
            }
        }
        let mut out = vec![];
        for h in hs {
            if let Ok(r) = h.await {
                out.push(r);
            }
        }
        out
    });
    for r in reports {
        rep.merge(r);
    }
    rep
}

/// Requests whose body is cut off mid-way (the client announced more than it sent and
/// then half-closed or left): the value was never sent in full, so no handler may be
/// given a prefix of it as if it were the whole value.  Observed two ways: a 2xx
/// answer on the half-closed connection, and an H_DONE event (echo computed) in the
/// server-side log for the request's uid.
fn run_truncated(seed: u64, addr: SocketAddr, kinds: &[&'static str], n: usize, tag: &str) -> (Report, Vec<(u64, &'static str, String)>) {
    let mut rep = Report::new("C09", "E2-echo", "");
    let kinds: Vec<&'static str> = kinds.iter().copied().filter(|k| matches!(*k, "form" | "json" | "raw" | "stream" | "multi")).collect();
    let mut sent = vec![];
    if kinds.is_empty() {
        return (rep, sent);
    }
    for i in 0..n {
        let mut rng = Rng::derive(seed, "c09-trunc", 0, i as u64);
        let mut case = gen_case(&mut rng, &kinds);
        if case.req.body.len() < 2 {
            continue;
        }
        let chunked = case.kind != "multi" && rng.chance(1, 3);
        if chunked {
            case.req.chunked = Some(vec![1 + rng.usize(64)]);
        }
        let wire = case.req.encode();
        let Some(he) = crate::client::find(&wire, b"\r\n\r\n") else { continue };
        let head_end = he + 4;
        // the last byte that may be sent so that the body is still incomplete: with
        // chunked framing the whole terminating "0\r\n\r\n" stays unsent
        let limit = if case.kind == "multi" {
            // a multipart value is complete once its closing delimiter has been seen (the
            // parser rightly ignores what follows): keep the whole "\r\n--boundary--" unsent
            match wire.windows(4).rposition(|w| w == b"\r\n--") {
                Some(p) => p,
                None => continue,
            }
        } else if chunked {
            wire.len().saturating_sub(5)
        } else {
            wire.len() - 1
        };
        if limit <= head_end {
            continue;
        }
        let cut = match rng.below(4) {
            0 => head_end + 1,
            1 => limit,
            _ => head_end + 1 + rng.usize(limit - head_end),
        }
        .min(limit);
        let how = if rng.chance(1, 2) { "half-close" } else { "close" };
        let class = format!("truncated|{}|{}|{how}|{tag}", case.kind, if chunked { "chunked" } else { "content-length" });
        let mut c = match Conn::connect(addr) {
            Ok(c) => c,
            Err(e) => {
                rep.inconclusive(&format!("connect: {}", e.kind()));
                continue;
            }
        };
        if c.send(&wire[..cut]).is_err() {
            rep.inconclusive("send failed (truncated request)");
            continue;
        }
        sent.push((case.uid, case.kind, class.clone()));
        // let the server consume what was sent before the stream ends
        std::thread::sleep(Duration::from_micros(200 + rng.below(3000)));
        if how == "half-close" {
            c.shutdown_write();
            match c.read_response_within(false, Duration::from_secs(10)) {
                Ok(resp) => {
                    rep.eval(format!("{class}|status{}", resp.status));
                    if (200..300).contains(&resp.status) {
                        rep.violate(
                            format!("C09:{}:truncated-body-delivered-as-complete", case.kind),
                            json!({"seed": seed, "index": i, "kind": case.kind, "framing": if chunked { "chunked" } else { "content-length" },
                                "bytes_of_request_sent": cut, "bytes_of_request": wire.len(), "body_bytes_sent": cut - head_end,
                                "status": resp.status, "body": String::from_utf8_lossy(&resp.body).chars().take(400).collect::<String>()}),
                        );
                    }
                }
                Err(ReadErr::Timeout(_)) => rep.inconclusive("no answer to a truncated request within 10 s"),
                Err(_) => rep.eval(format!("{class}|closed-without-response")),
            }
        } else {
            drop(c);
            rep.eval(class);
        }
    }
    (rep, sent)
}

pub struct Work {
    pub threads: usize,
    pub batches: usize,
    pub workers: Vec<usize>,
    pub kinds: Vec<&'static str>,
}

pub fn run(seed: u64, w: &Work) -> Report {
    let mut rep = Report::new(
        "C09",
        "E2-echo",
        "a real server with typed echo handlers (Path strings/numbers/bool/enum, wildcard, Query incl. optional/defaulted, JSON, \
         urlencoded, raw, streaming and multipart bodies); values generated per type (any Unicode incl. astral/controls/reserved, \
         numeric extremes, -0.0/subnormals), encoded with a randomly chosen legal encoding (per-byte percent-encoding with mixed hex \
         case, + vs %20, pair order, JSON whitespace/key order/\\u escapes, quoted/unquoted multipart boundary) and framing \
         (content-length or chunked with random chunk sizes, TCP writes split at random offsets, pipelining depth 1-8; the same generators as HTTP/2 streams \
         multiplexed on two connections by hyper's h2 client) on many concurrent keep-alive connections against tokio worker counts 1/2/4/16; the echo (typed args + method, URI, uid header, peer \
         address) must equal what was sent; class = (kind, value classes, framing, pipeline depth)",
    );
    let mut maxc = 0i64;
    let mut hist = std::collections::BTreeMap::new();
    let mut total_events = 0u64;
    let mut total_entries = 0u64;
    for &workers in &w.workers {
        for mode in [HandlerTaskMode::Detached, HandlerTaskMode::CancelOnDisconnect] {
            // one event log per server, analysed and dropped when the server is closed
            let log = EvLog::new();
            let ctx = Ctx::new(log.clone());
            let cfg = SrvCfg { mode, body_max: 1 << 20, versioned: None, workers };
            let mut srv = match start(echo_api(&[]), ctx, &cfg) {
                Ok(s) => s,
                Err(e) => {
                    rep.inconclusive(&format!("server start failed: {e}"));
                    continue;
                }
            };
            let addr = srv.addr;
            let mode_tag = if matches!(mode, HandlerTaskMode::Detached) { "det" } else { "cod" };
            let hs: Vec<_> = (0..w.threads)
                .map(|t| {
                    let kinds = w.kinds.clone();
                    let batches = w.batches;
                    std::thread::spawn(move || {
                        let mut rep = Report::new("C09", "E2-echo", "");
                        let mut conn: Option<Conn> = None;
                        for b in 0..batches {
                            let mut rng = Rng::derive(seed, "c09", (workers * 1000 + t) as u64 + if mode_tag == "det" { 0 } else { 500 }, b as u64);
                            let depth = if rng.chance(1, 3) { 1 + rng.usize(8) } else { 1 };
                            let mut cases = vec![];
                            let mut wire = vec![];
                            let mut framings = vec![];
                            for _ in 0..depth {
                                let mut c = gen_case(&mut rng, &kinds);
                                let f = framing_variant(&mut rng, &mut c.req);
                                wire.extend(c.req.encode());
                                framings.push(f);
                                let is_multi = c.kind == "multi";
                                cases.push(c);
                                if is_multi {
                                    // the multipart parser stops at the closing boundary and leaves the
                                    // epilogue unread, after which the server may close the connection:
                                    // nothing is pipelined behind a multipart request
                                    break;
                                }
                            }
                            let depth = cases.len();
                            let mut fresh = false;
                            if conn.is_none() || rng.chance(1, 20) {
                                fresh = true;
                                conn = match Conn::connect_from(addr, Some(std::net::Ipv4Addr::new(127, 0, 0, 1 + (t % 8) as u8))) {
                                    Ok(c) => Some(c),
                                    Err(e) => {
                                        rep.inconclusive(&format!("connect: {}", e.kind()));
                                        continue;
                                    }
                                };
                            }
                            let c = conn.as_mut().unwrap();
                            let local = c.local;
                            let ncuts = rng.usize(4);
                            let cuts: Vec<usize> = (0..ncuts).map(|_| rng.usize(wire.len().max(1))).collect();
                            let delay = Duration::from_micros(rng.below(300));
                            if let Err(e) = c.send_split(&wire, &cuts, delay) {
                                rep.inconclusive(&format!("send failed: {}", e.kind()));
                                conn = None;
                                continue;
                            }
                            let mut broken = false;
                            let mut earlier_non_200 = false;
                            for (k, case) in cases.iter().enumerate() {
                                match c.read_response(false) {
                                    Ok(resp) => {
                                        rep.eval(format!("{}|{}|d{}|split{}|{mode_tag}", case.class, framings[k], depth.min(4), ncuts.min(2)));
                                        rep.count("responses", 1);
                                        if let Some((sig, detail)) = check_echo(case, &resp, local) {
                                            rep.violate(sig, json!({"seed": seed, "workers": workers, "mode": mode_tag, "thread": t, "batch": b,
                                                "index_in_pipeline": k, "depth": depth, "framing": framings[k], "kind": case.kind,
                                                "target": case.target, "request_head": String::from_utf8_lossy(&case.req.encode()[..case.req.encode().len().min(600)]),
                                                "detail": detail}));
                                        } else if rep.want_sample() && k == 0 {
                                            rep.sample(json!({"kind": case.kind, "target": case.target, "framing": framings[k], "depth": depth,
                                                "expect": case.expect}));
                                        }
                                        if resp.status != 200 {
                                            earlier_non_200 = true;
                                        }
                                        if resp.wants_close() || case.kind == "multi" {
                                            broken = true;
                                            break;
                                        }
                                    }
                                    Err(ReadErr::Timeout(_)) => {
                                        rep.inconclusive("response watchdog (30 s)");
                                        broken = true;
                                        break;
                                    }
                                    Err(ReadErr::Closed) | Err(ReadErr::Reset(_)) if k == 0 && !fresh => {
                                        // a server may close an idle keep-alive connection at any time
                                        rep.inconclusive("reused keep-alive connection was closed by the server before the request");
                                        broken = true;
                                        break;
                                    }
                                    Err(ReadErr::Closed) | Err(ReadErr::Reset(_)) if earlier_non_200 => {
                                        // a server may close a connection after an error response;
                                        // requests pipelined behind it are then simply not served
                                        rep.inconclusive("pipelined request dropped after an earlier error response");
                                        broken = true;
                                        break;
                                    }
                                    Err(e) => {
                                        rep.violate(
                                            format!("C09:{}:no-valid-response", case.kind),
                                            json!({"error": format!("{e:?}").chars().take(400).collect::<String>(), "target": case.target,
                                                   "index_in_pipeline": k, "depth": depth, "framing": framings[k]}),
                                        );
                                        broken = true;
                                        break;
                                    }
                                }
                            }
                            if broken {
                                conn = None;
                            }
                        }
                        rep
                    })
                })
                .collect();
            for h in hs {
                rep.merge(h.join().expect("client thread"));
            }
            // the same value/encoding generators over HTTP/2: many streams multiplexed
            // on few connections
            rep.merge(run_h2(seed ^ workers as u64, addr, &w.kinds, 2, w.threads.min(32), (w.batches / 4).max(8), mode_tag));
            let (trep, truncated) = run_truncated(seed ^ (workers as u64) << 8, addr, &w.kinds, w.batches.clamp(100, 600), mode_tag);
            rep.merge(trep);
            let _ = srv.close();
            // concurrency actually observed on this server: sweep over ENTER/END
            let evs = log.snapshot();
            {
                let done: std::collections::HashSet<u64> = evs.iter().filter(|e| e.kind == "H_DONE").map(|e| e.uid).collect();
                for (uid, kind, class) in &truncated {
                    if done.contains(uid) {
                        rep.violate(
                            format!("C09:{kind}:truncated-body-delivered-as-complete"),
                            json!({"seed": seed, "uid": uid, "class": class, "observed": "H_DONE event: the handler computed its echo from a body the client never finished sending"}),
                        );
                    }
                }
                rep.count("truncated_requests", truncated.len() as u64);
            }
            let mut cur = 0i64;
            let mut enters = std::collections::HashMap::new();
            for e in &evs {
        match e.kind {
            "H_ENTER" => {
                cur += 1;
                maxc = maxc.max(cur);
                *hist.entry(cur.min(64)).or_insert(0u64) += 1;
                *enters.entry(e.uid).or_insert(0u32) += 1;
            }
            "H_END" => cur -= 1,
                    _ => {}
                }
            }
            total_events += evs.len() as u64;
            total_entries += enters.len() as u64;
            for (uid, n) in enters {
                if n > 1 && uid != 0 {
                    rep.violate("C09:handler-entered-twice-for-one-request", json!({"uid": uid, "entries": n}));
                }
            }
        }
    }
    rep.count("events", total_events);
    rep.count("handler_entries", total_entries);
    rep.extra.insert("max_observed_concurrency".into(), json!(maxc));
    rep.extra.insert("concurrency_at_entry_histogram".into(), json!(hist));
    rep
}
