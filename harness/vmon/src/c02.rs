//! C02: registration accepts exactly the unambiguous endpoints.  A conflict
//! model written from the property's list of rules is compared with the real
//! `ApiDescription::register` over random registration sequences biased toward
//! near-conflicts; accepted tables are checked for ambiguity (model) and for
//! reachability of every endpoint (real router).

use crate::api::uid_of;
use crate::gen::*;
use crate::model::*;
use crate::panics::catch_quiet;
use crate::report::Report;
use crate::rng::Rng;
use crate::router_engine::{table_json, Real, RouterBox};
use crate::srv::C;
use dropshot::{
    ApiDescription, ApiEndpoint, EndpointTagPolicy, HttpError, HttpResponseOk,
    Path, Query, RequestContext, TagConfig, TagDetails,
};
use schemars::JsonSchema;
use serde::{Deserialize, Serialize};
use serde_json::{json, Value};
use std::collections::{BTreeSet, HashMap};

// ---- parameter type corpus (hand-annotated facts) -------------------------

#[derive(Deserialize, Serialize, JsonSchema, Debug, Clone)]
pub struct Inner {
    pub a: String,
}
#[derive(Deserialize, Serialize, JsonSchema, Debug, Clone)]
#[serde(rename_all = "lowercase")]
pub enum UnitEnum {
    Red,
    Green,
}
#[derive(Deserialize, Serialize, JsonSchema, Debug, Clone)]
pub struct Newtype(pub String);

macro_rules! ty {
    ($name:ident { $($f:ident : $t:ty),* }) => {
        #[derive(Deserialize, Serialize, JsonSchema, Debug, Clone)]
        pub struct $name { $(pub $f: $t),* }
    };
}
// path structs beyond crate::api's String family
ty!(PxU32 { x: u32 });
ty!(PxEnum { x: UnitEnum });
ty!(PxNew { x: Newtype });
ty!(PxVec { x: Vec<String> });
ty!(PxNested { x: Inner });
ty!(PxyNested { x: String, y: Inner });
// query structs
ty!(Qq { q: String });
ty!(Qx { x: String });
ty!(Qy { y: String });
ty!(Qw { w: String });
ty!(Qopt { q: Option<u32> });
ty!(Qenum { q: UnitEnum });
ty!(Qnum { n: u64, b: bool });
ty!(Qvec { q: Vec<String> });
ty!(Qnested { q: Inner });
ty!(Qmixed { ok: String, bad: Vec<u8> });
#[derive(Deserialize, Serialize, JsonSchema, Debug, Clone)]
pub struct Wrapped(pub UnitEnum);
ty!(Qwrapped { q: Option<Wrapped> });
/// schema: oneOf [ string enum, object with an array ] — not a scalar
#[derive(Deserialize, Serialize, JsonSchema, Debug, Clone)]
pub enum MixedEnum {
    Everything,
    Names(Vec<String>),
}
ty!(Qmixedenum { q: MixedEnum });
/// schema: oneOf of string enums only (doc comments split the variants) — scalar
#[derive(Deserialize, Serialize, JsonSchema, Debug, Clone)]
pub enum DocEnum {
    /// first
    One,
    /// second
    Two,
}
ty!(Qdocenum { q: DocEnum });

/// (key, fields: (name, scalar?))
pub fn path_corpus() -> Vec<(&'static str, Vec<(&'static str, bool)>)> {
    vec![
        ("x:u32", vec![("x", true)]),
        ("x:enum", vec![("x", true)]),
        ("x:newtype", vec![("x", true)]),
        ("x:vec", vec![("x", false)]),
        ("x:nested", vec![("x", false)]),
        ("xy:nested", vec![("x", true), ("y", false)]),
    ]
}
pub fn query_corpus() -> Vec<(&'static str, Vec<(&'static str, bool)>)> {
    vec![
        ("", vec![]),
        ("q", vec![("q", true)]),
        ("x", vec![("x", true)]),
        ("y", vec![("y", true)]),
        ("w", vec![("w", true)]),
        ("qopt", vec![("q", true)]),
        ("qenum", vec![("q", true)]),
        ("qnum", vec![("n", true), ("b", true)]),
        ("qvec", vec![("q", false)]),
        ("qnested", vec![("q", false)]),
        ("qmixed", vec![("ok", true), ("bad", false)]),
        ("qwrapped", vec![("q", true)]),
        ("qmixedenum", vec![("q", false)]),
        ("qdocenum", vec![("q", true)]),
    ]
}

/// field facts for a path key: the String family ("", "x", "wxz", …) or the corpus
fn path_fields(key: &str) -> Vec<(String, bool, bool)> {
    // (name, scalar, is_vec_of_string)
    for (k, f) in path_corpus() {
        if k == key {
            return f.iter().map(|(n, s)| (n.to_string(), *s, *n == "x" && k == "x:vec")).collect();
        }
    }
    key.chars()
        .map(|c| (c.to_string(), c != 'w', c == 'w'))
        .collect()
}

async fn h_pq<P, Q>(
    rqctx: RequestContext<C>,
    _p: Path<P>,
    _q: Query<Q>,
) -> Result<HttpResponseOk<Value>, HttpError>
where
    P: serde::de::DeserializeOwned + JsonSchema + Send + Sync + 'static,
    Q: serde::de::DeserializeOwned + JsonSchema + Send + Sync + 'static,
{
    Ok(HttpResponseOk(json!({"op": rqctx.endpoint.operation_id, "uid": uid_of(&rqctx)})))
}
async fn h_q<Q>(
    rqctx: RequestContext<C>,
    _q: Query<Q>,
) -> Result<HttpResponseOk<Value>, HttpError>
where
    Q: serde::de::DeserializeOwned + JsonSchema + Send + Sync + 'static,
{
    Ok(HttpResponseOk(json!({"op": rqctx.endpoint.operation_id, "uid": uid_of(&rqctx)})))
}

#[derive(Clone, Debug)]
pub struct RegCase {
    pub ep: MEndpoint,
    pub pkey: String,
    pub qkey: String,
    pub tags: Vec<String>,
}

fn make(case: &RegCase) -> Option<ApiEndpoint<C>> {
    use crate::api::*;
    let op = case.ep.opid.clone();
    let m = method_of(&case.ep.method);
    let ct = "application/json";
    let path = case.ep.template();
    let v = case.ep.range.real();
    macro_rules! with_q {
        ($p:ty) => {
            match case.qkey.as_str() {
                "" => ApiEndpoint::new(op, echo::<$p>, m, ct, &path, v),
                "q" => ApiEndpoint::new(op, h_pq::<$p, Qq>, m, ct, &path, v),
                "x" => ApiEndpoint::new(op, h_pq::<$p, Qx>, m, ct, &path, v),
                "y" => ApiEndpoint::new(op, h_pq::<$p, Qy>, m, ct, &path, v),
                "w" => ApiEndpoint::new(op, h_pq::<$p, Qw>, m, ct, &path, v),
                "qopt" => ApiEndpoint::new(op, h_pq::<$p, Qopt>, m, ct, &path, v),
                "qenum" => ApiEndpoint::new(op, h_pq::<$p, Qenum>, m, ct, &path, v),
                "qnum" => ApiEndpoint::new(op, h_pq::<$p, Qnum>, m, ct, &path, v),
                "qvec" => ApiEndpoint::new(op, h_pq::<$p, Qvec>, m, ct, &path, v),
                "qnested" => ApiEndpoint::new(op, h_pq::<$p, Qnested>, m, ct, &path, v),
                "qmixed" => ApiEndpoint::new(op, h_pq::<$p, Qmixed>, m, ct, &path, v),
                "qwrapped" => ApiEndpoint::new(op, h_pq::<$p, Qwrapped>, m, ct, &path, v),
                "qmixedenum" => ApiEndpoint::new(op, h_pq::<$p, Qmixedenum>, m, ct, &path, v),
                "qdocenum" => ApiEndpoint::new(op, h_pq::<$p, Qdocenum>, m, ct, &path, v),
                _ => return None,
            }
        };
    }
    let e = match case.pkey.as_str() {
        "" => match case.qkey.as_str() {
            "" => ApiEndpoint::new(op, echo0, m, ct, &path, v),
            "q" => ApiEndpoint::new(op, h_q::<Qq>, m, ct, &path, v),
            "x" => ApiEndpoint::new(op, h_q::<Qx>, m, ct, &path, v),
            "y" => ApiEndpoint::new(op, h_q::<Qy>, m, ct, &path, v),
            "w" => ApiEndpoint::new(op, h_q::<Qw>, m, ct, &path, v),
            "qopt" => ApiEndpoint::new(op, h_q::<Qopt>, m, ct, &path, v),
            "qenum" => ApiEndpoint::new(op, h_q::<Qenum>, m, ct, &path, v),
            "qnum" => ApiEndpoint::new(op, h_q::<Qnum>, m, ct, &path, v),
            "qvec" => ApiEndpoint::new(op, h_q::<Qvec>, m, ct, &path, v),
            "qnested" => ApiEndpoint::new(op, h_q::<Qnested>, m, ct, &path, v),
            "qmixed" => ApiEndpoint::new(op, h_q::<Qmixed>, m, ct, &path, v),
            "qwrapped" => ApiEndpoint::new(op, h_q::<Qwrapped>, m, ct, &path, v),
            "qmixedenum" => ApiEndpoint::new(op, h_q::<Qmixedenum>, m, ct, &path, v),
            "qdocenum" => ApiEndpoint::new(op, h_q::<Qdocenum>, m, ct, &path, v),
            _ => return None,
        },
        "x" => with_q!(Px),
        "y" => with_q!(Py),
        "z" => with_q!(Pz),
        "xy" => with_q!(Pxy),
        "xz" => with_q!(Pxz),
        "yz" => with_q!(Pyz),
        "xyz" => with_q!(Pxyz),
        "w" => with_q!(Pw),
        "wx" => with_q!(Pwx),
        "wy" => with_q!(Pwy),
        "wz" => with_q!(Pwz),
        "wxy" => with_q!(Pwxy),
        "wxz" => with_q!(Pwxz),
        "wyz" => with_q!(Pwyz),
        "wxyz" => with_q!(Pwxyz),
        "x:u32" => with_q!(PxU32),
        "x:enum" => with_q!(PxEnum),
        "x:newtype" => with_q!(PxNew),
        "x:vec" => with_q!(PxVec),
        "x:nested" => with_q!(PxNested),
        "xy:nested" => with_q!(PxyNested),
        _ => return None,
    };
    let mut e = e.visible(case.ep.visible);
    for t in &case.tags {
        e = e.tag(t);
    }
    Some(e)
}

#[derive(Clone, Debug)]
pub struct TagPolicy {
    pub policy: &'static str, // any | atleastone | exactlyone
    pub allow_other: bool,
    pub known: Vec<String>,
}

impl TagPolicy {
    fn real(&self) -> TagConfig {
        let mut tags = HashMap::new();
        for t in &self.known {
            tags.insert(t.clone(), TagDetails { description: None, external_docs: None });
        }
        TagConfig {
            allow_other_tags: self.allow_other,
            policy: match self.policy {
                "atleastone" => EndpointTagPolicy::AtLeastOne,
                "exactlyone" => EndpointTagPolicy::ExactlyOne,
                _ => EndpointTagPolicy::Any,
            },
            tags,
        }
    }
    fn violated_by(&self, tags: &[String]) -> bool {
        match self.policy {
            "atleastone" if tags.is_empty() => return true,
            "exactlyone" if tags.len() != 1 => return true,
            _ => {}
        }
        !self.allow_other && tags.iter().any(|t| !self.known.contains(t))
    }
}

/// the model's verdict on adding `c` to `accepted`
fn model_reason(accepted: &[RegCase], c: &RegCase, pol: &TagPolicy) -> Option<String> {
    let table: Vec<MEndpoint> = accepted.iter().map(|a| a.ep.clone()).collect();
    if let Some(r) = structural_conflict(&table, &c.ep) {
        return Some(r);
    }
    // rule 6: path variables == handler's path parameters
    let tvars: BTreeSet<String> = c.ep.var_names().into_iter().collect();
    let pf = path_fields(&c.pkey);
    let pvars: BTreeSet<String> = pf.iter().map(|f| f.0.clone()).collect();
    if tvars != pvars {
        return Some("path-variables-differ-from-handler-parameters".into());
    }
    // rule 7: a name used as both path and query parameter
    let qf: Vec<(&str, bool)> = query_corpus()
        .into_iter()
        .find(|(k, _)| *k == c.qkey)
        .map(|(_, f)| f)
        .unwrap_or_default();
    if qf.iter().any(|(n, _)| tvars.contains(*n)) {
        return Some("name-both-path-and-query".into());
    }
    // rule 8: non-scalar path (single-segment variable) or query parameter
    for (n, scalar, _) in &pf {
        let is_wild = c.ep.segs.iter().any(|s| matches!(s, TSeg::Wild(w) if w == n));
        if !is_wild && !scalar {
            return Some("non-scalar-path-parameter".into());
        }
    }
    if qf.iter().any(|(_, s)| !*s) {
        return Some("non-scalar-query-parameter".into());
    }
    // rule 9: tag policy (visible endpoints)
    if c.ep.visible && pol.violated_by(&c.tags) {
        return Some("tag-policy".into());
    }
    None
}

fn case_json(c: &RegCase) -> Value {
    json!({"op": c.ep.opid, "method": c.ep.method, "path": c.ep.template(), "versions": c.ep.range.show(),
           "handler_path_struct": c.pkey, "handler_query_struct": c.qkey, "tags": c.tags, "visible": c.ep.visible})
}

fn build(accepted: &[RegCase], pol: &TagPolicy) -> Result<ApiDescription<C>, String> {
    let mut api = ApiDescription::<C>::new().tag_config(pol.real());
    for a in accepted {
        let e = make(a).ok_or("unsupported keys")?;
        match catch_quiet(std::panic::AssertUnwindSafe(|| api.register(e))) {
            Ok(Ok(())) => {}
            Ok(Err(e)) => return Err(format!("re-registering accepted endpoint failed: {}", e.message())),
            Err(p) => return Err(format!("re-registering accepted endpoint panicked: {}", p.message)),
        }
    }
    Ok(api)
}

/// can some segment list match both templates?
fn unifiable(a: &[TSeg], b: &[TSeg]) -> bool {
    let mut i = 0;
    loop {
        match (a.get(i), b.get(i)) {
            (None, None) => return true,
            (Some(TSeg::Wild(_)), _) | (_, Some(TSeg::Wild(_))) => return true,
            (None, Some(_)) | (Some(_), None) => return false,
            (Some(TSeg::Lit(x)), Some(TSeg::Lit(y))) => {
                if x != y {
                    return false;
                }
            }
            _ => {}
        }
        i += 1;
    }
}

fn exotic_tag(e: &MEndpoint) -> Option<&'static str> {
    if !e.range.nonempty() {
        return Some("empty-range");
    }
    if e.segs.iter().any(|s| matches!(s, TSeg::Lit(l) if l == "." || l == "..")) {
        return Some("dot-literal-template");
    }
    None
}

fn gen_pkey(rng: &mut Rng, natural: &str) -> String {
    let natural = natural.to_string();
    match rng.below(12) {
        0 => {
            // some other family member
            let fam = ["", "x", "y", "xy", "w", "wx", "xyz", "z"];
            rng.pick(&fam).to_string()
        }
        1 | 2 => {
            // typed / non-scalar variants when the template has exactly the right names
            let opts: Vec<&str> = match natural.as_str() {
                "x" => vec!["x:u32", "x:enum", "x:newtype", "x:vec", "x:nested"],
                "xy" => vec!["xy:nested"],
                _ => vec![],
            };
            if opts.is_empty() {
                natural.clone()
            } else {
                rng.pick(&opts).to_string()
            }
        }
        _ => natural.clone(),
    }
}

fn gen_case(rng: &mut Rng, accepted: &[RegCase], u: &[MVer], idx: usize, pol: &TagPolicy, exotic: bool) -> RegCase {
    let cfg = TableCfg {
        allow_shadow: true,
        versioned: rng.chance(2, 3),
        max_depth: 1 + rng.usize(4),
        wildcards: true,
        n: 0,
    };
    let table: Vec<MEndpoint> = accepted.iter().map(|a| a.ep.clone()).collect();
    let mut ep = gen_endpoint(rng, &cfg, &table, u, idx);
    // occasionally malformed-by-rule templates: segment after wildcard, repeated variable
    match rng.below(24) {
        0 => {
            if ep.has_wild() {
                ep.segs.push(TSeg::Lit("a".into()));
            }
        }
        1 => {
            if let Some(v) = ep.var_names().first().cloned() {
                if v != "w" {
                    ep.segs.push(TSeg::Var(v));
                }
            }
        }
        2 if exotic => {
            let limit = ep.segs.iter().position(|s| matches!(s, TSeg::Wild(_))).unwrap_or(ep.segs.len());
            let at = rng.usize(limit + 1);
            ep.segs.insert(at, TSeg::Lit(if rng.bool() { ".".into() } else { "..".into() }));
        }
        3 if exotic => {
            ep.range = MRange::Until(MVer::min());
        }
        8 | 9 => {
            // a trailing wildcard where an accepted endpoint has a single-segment variable
            // OF THE SAME NAME at the same position (two kinds of segment at one
            // position), for another method so that nothing else can refuse it
            let cands: Vec<&MEndpoint> = table.iter().filter(|e| matches!(e.segs.last(), Some(TSeg::Var(v)) if v == "x") && e.var_names() == ["x".to_string()]).collect();
            if !cands.is_empty() {
                let b = (*rng.pick(&cands)).clone();
                ep.segs = b.segs.clone();
                ep.segs.pop();
                ep.segs.push(TSeg::Wild("x".into()));
                ep.trailing_slash = false;
                let others: Vec<&&str> = METHODS.iter().filter(|m| **m != b.method).collect();
                ep.method = rng.pick(&others).to_string();
            }
        }
        6 | 7 => {
            // bounds that differ in build metadata only: equal in precedence, so this is
            // the one-version range holding v (or, for from/until, the same bound)
            let v = rng.pick(u).clone();
            if !v.has_build() {
                let a = MVer::v(&format!("{}+build.{}", v.text, 1 + rng.below(3)));
                let b = MVer::v(&format!("{}+build.{}", v.text, 5 + rng.below(3)));
                ep.range = match rng.below(4) {
                    0 => MRange::From(a),
                    1 => MRange::Until(b),
                    _ => MRange::FromUntil(a, b),
                };
            }
        }
        4 | 5 => {
            // trailing wildcard reusing the name of the (only) single-segment variable
            let singles: Vec<String> = ep.segs.iter().filter_map(|s| if let TSeg::Var(v) = s { Some(v.clone()) } else { None }).collect();
            if singles == ["x".to_string()] {
                if ep.has_wild() {
                    ep.segs.pop();
                }
                ep.segs.push(TSeg::Wild("x".into()));
            }
        }
        _ => {}
    }
    if !exotic && !ep.range.nonempty() {
        ep.range = MRange::All;
    }
    // handler path struct: usually the matching String family member
    let mut names: Vec<String> = ep.var_names();
    names.sort();
    names.dedup();
    let natural: String = names.concat();
    let dup_wild = ep.segs.iter().any(|s| matches!(s, TSeg::Wild(w) if w == "x"));
    let pkey = if dup_wild {
        // names {x}; the struct binds x to a list, as a wildcard would need
        "x:vec".to_string()
    } else {
        gen_pkey(rng, &natural)
    };
    let qkey = if rng.chance(1, 2) {
        String::new()
    } else {
        let qc = query_corpus();
        rng.pick(&qc).0.to_string()
    };
    let tagpool = ["t1", "t2", "other"];
    let ntags = match rng.below(6) {
        0 => 0,
        1 | 2 | 3 => 1,
        _ => 2,
    };
    let mut tags: Vec<String> = vec![];
    for _ in 0..ntags {
        let t = rng.pick(&tagpool).to_string();
        if !tags.contains(&t) {
            tags.push(t);
        }
    }
    ep.visible = !rng.chance(1, 6);
    if !ep.visible && pol.violated_by(&tags) {
        // the property is silent about tag policy on unpublished endpoints: keep
        // the combination out of the judged domain
        ep.visible = true;
    }
    // a wildcard endpoint bound to a non-array type is outside the stated rules
    RegCase { ep, pkey, qkey, tags }
}

pub fn run(seed: u64, shard: u64, sequences: usize, exotic: bool) -> Report {
    let mut rep = Report::new(
        "C02",
        "E1-registration",
        "random registration sequences (2-12 endpoints, biased to near-conflicts: shared prefixes, sibling literal/variable/wildcard, \
         same path with other method or version slice, mismatching handler parameter structs, colliding/non-scalar query structs, tag \
         policies); each register() outcome (Ok/Err/panic) compared with a conflict model of the 9 listed rules; accepted sets re-offered \
         in other orders; accepted tables checked for model ambiguity and real reachability; class = (model reason or accept, real outcome)",
    );
    let u = universe();
    for s in 0..sequences {
        let mut rng = Rng::derive(seed, "c02-seq", shard, s as u64);
        let pol = TagPolicy {
            policy: *rng.pick(&["any", "any", "atleastone", "exactlyone"]),
            allow_other: rng.chance(2, 3),
            known: vec!["t1".into(), "t2".into()],
        };
        let n = 2 + rng.usize(11);
        let mut accepted: Vec<RegCase> = vec![];
        let mut offered: Vec<(RegCase, bool)> = vec![];
        let ctx = |accepted: &[RegCase], c: &RegCase| {
            json!({"seed": seed, "shard": shard, "sequence": s,
                   "tag_policy": {"policy": pol.policy, "allow_other_tags": pol.allow_other, "known": pol.known},
                   "already_registered": accepted.iter().map(case_json).collect::<Vec<_>>(),
                   "offered": case_json(c)})
        };
        let mut aborted = false;
        for i in 0..n {
            let c = gen_case(&mut rng, &accepted, &u, i, &pol, exotic);
            let Some(real_ep) = make(&c) else { continue };
            let reason = model_reason(&accepted, &c, &pol);
            let mut api = match build(&accepted, &pol) {
                Ok(a) => a,
                Err(e) => {
                    rep.violate("C02:accepted-endpoint-refused-on-rebuild", json!({"error": e, "ctx": ctx(&accepted, &c)}));
                    aborted = true;
                    break;
                }
            };
            let real = catch_quiet(std::panic::AssertUnwindSafe(|| api.register(real_ep)));
            let (real_accepts, how) = match &real {
                Ok(Ok(())) => (true, "ok".to_string()),
                Ok(Err(e)) => (false, format!("Err: {}", e.message())),
                Err(p) => (false, format!("panic: {}", p.message)),
            };
            // an exotic endpoint (empty range, dot literal) taints the verdicts it
            // takes part in: they are keyed under its class tag
            let mut tags_involved: Vec<&'static str> = exotic_tag(&c.ep).into_iter().collect();
            tags_involved.extend(
                accepted
                    .iter()
                    .filter(|a| {
                        a.ep.method == c.ep.method
                            && (a.ep.segs == c.ep.segs || wildcard_shadow(std::slice::from_ref(&a.ep), &c.ep))
                    })
                    .filter_map(|a| exotic_tag(&a.ep)),
            );
            // an empty range explains a refusal by itself: it wins over the other class tag
            let tag = if tags_involved.contains(&"empty-range") {
                "empty-range:".to_string()
            } else {
                tags_involved.first().map(|t| format!("{t}:")).unwrap_or_default()
            };
            rep.eval(format!("{tag}{}|{}", reason.clone().unwrap_or_else(|| "accept".into()), if real_accepts { "accepted" } else if how.starts_with("Err") { "err" } else { "panic" }));
            if rep.want_sample() && reason.is_some() {
                rep.sample(json!({"offered": case_json(&c), "model": reason, "real": how, "after": accepted.len()}));
            }
            match (&reason, real_accepts) {
                (None, true) => {
                    offered.push((c.clone(), true));
                    accepted.push(c);
                }
                (Some(_), false) => offered.push((c, false)),
                (Some(r), true) => {
                    rep.violate(format!("C02:{tag}conflict-not-rejected:{r}"), json!({"model_reason": r, "ctx": ctx(&accepted, &c)}));
                    aborted = true;
                    break;
                }
                (None, false) => {
                    rep.violate(format!("C02:{tag}valid-endpoint-rejected"), json!({"real": how, "ctx": ctx(&accepted, &c)}));
                    aborted = true;
                    break;
                }
            }
        }
        if aborted || accepted.is_empty() {
            continue;
        }
        rep.count("accepted_tables", 1);
        rep.count("accepted_endpoints", accepted.len() as u64);
        // ---- symmetry: the accepted set in other orders is accepted entirely
        for _ in 0..2 {
            let mut perm = accepted.clone();
            rng.shuffle(&mut perm);
            if let Err(e) = build(&perm, &pol) {
                rep.violate(
                    "C02:acceptance-depends-on-order",
                    json!({"error": e, "order": perm.iter().map(case_json).collect::<Vec<_>>(),
                           "accepted_in_order": accepted.iter().map(case_json).collect::<Vec<_>>()}),
                );
            }
            rep.count("permutations", 1);
        }
        // ---- symmetry: a rejected member stays rejected when offered after the
        // accepted set in any order (set-level: some member is rejected in every order)
        if let Some((rej, _)) = offered.iter().find(|(_, ok)| !ok) {
            let mut all = accepted.clone();
            let pos = rng.usize(all.len() + 1);
            all.insert(pos, rej.clone());
            // only meaningful if the model says the whole set cannot be accepted
            let mut acc2: Vec<RegCase> = vec![];
            let mut model_all_ok = true;
            for c in &all {
                if model_reason(&acc2, c, &pol).is_some() {
                    model_all_ok = false;
                    break;
                }
                acc2.push(c.clone());
            }
            if !model_all_ok {
                if build(&all, &pol).is_ok() {
                    rep.violate(
                        "C02:conflicting-set-accepted-in-another-order",
                        json!({"order": all.iter().map(case_json).collect::<Vec<_>>()}),
                    );
                }
                rep.count("reoffered_with_rejected_member", 1);
            }
        }
        // ---- accepted table: ambiguity (model) and reachability (real)
        let table: Vec<MEndpoint> = accepted.iter().map(|a| a.ep.clone()).collect();
        for (i, a) in table.iter().enumerate() {
            for b in &table[i + 1..] {
                if a.method == b.method && a.range.intersects(&b.range) && unifiable(&a.segs, &b.segs) {
                    let shadow = wildcard_shadow(std::slice::from_ref(a), b);
                    let sig = if shadow {
                        "C02:accepted-table-ambiguous:exact-route-beside-wildcard-child"
                    } else {
                        "C02:accepted-table-ambiguous"
                    };
                    rep.violate(sig, json!({"a": a.template(), "b": b.template(), "method": a.method,
                        "ranges": [a.range.show(), b.range.show()], "table": table_json(&table)}));
                }
            }
        }
        let api = match build(&accepted, &pol) {
            Ok(a) => a,
            Err(_) => continue,
        };
        let router = RouterBox::new(api);
        let versioned = table.iter().any(|e| !e.range.is_all());
        for (i, e) in table.iter().enumerate() {
            // a witness request for e: fresh values for variables, a version of its range
            let mut segs: Vec<Vec<u8>> = vec![];
            for s in &e.segs {
                match s {
                    TSeg::Lit(l) => segs.push(l.as_bytes().to_vec()),
                    TSeg::Var(_) => segs.push(b"v1".to_vec()),
                    TSeg::Wild(_) => {
                        segs.push(b"r1".to_vec());
                        segs.push(b"r2".to_vec());
                    }
                }
            }
            let raw = canonical_spelling(&segs);
            let lower = match &e.range {
                MRange::All | MRange::Until(_) => MVer::min(),
                MRange::From(a) | MRange::FromUntil(a, _) => a.clone(),
            };
            let ver = if versioned { Some(lower.real()) } else { None };
            let m = crate::api::method_of(&e.method);
            let real = router.lookup(&m, std::str::from_utf8(&raw).unwrap(), ver.as_ref());
            let reached = matches!(&real, Real::Hit(op, _) if *op == e.opid);
            rep.count("reachability_probes", 1);
            if !reached {
                // is it only reachable in the model through a request that also matches a sibling?
                let tag = if let Some(t) = exotic_tag(e) {
                    format!(":{t}")
                } else if !e.has_wild() && table.iter().enumerate().any(|(j, o)| j != i && wildcard_shadow(std::slice::from_ref(o), e)) {
                    ":exact-route-beside-wildcard-child".to_string()
                } else {
                    String::new()
                };
                rep.violate(
                    format!("C02:registered-endpoint-unreachable{tag}"),
                    json!({"endpoint": {"op": e.opid, "method": e.method, "path": e.template(), "versions": e.range.show()},
                           "probe": {"path": String::from_utf8_lossy(&raw), "version": lower.text}, "real": format!("{real:?}"),
                           "table": table_json(&table)}),
                );
            }
        }
        // ---- a server that does not resolve versions (the default) looks every request up
        // with "no version", which matches every range: two generations of one method+path
        // would both match.  Building such a server must therefore be refused, whatever the
        // order the endpoints were registered in.
        let siblings = table.iter().enumerate().any(|(i, a)| {
            table[i + 1..].iter().any(|b| a.method == b.method && unifiable(&a.segs, &b.segs) && !a.range.intersects(&b.range))
        });
        if versioned && siblings {
            let mut orders: Vec<Vec<RegCase>> = vec![accepted.clone()];
            let mut all_last = accepted.clone();
            all_last.sort_by_key(|c| c.ep.range.is_all());
            orders.push(all_last);
            let mut rev = accepted.clone();
            rev.reverse();
            orders.push(rev);
            for (oi, ord) in orders.iter().enumerate() {
                let Ok(api) = build(ord, &pol) else { continue };
                let ctx = crate::srv::Ctx::new(crate::evlog::EvLog::new());
                let cfg = crate::srv::SrvCfg { workers: 1, ..Default::default() };
                rep.count("unversioned_server_start_attempts", 1);
                match crate::srv::start(api, ctx, &cfg) {
                    Err(_) => {}
                    Ok(mut srv) => {
                        let _ = srv.close();
                        rep.violate(
                            "C02:unversioned-server-accepts-two-generations-of-one-route",
                            json!({"registration_order": ord.iter().map(case_json).collect::<Vec<_>>(), "order_kind": (["as accepted", "unrestricted endpoints last", "reversed"][oi]),
                                   "table": table_json(&table)}),
                        );
                        break;
                    }
                }
            }
        }
    }
    rep
}
