//! vmon: runtime monitors for dropshot's semantic properties (see /verif/DESIGN.md).
pub mod api;
pub mod c02;
pub mod c05;
pub mod c06;
pub mod c09;
pub mod c10;
pub mod client;
pub mod evlog;
pub mod live;
pub mod live_router;
pub mod gen;
pub mod model;
pub mod panics;
pub mod report;
pub mod rng;
pub mod router_engine;
pub mod srv;
