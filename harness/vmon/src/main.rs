use vmon::report::Report;

fn usage() -> ! {
    eprintln!("usage: vmon <engine> --seed N --tier quick|thorough --out FILE [--shards N]");
    std::process::exit(2)
}

pub struct Args {
    pub engine: String,
    pub seed: u64,
    pub tier: String,
    pub out: String,
    pub threads: usize,
    pub extra: Vec<String>,
}

fn parse_args() -> Args {
    let mut a = std::env::args().skip(1);
    let engine = a.next().unwrap_or_else(|| usage());
    let mut args = Args {
        engine,
        seed: 1,
        tier: "quick".into(),
        out: String::new(),
        threads: 16,
        extra: vec![],
    };
    while let Some(k) = a.next() {
        match k.as_str() {
            "--seed" => args.seed = a.next().and_then(|s| s.parse().ok()).unwrap_or_else(|| usage()),
            "--tier" => args.tier = a.next().unwrap_or_else(|| usage()),
            "--out" => args.out = a.next().unwrap_or_else(|| usage()),
            "--threads" => args.threads = a.next().and_then(|s| s.parse().ok()).unwrap_or_else(|| usage()),
            other => args.extra.push(other.to_string()),
        }
    }
    args
}

/// run `f(shard)` on `n` threads and merge the reports
fn sharded<F>(n: usize, f: F) -> Report
where
    F: Fn(u64) -> Report + Send + Sync + 'static,
{
    let f = std::sync::Arc::new(f);
    let hs: Vec<_> = (0..n)
        .map(|i| {
            let f = f.clone();
            std::thread::Builder::new()
                .name(format!("shard{i}"))
                .stack_size(16 << 20)
                .spawn(move || f(i as u64))
                .unwrap()
        })
        .collect();
    let mut it = hs.into_iter();
    let mut rep = it.next().unwrap().join().expect("shard thread panicked");
    for h in it {
        rep.merge(h.join().expect("shard thread panicked"));
    }
    rep
}

fn main() {
    vmon::panics::install();
    let args = parse_args();
    if args.engine == "c18-serve" {
        // child side of c18-proc: a server process the parent engine attacks
        let mode = args.extra.first().map(|s| s.as_str()).unwrap_or("det");
        let body_max = args.extra.get(1).and_then(|s| s.parse().ok()).unwrap_or(4096);
        std::process::exit(vmon::c18proc::serve(mode, body_max));
    }
    let t0 = std::time::Instant::now();
    let quick = args.tier != "thorough";
    // tiny volumes for the Miri interpreter (E6); socket-free engines only
    let miri = args.tier == "miri";
    let seed = args.seed;
    let n = args.threads;
    use vmon::router_engine as re;
    let mut rep: Report = match args.engine.as_str() {
        "c01-router" | "c04-router" | "c03-router" | "c05-router" => {
            let prop = args.engine[..3].to_uppercase();
            let w = re::Work {
                tables: if miri { 3 } else if quick { 40 } else { 1500 },
                probes: if miri { 25 } else if quick { 250 } else { 400 },
                perms: if miri { 2 } else if quick { 3 } else { 5 },
                // not judged: dropshot deliberately folds method tokens to upper
                // case; the properties do not speak about token case (DESIGN §7-F2)
                method_case: false,
                spelling_focus: prop == "C03",
                shadow_class: true,
            };
            let p2 = prop.clone();
            sharded(n, move |s| re::run_shard(&p2, seed, s, &w))
        }
        "c03-spellings" => {
            let (cases, per) = if miri { (25, 4) } else if quick { (400, 12) } else { (40_000, 16) };
            sharded(n, move |s| re::run_spellings(seed, s, cases, per))
        }
        "c03-dots" => re::run_dot_enumeration(),
        "c02-registration" => {
            let seqs = if miri { 6 } else if quick { 150 } else { 12_000 };
            sharded(n, move |s| vmon::c02::run(seed, s, seqs, true))
        }
        "c06-openapi" => {
            let (tables, perms, cross) = if miri { (4, 2, 0) } else if quick { (60, 3, 8) } else { (1500, 4, 60) };
            sharded(n, move |s| vmon::c06::run(seed, s, tables, perms, cross))
        }
        "c06-hash" => {
            // child of c06-openapi: print "<version> <hash>" for one table of shard 0
            let t: u64 = args
                .extra
                .iter()
                .position(|a| a == "--table")
                .and_then(|i| args.extra.get(i + 1))
                .and_then(|s| s.parse().ok())
                .unwrap_or(0);
            for (v, h) in vmon::c06::table_hashes(seed, 0, t) {
                println!("{v} {h}");
            }
            return;
        }
        "c09-echo" => {
            let w = vmon::c09::Work {
                threads: if quick { 16 } else { 48 },
                batches: if quick { 120 } else { 2500 },
                workers: if quick { vec![4] } else { vec![1, 2, 4, 16] },
                kinds: {
                    let all = vec!["paths", "pathn", "pathw", "pathsw", "query", "pagq", "form", "json", "raw", "stream", "multi"];
                    match args.extra.iter().position(|a| a == "--kinds").and_then(|i| args.extra.get(i + 1)) {
                        Some(k) => all.into_iter().filter(|x| k.split(',').any(|y| y == *x)).collect(),
                        None => all,
                    }
                },
            };
            vmon::c09::run(seed, &w)
        }
        "c01-live" | "c03-live" | "c04-live" => {
            let prop = args.engine[..3].to_uppercase();
            let w = vmon::live_router::Work {
                tables: if quick { 16 } else { 200 },
                probes: if quick { 1600 } else { 4000 },
                threads: 8,
            };
            vmon::live_router::run(&prop, seed, &w)
        }
        "c03-h2" => vmon::c03h2::run(seed, if quick { 400 } else { 20_000 }),
        "c05-live" => vmon::live_router::run_header_policy(seed, if quick { 8 } else { 120 }),
        "c10-invalid" => {
            let (threads, per) = if quick { (8, 500) } else { (16, 20_000) };
            vmon::c10::run(seed, threads, per)
        }
        "c11-limits" => {
            let w = vmon::c11::Work {
                defaults: vec![0, 1, 7, 1024, 65536],
                per_combo: if quick { 40 } else { 800 },
                huge: !quick,
            };
            vmon::c11::run(seed, &w)
        }
        "c18-hostile" => {
            let w = vmon::c18::Work {
                truncation_templates: if quick { 2 } else { 7 },
                random_faults: if quick { 1500 } else { 60_000 },
                threads: if quick { 12 } else { 16 },
            };
            vmon::c18::run(seed, &w)
        }
        "c18-proc" => vmon::c18proc::run(seed, quick),
        "c05-exhaustive" => {
            let ns = n as u64;
            sharded(n, move |s| vmon::c05::run_exhaustive(s, ns))
        }
        "c05-random" => {
            let cases = if miri { 25 } else if quick { 500 } else { 60_000 };
            sharded(n, move |s| vmon::c05::run_random(seed, s, cases))
        }
        _ => usage(),
    };
    // unexpected panics anywhere in the process are violations of whatever ran
    for p in vmon::panics::take_unexpected() {
        rep.violate(
            format!("{}:unexpected-panic", rep.property),
            serde_json::json!({"location": p.location, "message": p.message, "thread": p.thread}),
        );
    }
    let mut j = rep.to_json();
    j["wall_s"] = serde_json::json!(t0.elapsed().as_secs_f64());
    j["seed"] = serde_json::json!(seed);
    j["tier"] = serde_json::json!(args.tier);
    let text = serde_json::to_string_pretty(&j).unwrap();
    if args.out.is_empty() {
        println!("{text}");
    } else {
        std::fs::write(&args.out, text).expect("write report");
    }
}
