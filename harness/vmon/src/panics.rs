//! Process-wide panic monitor.  Every panic is recorded with its location
//! and message; panics inside `catch_quiet` are expected by the caller and are
//! only returned, not recorded as unexpected.

use std::cell::Cell;
use std::sync::Mutex;
use std::sync::Once;

#[derive(Clone, Debug)]
pub struct PanicRec {
    pub location: String,
    pub message: String,
    pub thread: String,
}

static RECORDS: Mutex<Vec<PanicRec>> = Mutex::new(Vec::new());
static INSTALL: Once = Once::new();

thread_local! {
    static QUIET: Cell<u32> = const { Cell::new(0) };
    static LAST: std::cell::RefCell<Option<PanicRec>> = const { std::cell::RefCell::new(None) };
}

pub fn install() {
    INSTALL.call_once(|| {
        std::panic::set_hook(Box::new(|info| {
            let message = if let Some(s) = info.payload().downcast_ref::<&str>() {
                s.to_string()
            } else if let Some(s) = info.payload().downcast_ref::<String>() {
                s.clone()
            } else {
                "<non-string panic payload>".to_string()
            };
            let location = info
                .location()
                .map(|l| format!("{}:{}", l.file(), l.line()))
                .unwrap_or_default();
            let rec = PanicRec {
                location,
                message,
                thread: std::thread::current()
                    .name()
                    .unwrap_or("<unnamed>")
                    .to_string(),
            };
            let quiet = QUIET.with(|q| q.get()) > 0;
            if quiet {
                LAST.with(|l| *l.borrow_mut() = Some(rec));
            } else {
                RECORDS.lock().unwrap_or_else(|e| e.into_inner()).push(rec);
            }
        }));
    });
}

/// Run `f`, turning a panic into Err(record) without counting it as unexpected.
pub fn catch_quiet<T, F: FnOnce() -> T + std::panic::UnwindSafe>(
    f: F,
) -> Result<T, PanicRec> {
    install();
    QUIET.with(|q| q.set(q.get() + 1));
    let r = std::panic::catch_unwind(f);
    QUIET.with(|q| q.set(q.get() - 1));
    match r {
        Ok(v) => Ok(v),
        Err(_) => Err(LAST.with(|l| l.borrow_mut().take()).unwrap_or(PanicRec {
            location: String::new(),
            message: "<unknown>".into(),
            thread: String::new(),
        })),
    }
}

/// panics recorded outside catch_quiet since process start
pub fn unexpected() -> Vec<PanicRec> {
    RECORDS.lock().unwrap_or_else(|e| e.into_inner()).clone()
}

pub fn take_unexpected() -> Vec<PanicRec> {
    std::mem::take(&mut *RECORDS.lock().unwrap_or_else(|e| e.into_inner()))
}

/// While the guard lives, a panic on this thread is treated as expected
/// (recorded nowhere).  Used by the deliberately panicking harness handler.
pub struct ExpectedPanicGuard;

pub fn expected_panic_guard() -> ExpectedPanicGuard {
    install();
    QUIET.with(|q| q.set(q.get() + 1));
    ExpectedPanicGuard
}

impl Drop for ExpectedPanicGuard {
    fn drop(&mut self) {
        QUIET.with(|q| q.set(q.get().saturating_sub(1)));
    }
}
