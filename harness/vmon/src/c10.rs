//! C10: invalid input is refused with a 4xx before any handler runs.
//! Only unambiguously undecodable inputs are generated (by construction).

use crate::c09::{enc_pairs, gen_string};
use crate::client::*;
use crate::evlog::{next_uid, EvLog};
use crate::live::echo_api;
use crate::report::Report;
use crate::rng::Rng;
use crate::srv::{start, Ctx, SrvCfg};
use dropshot::HandlerTaskMode;
use serde_json::{json, Value};

pub struct Bad {
    pub position: &'static str,
    pub class: String,
    pub req: Req,
    /// Some: these exact bytes are sent on a fresh connection (the uid placeholder
    /// "@UID@" is substituted), optionally followed by a half-close
    pub raw: Option<Vec<u8>>,
    pub half_close: bool,
}

fn valid_body() -> Value {
    json!({"s": "x", "u": 1, "i": -1, "f": 1.5, "b": true, "e": "red", "o": null, "v": ["a"], "m": {"k": "v"},
           "nested": {"a": "q", "n": 3}, "uid": 0})
}

fn valid_query() -> Vec<(String, String)> {
    [("s", "x"), ("u", "1"), ("i", "-1"), ("f", "1.5"), ("b", "true"), ("e", "red"), ("uid", "0")]
        .iter()
        .map(|(a, b)| (a.to_string(), b.to_string()))
        .collect()
}

pub fn gen_bad(rng: &mut Rng) -> Bad {
    let big = "18446744073709551616";
    match rng.below(11) {
        // ---- a page token (a query parameter carrying base64url JSON) whose document is
        // well formed but followed by other bytes, or is otherwise not a token
        10 => {
            let doc = r#"{"v":"v1","page_start":{"last":"item-7"}}"#;
            let (text, class): (String, &str) = match rng.below(7) {
                0 => (format!("{doc}}}"), "page-token-json-trailing-brace"),
                1 => (format!("{doc}garbage"), "page-token-json-trailing-garbage"),
                2 => (format!("{doc}{doc}"), "page-token-two-documents"),
                3 => (format!("{doc},"), "page-token-json-trailing-comma"),
                4 => (format!("{doc}\u{0}"), "page-token-json-trailing-nul"),
                5 => (doc.replace("\"v1\"", "\"v2\""), "page-token-unknown-version"),
                _ => (doc.replace("\"item-7\"", "7"), "page-token-selector-wrong-type"),
            };
            const B64: &[u8; 64] = b"ABCDEFGHIJKLMNOPQRSTUVWXYZabcdefghijklmnopqrstuvwxyz0123456789-_";
            let mut tok = String::new();
            for ch in text.as_bytes().chunks(3) {
                let b = [ch[0], *ch.get(1).unwrap_or(&0), *ch.get(2).unwrap_or(&0)];
                let n = (u32::from(b[0]) << 16) | (u32::from(b[1]) << 8) | u32::from(b[2]);
                tok.push(B64[(n >> 18) as usize & 63] as char);
                tok.push(B64[(n >> 12) as usize & 63] as char);
                tok.push(if ch.len() > 1 { B64[(n >> 6) as usize & 63] as char } else { '=' });
                tok.push(if ch.len() > 2 { B64[n as usize & 63] as char } else { '=' });
            }
            let t = format!("/pag?page_token={}", tok.replace('=', "%3D"));
            Bad { position: "query", class: class.into(), req: Req::new("GET", &t), raw: None, half_close: false }
        }
        // ---- a query whose fields are all optional: dropping or ignoring the query
        // string would turn these into valid requests
        9 => {
            let (v, class) = *rng.pick(&[
                ("uid=abc", "optional-u64-non-numeric"),
                ("uid=-1", "optional-u64-negative"),
                ("uid=18446744073709551616", "optional-u64-out-of-range"),
                ("uid=1.5", "optional-u64-fractional"),
                ("uid=1&uid=2", "optional-field-duplicate"),
                ("uid=0x10", "optional-u64-hex"),
            ]);
            let t = format!("/p/x{}/y?{v}", rng.usize(100));
            Bad { position: "query", class: class.into(), req: Req::new("PUT", &t), raw: None, half_close: false }
        }
        // ---- path variables that are not UTF-8 after percent-decoding
        7 => {
            let bad = *rng.pick(&["%FF", "caf%C3", "%C0%AF", "%ED%A0%80", "a%80b", "%fe%ff"]);
            let (t, class) = match rng.below(3) {
                0 => (format!("/p/{bad}/ok"), "string-variable-not-utf8"),
                1 => (format!("/p/ok/{bad}"), "string-variable-not-utf8"),
                _ => (format!("/w/a/{bad}/b"), "wildcard-segment-not-utf8"),
            };
            let m = if t.starts_with("/p/") { "PUT" } else { "GET" };
            Bad { position: "path", class: class.into(), req: Req::new(m, &t), raw: None, half_close: false }
        }
        // ---- transfer faults after a prefix that decodes on its own
        8 => {
            let body = serde_json::to_vec(&valid_body()).unwrap();
            let mut raw = b"POST /json HTTP/1.1\r\nhost: vmon\r\ncontent-type: application/json\r\nx-vmon-uid: @UID@\r\n".to_vec();
            let (class, half_close) = match rng.below(3) {
                0 => {
                    raw.extend_from_slice(b"transfer-encoding: chunked\r\n\r\n");
                    raw.extend_from_slice(format!("{:x}\r\n", body.len()).as_bytes());
                    raw.extend_from_slice(&body);
                    raw.extend_from_slice(b"\r\nzz\r\nmore\r\n0\r\n\r\n");
                    ("complete-json-then-bad-chunk-size", false)
                }
                1 => {
                    raw.extend_from_slice(format!("content-length: {}\r\n\r\n", body.len() + 40).as_bytes());
                    raw.extend_from_slice(&body);
                    ("complete-json-but-content-length-not-reached", true)
                }
                _ => {
                    raw.extend_from_slice(b"transfer-encoding: chunked\r\n\r\n");
                    raw.extend_from_slice(format!("{:x}\r\n", body.len() + 10).as_bytes());
                    raw.extend_from_slice(&body);
                    ("complete-json-then-eof-inside-chunk", true)
                }
            };
            Bad { position: "transfer", class: class.into(), req: Req::new("POST", "/json"), raw: Some(raw), half_close }
        }
        // ---- path variables of PathN {u:u64,i:i64,f:f64,flag:bool,e:Color}
        0 => {
            let mut vals = ["1", "-1", "1.5", "true", "red"].map(|s| s.to_string());
            let (idx, bad, class): (usize, &str, &str) = match rng.below(12) {
                0 => (0, "abc", "u64-non-numeric"),
                1 => (0, "-1", "u64-negative"),
                2 => (0, "1.5", "u64-fractional"),
                3 => (0, big, "u64-out-of-range"),
                4 => (1, "9223372036854775808", "i64-out-of-range"),
                5 => (1, "x1", "i64-non-numeric"),
                6 => (1, "1e3", "i64-exponent"),
                7 => (2, "abc", "f64-non-numeric"),
                8 => (2, "1.2.3", "f64-two-points"),
                9 => (3, "maybe", "bool-unknown-word"),
                10 => (3, "2", "bool-number"),
                _ => (4, "purple", "enum-unknown-variant"),
            };
            vals[idx] = bad.to_string();
            let mut class = class.to_string();
            if rng.chance(1, 4) {
                // a long ill-typed value with multi-byte characters at every offset class:
                // whatever the error path does with the echoed value (truncate, quote, log)
                // must cope with character boundaries
                let ch = *rng.pick(&["\u{e9}", "\u{20ac}", "\u{1f980}"]);
                let prefix = rng.usize(140);
                let v: String = "a".repeat(prefix) + &ch.repeat(1 + rng.usize(40));
                vals[idx] = crate::client::pct_encode_with(v.as_bytes(), crate::client::must_encode_in_segment, || 1)
                    .into_iter()
                    .map(|b| b as char)
                    .collect();
                class = format!("{}-long-non-ascii", class.split('-').next().unwrap_or("x"));
            }
            let t = format!("/pn/{}", vals.join("/"));
            Bad { position: "path", class, req: Req::new("GET", &t), raw: None, half_close: false }
        }
        // ---- query fields of QAll
        1 | 2 => {
            let mut q = valid_query();
            let class: String = match rng.below(14) {
                0 => {
                    q[1].1 = "abc".into();
                    "u64-non-numeric".into()
                }
                1 => {
                    q[1].1 = big.into();
                    "u64-out-of-range".into()
                }
                2 => {
                    q[1].1 = "-5".into();
                    "u64-negative".into()
                }
                3 => {
                    q[2].1 = "1.0".into();
                    "i64-fractional".into()
                }
                4 => {
                    q[3].1 = "one".into();
                    "f64-non-numeric".into()
                }
                5 => {
                    q[4].1 = "nope".into();
                    "bool-unknown-word".into()
                }
                6 => {
                    q[5].1 = "purple".into();
                    "enum-unknown-variant".into()
                }
                7 => {
                    q[5].1 = "RED".into();
                    "enum-wrong-case".into()
                }
                8 => {
                    let k = rng.usize(q.len());
                    let name = q[k].0.clone();
                    q.remove(k);
                    format!("missing-required-{name}")
                }
                9 => {
                    q.push(("s".into(), "again".into()));
                    "duplicate-field".into()
                }
                10 => {
                    q.push(("u".into(), "2".into()));
                    "duplicate-numeric-field".into()
                }
                11 => {
                    q.push(("d".into(), "4294967296".into()));
                    "defaulted-u32-out-of-range".into()
                }
                12 => {
                    q[1].1 = String::new();
                    "u64-empty".into()
                }
                _ => {
                    q.retain(|(k, _)| k == "s");
                    "almost-everything-missing".into()
                }
            };
            let mut t = b"/q?".to_vec();
            t.extend(enc_pairs(rng, &q));
            Bad { position: "query", class, req: Req::raw_target("GET", &t), raw: None, half_close: false }
        }
        // ---- JSON body fields / shape
        3 | 4 => {
            let mut b = valid_body();
            let mut raw: Option<Vec<u8>> = None;
            let class: String = match rng.below(24) {
                0 => {
                    b["u"] = json!("1");
                    "u64-as-string".into()
                }
                1 => {
                    b["u"] = json!(-1);
                    "u64-negative".into()
                }
                2 => {
                    b["u"] = json!(1.5);
                    "u64-fractional".into()
                }
                3 => {
                    raw = Some(serde_json::to_string(&b).unwrap().replace("\"u\":1", &format!("\"u\":{big}")).into_bytes());
                    "u64-out-of-range".into()
                }
                4 => {
                    b["nested"]["n"] = json!(2147483648u64);
                    "i32-out-of-range".into()
                }
                5 => {
                    b["b"] = json!("true");
                    "bool-as-string".into()
                }
                6 => {
                    b["e"] = json!("purple");
                    "enum-unknown-variant".into()
                }
                7 => {
                    b["e"] = json!(1);
                    "enum-as-number".into()
                }
                8 => {
                    let k = *rng.pick(&["s", "u", "i", "f", "b", "e", "v", "m", "nested", "uid"]);
                    b.as_object_mut().unwrap().remove(k);
                    format!("missing-required-{k}")
                }
                9 => {
                    b["nested"].as_object_mut().unwrap().remove("a");
                    "missing-required-nested".into()
                }
                10 => {
                    raw = Some(serde_json::to_string(&b).unwrap().replacen('{', "{\"s\":\"dup\",", 1).into_bytes());
                    "duplicate-field".into()
                }
                11 => {
                    let s = serde_json::to_string(&b).unwrap();
                    let cut = 1 + rng.usize(s.len() - 2);
                    raw = Some(s.as_bytes()[..cut].to_vec());
                    "malformed-truncated".into()
                }
                12 => {
                    raw = Some(serde_json::to_string(&b).unwrap().replacen("}", ",}", 1).into_bytes());
                    "malformed-trailing-comma".into()
                }
                13 => {
                    let mut s = serde_json::to_vec(&b).unwrap();
                    s.extend_from_slice(*rng.pick(&[&b" trailing garbage"[..], b"x", b"{}", b" 1", b"]", b"\x00"]));
                    raw = Some(s);
                    "malformed-trailing-non-whitespace".into()
                }
                14 => {
                    raw = Some(serde_json::to_string(&b).unwrap().replace("\"x\"", "\"\\q\"").into_bytes());
                    "malformed-bad-escape".into()
                }
                15 => {
                    let mut s = serde_json::to_vec(&b).unwrap();
                    let p = find(&s, b"\"x\"").unwrap() + 1;
                    s[p] = 0xff;
                    raw = Some(s);
                    "malformed-invalid-utf8".into()
                }
                16 => {
                    raw = Some(serde_json::to_string(&b).unwrap().replace("1.5", "NaN").into_bytes());
                    "malformed-nan".into()
                }
                17 => {
                    raw = Some(b"[1,2,3]".to_vec());
                    "wrong-shape-array".into()
                }
                18 => {
                    raw = Some(b"\"just a string\"".to_vec());
                    "wrong-shape-string".into()
                }
                19 => {
                    raw = Some(b"null".to_vec());
                    "wrong-shape-null".into()
                }
                20 => {
                    raw = Some(vec![]);
                    "empty-body".into()
                }
                21 => {
                    b["v"] = json!("not-a-list");
                    "vec-as-string".into()
                }
                22 => {
                    b["m"] = json!({"k": 1});
                    "map-value-wrong-type".into()
                }
                _ => {
                    raw = Some(serde_json::to_string(&b).unwrap().replace("\"x\"", "\"\\ud800\"").into_bytes());
                    "malformed-lone-surrogate".into()
                }
            };
            let body = raw.unwrap_or_else(|| serde_json::to_vec(&b).unwrap());
            let mut req = Req::new("POST", "/json").header("content-type", "application/json").body(&body);
            let mut class = class;
            if rng.chance(1, 8) {
                // an ill-formed start delivered as a chunk of its own, followed by a complete
                // valid document: invalid as a whole, whichever pieces a reader looks at
                let prefix: &[u8] = *rng.pick(&[&b"["[..], b"garbage ", b"{\"u\":300}", b"{\"s\":1,", b"\xff\xfe", b"null"]);
                let mut whole = prefix.to_vec();
                whole.extend_from_slice(&serde_json::to_vec(&valid_body()).unwrap());
                req = Req::new("POST", "/json").header("content-type", "application/json").body(&whole);
                req.chunked = Some(vec![prefix.len(), 1 << 20]);
                class = "valid-document-after-an-ill-formed-first-chunk".into();
            }
            Bad { position: "json-body", class, req, raw: None, half_close: false }
        }
        // ---- content type other than the endpoint's
        5 => {
            let body = serde_json::to_vec(&valid_body()).unwrap();
            let (path, ct, class): (&str, &[u8], &str) = match rng.below(11) {
                // a media type that is not even a string is certainly not the endpoint's
                7 => ("/json", b"text/pl\xe4in", "json-endpoint-gets-non-ascii-type"),
                8 => ("/json", b"application/json\xff", "json-endpoint-gets-json-plus-high-byte"),
                9 => ("/form", b"application/x-www-form-urlencoded\xc3\xa9", "form-endpoint-gets-type-plus-high-bytes"),
                10 => ("/json", b"\xe9", "json-endpoint-gets-lone-high-byte"),
                0 => ("/json", b"application/x-www-form-urlencoded", "json-endpoint-gets-urlencoded"),
                1 => ("/json", b"text/plain", "json-endpoint-gets-text-plain"),
                2 => ("/json", b"application/octet-stream", "json-endpoint-gets-octet-stream"),
                3 => ("/json", b"application/xml", "json-endpoint-gets-unsupported-type"),
                4 => ("/form", b"application/json", "form-endpoint-gets-json"),
                5 => ("/json", b"multipart/form-data; boundary=x", "json-endpoint-gets-multipart"),
                _ => ("/form", b"text/html", "form-endpoint-gets-unsupported-type"),
            };
            Bad { position: "content-type", class: class.into(), req: Req::new("POST", path).header_bytes("content-type", ct).body(&body), raw: None, half_close: false }
        }
        // ---- urlencoded body
        _ => {
            let mut q: Vec<(String, String)> =
                [("s", "x"), ("u", "1"), ("i", "-1"), ("b", "true"), ("e", "red"), ("uid", "0")]
                    .iter()
                    .map(|(a, b)| (a.to_string(), b.to_string()))
                    .collect();
            let class: String = match rng.below(6) {
                0 => {
                    q[1].1 = "abc".into();
                    "u64-non-numeric".into()
                }
                1 => {
                    q[3].1 = "si".into();
                    "bool-unknown-word".into()
                }
                2 => {
                    q[4].1 = gen_string(rng, true).0;
                    "enum-unknown-variant".into()
                }
                3 => {
                    let k = rng.usize(q.len());
                    let name = q[k].0.clone();
                    q.remove(k);
                    format!("missing-required-{name}")
                }
                4 => {
                    q.push(("i".into(), "7".into()));
                    "duplicate-field".into()
                }
                _ => {
                    q[2].1 = "9223372036854775808".into();
                    "i64-out-of-range".into()
                }
            };
            let body = enc_pairs(rng, &q);
            Bad {
                position: "form-body",
                class,
                req: Req::new("POST", "/form").header("content-type", "application/x-www-form-urlencoded").body(&body),
                raw: None,
                half_close: false,
            }
        }
    }
}

pub fn run(seed: u64, threads: usize, per_thread: usize) -> Report {
    let mut rep = Report::new(
        "C10",
        "E2-invalid-input",
        "every (position: path variable / query field / JSON body field or shape / urlencoded body field / content type) x (declared \
         type) x (malformation class known by construction to be undecodable: non-numeric, out of range, fractional, unknown enum value, \
         missing required field, duplicate field, truncated / trailing-comma / trailing-garbage / bad-escape / invalid-UTF-8 / NaN JSON, \
         wrong shape, wrong or unsupported content type, empty body) sent to a real server in both task modes with content-length or \
         chunked framing; must be answered 4xx with a framework-format error body, no H_ENTER for the uid, no panic, and the connection \
         must stay usable or be closed cleanly; class = (position, malformation class, framing)",
    );
    let log = EvLog::new();
    for mode in [HandlerTaskMode::Detached, HandlerTaskMode::CancelOnDisconnect] {
        let ctx = Ctx::new(log.clone());
        let cfg = SrvCfg { mode, body_max: 1 << 16, versioned: None, workers: 4 };
        let mut srv = match start(echo_api(&[]), ctx, &cfg) {
            Ok(s) => s,
            Err(e) => {
                rep.inconclusive(&format!("server start: {e}"));
                continue;
            }
        };
        let addr = srv.addr;
        let mode_tag = if matches!(mode, HandlerTaskMode::Detached) { "det" } else { "cod" };
        let hs: Vec<_> = (0..threads)
            .map(|t| {
                std::thread::spawn(move || {
                    let mut rep = Report::new("C10", "E2-invalid-input", "");
                    let mut pending: Vec<(u64, String, Value)> = vec![];
                    let mut conn: Option<Conn> = None;
                    for k in 0..per_thread {
                        let mut rng = Rng::derive(seed, "c10", (t + if mode_tag == "det" { 0 } else { 100 }) as u64, k as u64);
                        let mut bad = gen_bad(&mut rng);
                        let uid = next_uid();
                        bad.req = bad.req.uid(uid);
                        // the same request with its target in absolute-form (RFC 9112 3.2.2: a
                        // server MUST accept it), for targets that are plain text
                        let absolute = bad.raw.is_none() && matches!(bad.position, "query" | "path") && bad.req.target.is_ascii() && rng.chance(1, 3);
                        if absolute {
                            let mut t = b"http://vmon.test".to_vec();
                            t.extend_from_slice(&bad.req.target);
                            bad.req.target = t;
                        }
                        let framing = if absolute {
                            "absolute-form"
                        } else if bad.raw.is_some() {
                            "raw"
                        } else if bad.req.chunked.is_some() {
                            "chunked-as-given"
                        } else if !bad.req.body.is_empty() && rng.chance(1, 3) {
                            bad.req.chunked = Some(vec![1 + rng.usize(40)]);
                            "chunked"
                        } else {
                            "length"
                        };
                        if conn.is_none() {
                            conn = Conn::connect(addr).ok();
                        }
                        let Some(_) = conn.as_mut() else {
                            rep.inconclusive("connect failed");
                            continue;
                        };
                        let wire = match &bad.raw {
                            Some(raw) => {
                                let s = String::from_utf8_lossy(raw).replace("@UID@", &uid.to_string());
                                s.into_bytes()
                            }
                            None => bad.req.encode(),
                        };
                        if bad.raw.is_some() {
                            // its own connection, closed afterwards
                            match Conn::connect(addr) {
                                Ok(nc) => conn = Some(nc),
                                Err(_) => {
                                    rep.inconclusive("connect failed");
                                    continue;
                                }
                            }
                        }
                        let c = conn.as_mut().unwrap();
                        if c.send(&wire).is_err() {
                            conn = None;
                            rep.inconclusive("send failed on reused connection");
                            continue;
                        }
                        let head = String::from_utf8_lossy(&wire[..wire.len().min(700)]).to_string();
                        let wit = |extra: Value| json!({"seed": seed, "mode": mode_tag, "thread": t, "case": k, "position": bad.position,
                            "class": bad.class, "framing": framing, "request": head, "detail": extra});
                        rep.eval(format!("{}|{}|{framing}|{mode_tag}", bad.position, bad.class));
                        if bad.half_close {
                            c.shutdown_write();
                        }
                        let one_shot = bad.raw.is_some();
                        match c.read_response(false) {
                            Ok(resp) => {
                                if !(400..500).contains(&resp.status) {
                                    let what = if resp.status >= 500 { "answered-5xx" } else { "accepted" };
                                    rep.violate(
                                        format!("C10:{}:{}:{what}", bad.position, bad.class.split("-required-").next().unwrap_or(&bad.class)),
                                        wit(json!({"status": resp.status, "body": String::from_utf8_lossy(&resp.body).chars().take(300).collect::<String>()})),
                                    );
                                } else {
                                    // framework error format: JSON object with message and request_id
                                    let ok = resp.json().map(|j| j["message"].is_string() && j["request_id"].is_string()).unwrap_or(false);
                                    if !ok {
                                        rep.violate(
                                            format!("C10:{}:error-body-not-in-framework-format", bad.position),
                                            wit(json!({"status": resp.status, "body": String::from_utf8_lossy(&resp.body).chars().take(300).collect::<String>()})),
                                        );
                                    }
                                    if rep.want_sample() {
                                        rep.sample(wit(json!({"status": resp.status, "message": resp.json().map(|j| j["message"].clone())})));
                                    }
                                }
                                if resp.wants_close() {
                                    conn = None;
                                }
                            }
                            Err(ReadErr::Timeout(_)) => {
                                conn = None;
                                rep.inconclusive("response watchdog");
                            }
                            Err(e) => {
                                conn = None;
                                rep.violate(
                                    format!("C10:{}:no-valid-response", bad.position),
                                    wit(json!({"error": format!("{e:?}").chars().take(300).collect::<String>()})),
                                );
                            }
                        }
                        if one_shot {
                            conn = None;
                        }
                        // a handler must not have run for this uid: checked against the log afterwards
                        pending.push((uid, format!("C10:{}:{}:handler-invoked", bad.position, bad.class.split("-required-").next().unwrap_or(&bad.class)), wit(json!({}))));
                        // every 16th case: the connection (if kept) still serves a valid request
                        if k % 16 == 0 {
                            if let Some(c) = conn.as_mut() {
                                let hu = next_uid();
                                let ok = c.send(&Req::new("GET", "/health").uid(hu).encode()).is_ok()
                                    && matches!(c.read_response(false), Ok(r) if r.status == 200);
                                rep.count("follow_up_requests_on_same_connection", 1);
                                if !ok {
                                    rep.violate("C10:connection-unusable-after-refusal", wit(json!({})));
                                    conn = None;
                                }
                            }
                        }
                    }
                    (rep, pending)
                })
            })
            .collect();
        let mut pending = vec![];
        for h in hs {
            let (r, p) = h.join().expect("thread");
            rep.merge(r);
            pending.extend(p);
        }
        let _ = srv.close();
        let entered: std::collections::HashSet<u64> =
            log.snapshot().iter().filter(|e| e.kind == "H_ENTER").map(|e| e.uid).collect();
        rep.count("refused_requests_checked_against_log", pending.len() as u64);
        for (uid, sig, wit) in pending {
            if entered.contains(&uid) {
                rep.violate(sig, wit);
            }
        }
    }
    rep.count("events", log.len() as u64);
    rep
}
