//! Reference models written from the property texts and the RFCs / semver
//! spec, never from dropshot's code: semver precedence, version-range algebra,
//! request-path normalisation, template matching, dispatch and 404/405/Allow.

use std::cmp::Ordering;
use std::collections::BTreeMap;
use std::collections::BTreeSet;

// ---------------------------------------------------------------- semver

#[derive(Clone, Debug, PartialEq, Eq)]
pub enum PreId {
    Num(u64),
    Alpha(String),
}

#[derive(Clone, Debug, PartialEq, Eq)]
pub struct MVer {
    pub major: u64,
    pub minor: u64,
    pub patch: u64,
    pub pre: Vec<PreId>,
    pub build: String,
    pub text: String,
}

fn parse_num(s: &str) -> Option<u64> {
    if s.is_empty() || !s.bytes().all(|b| b.is_ascii_digit()) {
        return None;
    }
    if s.len() > 1 && s.starts_with('0') {
        return None;
    }
    s.parse::<u64>().ok()
}

fn ident_ok(s: &str) -> bool {
    !s.is_empty()
        && s.bytes().all(|b| b.is_ascii_alphanumeric() || b == b'-')
}

impl MVer {
    /// Strict semver 2.0.0 parser.
    pub fn parse(text: &str) -> Option<MVer> {
        let (rest, build) = match text.find('+') {
            Some(i) => (&text[..i], &text[i + 1..]),
            None => (text, ""),
        };
        if text.contains('+') {
            if build.is_empty() || !build.split('.').all(ident_ok) {
                return None;
            }
        }
        let (core, pre) = match rest.find('-') {
            Some(i) => (&rest[..i], Some(&rest[i + 1..])),
            None => (rest, None),
        };
        let mut it = core.split('.');
        let major = parse_num(it.next()?)?;
        let minor = parse_num(it.next()?)?;
        let patch = parse_num(it.next()?)?;
        if it.next().is_some() {
            return None;
        }
        let mut pre_ids = vec![];
        if let Some(pre) = pre {
            if pre.is_empty() {
                return None;
            }
            for id in pre.split('.') {
                if !ident_ok(id) {
                    return None;
                }
                if id.bytes().all(|b| b.is_ascii_digit()) {
                    // numeric identifiers must not have leading zeros
                    pre_ids.push(PreId::Num(parse_num(id)?));
                } else {
                    pre_ids.push(PreId::Alpha(id.to_string()));
                }
            }
        }
        Some(MVer {
            major,
            minor,
            patch,
            pre: pre_ids,
            build: build.to_string(),
            text: text.to_string(),
        })
    }

    pub fn v(text: &str) -> MVer {
        MVer::parse(text).unwrap_or_else(|| panic!("bad model version {text}"))
    }

    /// the smallest version under semver precedence
    pub fn min() -> MVer {
        MVer::v("0.0.0-0")
    }

    /// semver 2.0.0 §11 precedence; build metadata ignored
    pub fn prec(&self, o: &MVer) -> Ordering {
        let c = (self.major, self.minor, self.patch)
            .cmp(&(o.major, o.minor, o.patch));
        if c != Ordering::Equal {
            return c;
        }
        match (self.pre.is_empty(), o.pre.is_empty()) {
            (true, true) => return Ordering::Equal,
            (true, false) => return Ordering::Greater,
            (false, true) => return Ordering::Less,
            _ => {}
        }
        for (a, b) in self.pre.iter().zip(o.pre.iter()) {
            let c = match (a, b) {
                (PreId::Num(x), PreId::Num(y)) => x.cmp(y),
                (PreId::Num(_), PreId::Alpha(_)) => Ordering::Less,
                (PreId::Alpha(_), PreId::Num(_)) => Ordering::Greater,
                (PreId::Alpha(x), PreId::Alpha(y)) => {
                    x.as_bytes().cmp(y.as_bytes())
                }
            };
            if c != Ordering::Equal {
                return c;
            }
        }
        self.pre.len().cmp(&o.pre.len())
    }

    pub fn lt(&self, o: &MVer) -> bool {
        self.prec(o) == Ordering::Less
    }
    pub fn le(&self, o: &MVer) -> bool {
        self.prec(o) != Ordering::Greater
    }
    pub fn eqp(&self, o: &MVer) -> bool {
        self.prec(o) == Ordering::Equal
    }
    pub fn has_build(&self) -> bool {
        !self.build.is_empty()
    }
    pub fn real(&self) -> semver::Version {
        semver::Version::parse(&self.text)
            .unwrap_or_else(|e| panic!("semver rejects {}: {e}", self.text))
    }
}

// ---------------------------------------------------------------- ranges

#[derive(Clone, Debug, PartialEq, Eq)]
pub enum MRange {
    All,
    From(MVer),
    Until(MVer),
    FromUntil(MVer, MVer),
}

impl MRange {
    pub fn contains(&self, v: &MVer) -> bool {
        match self {
            MRange::All => true,
            MRange::From(a) => a.le(v),
            MRange::Until(b) => v.lt(b),
            MRange::FromUntil(a, b) => {
                if a.eqp(b) {
                    v.eqp(a)
                } else {
                    a.le(v) && v.lt(b)
                }
            }
        }
    }

    fn lower(&self) -> MVer {
        match self {
            MRange::All | MRange::Until(_) => MVer::min(),
            MRange::From(a) | MRange::FromUntil(a, _) => a.clone(),
        }
    }

    /// does any version at all belong to this range?
    pub fn nonempty(&self) -> bool {
        self.contains(&self.lower())
    }

    /// ∃ v in both.  Both sets are "upward from lower until upper", so the
    /// larger of the two lower bounds is the least candidate; if it is not in
    /// both, nothing is.
    pub fn intersects(&self, o: &MRange) -> bool {
        let (a, b) = (self.lower(), o.lower());
        let l = if a.lt(&b) { b } else { a };
        self.contains(&l) && o.contains(&l)
    }

    pub fn is_all(&self) -> bool {
        matches!(self, MRange::All)
    }

    pub fn kind(&self) -> &'static str {
        match self {
            MRange::All => "all",
            MRange::From(_) => "from",
            MRange::Until(_) => "until",
            MRange::FromUntil(a, b) => {
                if a.eqp(b) {
                    "point"
                } else {
                    "fromuntil"
                }
            }
        }
    }

    pub fn has_build(&self) -> bool {
        match self {
            MRange::All => false,
            MRange::From(a) | MRange::Until(a) => a.has_build(),
            MRange::FromUntil(a, b) => a.has_build() || b.has_build(),
        }
    }

    /// versions at the edges of the range, useful as probes
    pub fn bounds(&self) -> Vec<MVer> {
        match self {
            MRange::All => vec![],
            MRange::From(a) | MRange::Until(a) => vec![a.clone()],
            MRange::FromUntil(a, b) => vec![a.clone(), b.clone()],
        }
    }

    pub fn real(&self) -> dropshot::ApiEndpointVersions {
        use dropshot::ApiEndpointVersions as V;
        match self {
            MRange::All => V::all(),
            MRange::From(a) => V::from(a.real()),
            MRange::Until(b) => V::until(b.real()),
            MRange::FromUntil(a, b) => V::from_until(a.real(), b.real())
                .expect("model only builds ordered from-until ranges"),
        }
    }

    pub fn show(&self) -> String {
        match self {
            MRange::All => "all".to_string(),
            MRange::From(a) => format!("from {}", a.text),
            MRange::Until(b) => format!("until {}", b.text),
            MRange::FromUntil(a, b) => format!("from {} until {}", a.text, b.text),
        }
    }
}

/// The ordered version universe U of DESIGN.md §6.
pub fn universe() -> Vec<MVer> {
    [
        "0.0.1",
        "0.9.0",
        "1.0.0-alpha",
        "1.0.0-alpha.1",
        "1.0.0-alpha.beta",
        "1.0.0-beta",
        "1.0.0-beta.2",
        "1.0.0-beta.11",
        "1.0.0-rc.1",
        "1.0.0",
        "1.0.1",
        "1.1.0",
        "2.0.0",
        "10.0.0",
    ]
    .iter()
    .map(|s| MVer::v(s))
    .collect()
}

// ---------------------------------------------------------------- paths

pub fn hexval(b: u8) -> Option<u8> {
    match b {
        b'0'..=b'9' => Some(b - b'0'),
        b'a'..=b'f' => Some(b - b'a' + 10),
        b'A'..=b'F' => Some(b - b'A' + 10),
        _ => None,
    }
}

/// Percent-decode once.  A '%' not followed by two hex digits is kept
/// literally (the WHATWG/percent-encoding convention).
pub fn pct_decode_once(s: &[u8]) -> Vec<u8> {
    let mut out = Vec::with_capacity(s.len());
    let mut i = 0;
    while i < s.len() {
        if s[i] == b'%' && i + 2 < s.len() {
            if let (Some(h), Some(l)) = (hexval(s[i + 1]), hexval(s[i + 2])) {
                out.push(h * 16 + l);
                i += 3;
                continue;
            }
        }
        out.push(s[i]);
        i += 1;
    }
    out
}

#[derive(Clone, Debug, PartialEq, Eq)]
pub enum NormPath {
    Segments(Vec<String>),
    /// must be answered 400, no handler
    Bad(&'static str),
}

/// The normaliser the property describes: split on '/', drop empty pieces,
/// decode each piece once, refuse dot segments (any spelling) and non-UTF-8.
pub fn normalise(raw_path: &[u8]) -> NormPath {
    let mut segs = vec![];
    for piece in raw_path.split(|b| *b == b'/') {
        if piece.is_empty() {
            continue;
        }
        let dec = pct_decode_once(piece);
        if dec == b"." || dec == b".." {
            return NormPath::Bad("dot-segment");
        }
        match String::from_utf8(dec) {
            Ok(s) => segs.push(s),
            Err(_) => return NormPath::Bad("not-utf8"),
        }
    }
    NormPath::Segments(segs)
}

// ---------------------------------------------------------------- templates

#[derive(Clone, Debug, PartialEq, Eq, PartialOrd, Ord)]
pub enum TSeg {
    Lit(String),
    Var(String),
    Wild(String),
}

#[derive(Clone, Debug)]
pub struct MEndpoint {
    pub opid: String,
    pub method: String,
    pub segs: Vec<TSeg>,
    pub trailing_slash: bool,
    pub range: MRange,
    pub visible: bool,
}

#[derive(Clone, Debug, PartialEq, Eq)]
pub enum Binding {
    One(String),
    Many(Vec<String>),
}

impl MEndpoint {
    pub fn template(&self) -> String {
        let mut s = String::new();
        for seg in &self.segs {
            s.push('/');
            match seg {
                TSeg::Lit(l) => s.push_str(l),
                TSeg::Var(v) => {
                    s.push('{');
                    s.push_str(v);
                    s.push('}');
                }
                TSeg::Wild(v) => {
                    s.push('{');
                    s.push_str(v);
                    s.push_str(":.*}");
                }
            }
        }
        if self.segs.is_empty() || self.trailing_slash {
            s.push('/');
        }
        s
    }

    /// the path as the OpenAPI document is expected to show it (modulo a
    /// trailing slash): wildcards are shown as plain variables
    pub fn doc_template(&self) -> String {
        let mut s = String::new();
        for seg in &self.segs {
            s.push('/');
            match seg {
                TSeg::Lit(l) => s.push_str(l),
                TSeg::Var(v) | TSeg::Wild(v) => {
                    s.push('{');
                    s.push_str(v);
                    s.push('}');
                }
            }
        }
        if s.is_empty() {
            s.push('/');
        }
        s
    }

    pub fn var_names(&self) -> Vec<String> {
        self.segs
            .iter()
            .filter_map(|s| match s {
                TSeg::Var(v) | TSeg::Wild(v) => Some(v.clone()),
                TSeg::Lit(_) => None,
            })
            .collect()
    }

    pub fn has_wild(&self) -> bool {
        matches!(self.segs.last(), Some(TSeg::Wild(_)))
    }

    /// match a normalised segment list
    pub fn matches(
        &self,
        segs: &[String],
    ) -> Option<BTreeMap<String, Binding>> {
        let mut b = BTreeMap::new();
        let mut i = 0;
        for t in &self.segs {
            match t {
                TSeg::Lit(l) => {
                    if i >= segs.len() || &segs[i] != l {
                        return None;
                    }
                    i += 1;
                }
                TSeg::Var(v) => {
                    if i >= segs.len() {
                        return None;
                    }
                    b.insert(v.clone(), Binding::One(segs[i].clone()));
                    i += 1;
                }
                TSeg::Wild(v) => {
                    b.insert(v.clone(), Binding::Many(segs[i..].to_vec()));
                    i = segs.len();
                }
            }
        }
        if i == segs.len() {
            Some(b)
        } else {
            None
        }
    }
}

#[derive(Clone, Debug, PartialEq, Eq)]
pub enum Expect {
    /// exactly this endpoint (index into the table) with these bindings
    Hit(usize, BTreeMap<String, Binding>),
    /// table ambiguous for this request (a C02 matter)
    Ambiguous(Vec<usize>),
    NotFound,
    /// 405 with exactly these methods in Allow
    NotAllowed(BTreeSet<String>),
    BadRequest(&'static str),
}

/// `version` None means "unversioned server" (only legal when every range is
/// All; then the version constraint is vacuous).
pub fn dispatch(
    table: &[MEndpoint],
    method: &str,
    raw_path: &[u8],
    version: Option<&MVer>,
) -> Expect {
    let segs = match normalise(raw_path) {
        NormPath::Bad(why) => return Expect::BadRequest(why),
        NormPath::Segments(s) => s,
    };
    let mut hits = vec![];
    let mut served: BTreeSet<String> = BTreeSet::new();
    for (i, e) in table.iter().enumerate() {
        let inrange = match version {
            Some(v) => e.range.contains(v),
            None => true,
        };
        if !inrange {
            continue;
        }
        if let Some(b) = e.matches(&segs) {
            served.insert(e.method.to_ascii_uppercase());
            if e.method == method {
                hits.push((i, b));
            }
        }
    }
    match hits.len() {
        1 => {
            let (i, b) = hits.pop().unwrap();
            Expect::Hit(i, b)
        }
        0 => {
            if served.is_empty() {
                Expect::NotFound
            } else {
                Expect::NotAllowed(served)
            }
        }
        _ => Expect::Ambiguous(hits.into_iter().map(|h| h.0).collect()),
    }
}

// ---------------------------------------------------------------- misc

/// Undo Rust's `Debug` escaping of a string literal body (between the quotes).
pub fn undebug(s: &str) -> Option<String> {
    let mut out = String::new();
    let mut it = s.chars().peekable();
    while let Some(c) = it.next() {
        if c != '\\' {
            out.push(c);
            continue;
        }
        match it.next()? {
            'n' => out.push('\n'),
            'r' => out.push('\r'),
            't' => out.push('\t'),
            '0' => out.push('\0'),
            '\\' => out.push('\\'),
            '"' => out.push('"'),
            '\'' => out.push('\''),
            'u' => {
                if it.next()? != '{' {
                    return None;
                }
                let mut v: u32 = 0;
                loop {
                    let h = it.next()?;
                    if h == '}' {
                        break;
                    }
                    v = v.checked_mul(16)? + h.to_digit(16)?;
                }
                out.push(char::from_u32(v)?);
            }
            _ => return None,
        }
    }
    Some(out)
}

/// Parse the `Debug` rendering of dropshot's `VariableSet`
/// (`{"x": String("a"), "w": Components(["p", "q"])}`) into model bindings.
pub fn parse_variables_debug(s: &str) -> Option<BTreeMap<String, Binding>> {
    let cs: Vec<char> = s.chars().collect();
    let mut i = 0usize;
    fn skip_ws(cs: &[char], i: &mut usize) {
        while *i < cs.len() && (cs[*i] == ' ' || cs[*i] == '\n') {
            *i += 1;
        }
    }
    fn lit(cs: &[char], i: &mut usize) -> Option<String> {
        if cs.get(*i)? != &'"' {
            return None;
        }
        *i += 1;
        let mut raw = String::new();
        loop {
            let c = *cs.get(*i)?;
            if c == '\\' {
                raw.push(c);
                raw.push(*cs.get(*i + 1)?);
                *i += 2;
                continue;
            }
            if c == '"' {
                *i += 1;
                break;
            }
            raw.push(c);
            *i += 1;
        }
        undebug(&raw)
    }
    fn eat(cs: &[char], i: &mut usize, w: &str) -> bool {
        let wc: Vec<char> = w.chars().collect();
        if cs.len() >= *i + wc.len() && cs[*i..*i + wc.len()] == wc[..] {
            *i += wc.len();
            true
        } else {
            false
        }
    }
    let mut out = BTreeMap::new();
    skip_ws(&cs, &mut i);
    if !eat(&cs, &mut i, "{") {
        return None;
    }
    loop {
        skip_ws(&cs, &mut i);
        if eat(&cs, &mut i, "}") {
            break;
        }
        let k = lit(&cs, &mut i)?;
        if !eat(&cs, &mut i, ": ") {
            return None;
        }
        if eat(&cs, &mut i, "String(") {
            let v = lit(&cs, &mut i)?;
            if !eat(&cs, &mut i, ")") {
                return None;
            }
            out.insert(k, Binding::One(v));
        } else if eat(&cs, &mut i, "Components([") {
            let mut vs = vec![];
            loop {
                skip_ws(&cs, &mut i);
                if eat(&cs, &mut i, "])") {
                    break;
                }
                vs.push(lit(&cs, &mut i)?);
                eat(&cs, &mut i, ",");
            }
            out.insert(k, Binding::Many(vs));
        } else {
            return None;
        }
        skip_ws(&cs, &mut i);
        eat(&cs, &mut i, ",");
    }
    Some(out)
}

#[cfg(test)]
mod tests {
    use super::*;

    #[test]
    fn semver_spec_order() {
        let u = [
            "1.0.0-alpha",
            "1.0.0-alpha.1",
            "1.0.0-alpha.beta",
            "1.0.0-beta",
            "1.0.0-beta.2",
            "1.0.0-beta.11",
            "1.0.0-rc.1",
            "1.0.0",
        ];
        for i in 0..u.len() {
            for j in 0..u.len() {
                assert_eq!(
                    MVer::v(u[i]).prec(&MVer::v(u[j])),
                    i.cmp(&j),
                    "{} vs {}",
                    u[i],
                    u[j]
                );
            }
        }
        assert!(MVer::v("1.0.0+a").eqp(&MVer::v("1.0.0+b")));
        assert!(MVer::parse("01.0.0").is_none());
        assert!(MVer::parse("1.0").is_none());
        assert!(MVer::parse("1.0.0-01").is_none());
        assert!(MVer::parse("1.0.0-0a").is_some());
    }

    #[test]
    fn ranges() {
        let a = MVer::v("1.0.0");
        assert!(MRange::From(a.clone())
            .intersects(&MRange::FromUntil(a.clone(), a.clone())));
        assert!(!MRange::Until(a.clone())
            .intersects(&MRange::FromUntil(a.clone(), a.clone())));
        assert!(!MRange::Until(MVer::min()).nonempty());
        assert!(!MRange::Until(MVer::min()).intersects(&MRange::All));
    }

    #[test]
    fn decode() {
        assert_eq!(pct_decode_once(b"%41%2f%zz%4"), b"A/%zz%4".to_vec());
        assert_eq!(pct_decode_once(b"%2541"), b"%41".to_vec());
        assert_eq!(normalise(b"/a/%2e%2E/b"), NormPath::Bad("dot-segment"));
        assert_eq!(
            normalise(b"//a//b%2Fc/"),
            NormPath::Segments(vec!["a".into(), "b/c".into()])
        );
    }

    #[test]
    fn vardebug() {
        let m = parse_variables_debug(
            r#"{"w": Components(["a\"b", "\u{7f}"]), "x": String("q\\")}"#,
        )
        .unwrap();
        assert_eq!(
            m["w"],
            Binding::Many(vec!["a\"b".into(), "\u{7f}".into()])
        );
        assert_eq!(m["x"], Binding::One("q\\".into()));
    }
}
