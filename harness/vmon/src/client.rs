//! Raw blocking HTTP/1.1 client with byte-level control over what is sent, and
//! a strict response parser (the "syntactically valid HTTP response" oracle).

use std::io::{Read, Write};
use std::net::{SocketAddr, TcpStream};
use std::time::{Duration, Instant};

#[derive(Debug, Clone)]
pub struct Resp {
    pub version: String,
    pub status: u16,
    pub reason: String,
    /// names lower-cased, values raw bytes (trimmed of OWS)
    pub headers: Vec<(String, Vec<u8>)>,
    pub body: Vec<u8>,
    /// how the body was framed: "none", "length", "chunked", "eof"
    pub framing: &'static str,
    /// number of chunks when chunked
    pub chunks: usize,
}

impl Resp {
    pub fn header(&self, name: &str) -> Option<&[u8]> {
        self.headers.iter().find(|(n, _)| n == name).map(|(_, v)| v.as_slice())
    }
    pub fn header_str(&self, name: &str) -> Option<String> {
        self.header(name).map(|v| String::from_utf8_lossy(v).to_string())
    }
    pub fn header_all(&self, name: &str) -> Vec<Vec<u8>> {
        self.headers
            .iter()
            .filter(|(n, _)| n == name)
            .map(|(_, v)| v.clone())
            .collect()
    }
    pub fn json(&self) -> Option<serde_json::Value> {
        serde_json::from_slice(&self.body).ok()
    }
    pub fn wants_close(&self) -> bool {
        self.header_all("connection").iter().any(|v| {
            String::from_utf8_lossy(v)
                .split(',')
                .any(|t| t.trim().eq_ignore_ascii_case("close"))
        }) || self.version == "HTTP/1.0"
    }
}

#[derive(Debug, Clone)]
pub enum ReadErr {
    /// connection closed cleanly before any byte of a response
    Closed,
    /// closed in the middle of a response (bytes so far)
    Truncated(Vec<u8>),
    Reset(Vec<u8>),
    Timeout(Vec<u8>),
    /// bytes received that are not a valid HTTP/1.1 response
    Malformed(String, Vec<u8>),
    Io(String),
}

pub struct Conn {
    /// None: parsing a closed byte string (every read is EOF)
    pub stream: Option<TcpStream>,
    pub buf: Vec<u8>,
    pub local: SocketAddr,
    pub peer: SocketAddr,
    pub timeout: Duration,
}

fn is_tchar(b: u8) -> bool {
    b.is_ascii_alphanumeric() || b"!#$%&'*+-.^_`|~".contains(&b)
}

impl Conn {
    pub fn tcp(&mut self) -> &mut TcpStream {
        self.stream.as_mut().expect("connection-less parser has no socket")
    }

    pub fn connect(addr: SocketAddr) -> std::io::Result<Conn> {
        Self::connect_from(addr, None)
    }

    /// connect, optionally binding the local side to 127.0.0.x first
    pub fn connect_from(
        addr: SocketAddr,
        local_ip: Option<std::net::Ipv4Addr>,
    ) -> std::io::Result<Conn> {
        let stream = match local_ip {
            None => TcpStream::connect_timeout(&addr, Duration::from_secs(10))?,
            Some(ip) => {
                // std has no bind-before-connect; use libc
                use std::os::fd::FromRawFd;
                unsafe {
                    let fd = libc::socket(libc::AF_INET, libc::SOCK_STREAM, 0);
                    if fd < 0 {
                        return Err(std::io::Error::last_os_error());
                    }
                    let mut sa: libc::sockaddr_in = std::mem::zeroed();
                    sa.sin_family = libc::AF_INET as u16;
                    sa.sin_port = 0;
                    sa.sin_addr.s_addr = u32::from_ne_bytes(ip.octets());
                    if libc::bind(
                        fd,
                        &sa as *const _ as *const libc::sockaddr,
                        std::mem::size_of::<libc::sockaddr_in>() as u32,
                    ) < 0
                    {
                        let e = std::io::Error::last_os_error();
                        libc::close(fd);
                        return Err(e);
                    }
                    let std::net::SocketAddr::V4(a4) = addr else {
                        libc::close(fd);
                        return Err(std::io::Error::other("v4 only"));
                    };
                    let mut da: libc::sockaddr_in = std::mem::zeroed();
                    da.sin_family = libc::AF_INET as u16;
                    da.sin_port = a4.port().to_be();
                    da.sin_addr.s_addr = u32::from_ne_bytes(a4.ip().octets());
                    if libc::connect(
                        fd,
                        &da as *const _ as *const libc::sockaddr,
                        std::mem::size_of::<libc::sockaddr_in>() as u32,
                    ) < 0
                    {
                        let e = std::io::Error::last_os_error();
                        libc::close(fd);
                        return Err(e);
                    }
                    TcpStream::from_raw_fd(fd)
                }
            }
        };
        stream.set_nodelay(true)?;
        let local = stream.local_addr()?;
        let peer = stream.peer_addr()?;
        Ok(Conn {
            stream: Some(stream),
            buf: Vec::new(),
            local,
            peer,
            timeout: Duration::from_secs(30),
        })
    }

    pub fn send(&mut self, data: &[u8]) -> std::io::Result<()> {
        let t = self.timeout;
        let s = self.tcp();
        s.set_write_timeout(Some(t))?;
        s.write_all(data)?;
        s.flush()
    }

    /// write `data` in pieces cut at the given offsets, sleeping in between
    pub fn send_split(
        &mut self,
        data: &[u8],
        cuts: &[usize],
        delay: Duration,
    ) -> std::io::Result<()> {
        let mut prev = 0;
        let mut cuts: Vec<usize> =
            cuts.iter().copied().filter(|c| *c > 0 && *c < data.len()).collect();
        cuts.sort_unstable();
        cuts.dedup();
        for c in cuts {
            self.send(&data[prev..c])?;
            prev = c;
            if !delay.is_zero() {
                std::thread::sleep(delay);
            }
        }
        self.send(&data[prev..])
    }

    /// abortive close (RST) via SO_LINGER 0
    pub fn rst(mut self) {
        use std::os::fd::AsRawFd;
        let l = libc::linger { l_onoff: 1, l_linger: 0 };
        unsafe {
            libc::setsockopt(
                self.tcp().as_raw_fd(),
                libc::SOL_SOCKET,
                libc::SO_LINGER,
                &l as *const _ as *const libc::c_void,
                std::mem::size_of::<libc::linger>() as u32,
            );
        }
        drop(self.stream);
    }

    pub fn shutdown_write(&self) {
        if let Some(s) = &self.stream {
            let _ = s.shutdown(std::net::Shutdown::Write);
        }
    }

    fn fill(&mut self, deadline: Instant) -> Result<usize, ReadErr> {
        let now = Instant::now();
        if now >= deadline {
            return Err(ReadErr::Timeout(self.buf.clone()));
        }
        let Some(stream) = self.stream.as_mut() else {
            return Ok(0);
        };
        let _ = stream.set_read_timeout(Some(deadline - now));
        let mut tmp = [0u8; 16384];
        match stream.read(&mut tmp) {
            Ok(0) => Ok(0),
            Ok(n) => {
                self.buf.extend_from_slice(&tmp[..n]);
                Ok(n)
            }
            Err(e) => match e.kind() {
                std::io::ErrorKind::WouldBlock | std::io::ErrorKind::TimedOut => {
                    Err(ReadErr::Timeout(self.buf.clone()))
                }
                std::io::ErrorKind::ConnectionReset
                | std::io::ErrorKind::ConnectionAborted
                | std::io::ErrorKind::BrokenPipe => {
                    Err(ReadErr::Reset(self.buf.clone()))
                }
                std::io::ErrorKind::Interrupted => Ok(usize::MAX),
                _ => Err(ReadErr::Io(e.to_string())),
            },
        }
    }

    /// read everything until EOF / reset / timeout
    pub fn read_to_eof(&mut self, max_wait: Duration) -> (Vec<u8>, &'static str) {
        let deadline = Instant::now() + max_wait;
        loop {
            match self.fill(deadline) {
                Ok(0) => return (std::mem::take(&mut self.buf), "eof"),
                Ok(_) => {}
                Err(ReadErr::Reset(_)) => {
                    return (std::mem::take(&mut self.buf), "reset")
                }
                Err(ReadErr::Timeout(_)) => {
                    return (std::mem::take(&mut self.buf), "timeout")
                }
                Err(_) => return (std::mem::take(&mut self.buf), "io"),
            }
        }
    }

    /// read exactly n raw bytes (post-upgrade traffic)
    pub fn read_exact_raw(
        &mut self,
        n: usize,
        max_wait: Duration,
    ) -> Result<Vec<u8>, ReadErr> {
        let deadline = Instant::now() + max_wait;
        while self.buf.len() < n {
            match self.fill(deadline)? {
                0 => return Err(ReadErr::Truncated(self.buf.clone())),
                _ => {}
            }
        }
        let rest = self.buf.split_off(n);
        let out = std::mem::replace(&mut self.buf, rest);
        Ok(out)
    }

    pub fn read_response(&mut self, head_request: bool) -> Result<Resp, ReadErr> {
        let t = self.timeout;
        self.read_response_within(head_request, t)
    }

    /// Parse one response strictly.  Leaves any following bytes in `buf`.
    pub fn read_response_within(
        &mut self,
        head_request: bool,
        max_wait: Duration,
    ) -> Result<Resp, ReadErr> {
        let deadline = Instant::now() + max_wait;
        // ---- head
        let head_end = loop {
            if let Some(p) = find(&self.buf, b"\r\n\r\n") {
                break p;
            }
            if self.buf.len() > 1 << 20 {
                return Err(ReadErr::Malformed(
                    "response head larger than 1 MiB".into(),
                    self.buf.clone(),
                ));
            }
            match self.fill(deadline)? {
                0 => {
                    return if self.buf.is_empty() {
                        Err(ReadErr::Closed)
                    } else {
                        Err(ReadErr::Truncated(self.buf.clone()))
                    }
                }
                _ => {}
            }
        };
        let head = self.buf[..head_end].to_vec();
        let mal = |why: &str, me: &Conn| {
            ReadErr::Malformed(why.to_string(), me.buf.clone())
        };
        let mut lines = split_crlf(&head);
        if lines.is_empty() {
            return Err(mal("empty head", self));
        }
        let sl = lines.remove(0);
        // status-line = HTTP-version SP status-code SP [reason-phrase]
        if sl.len() < 12 {
            return Err(mal("short status line", self));
        }
        let version = &sl[..8];
        if version != b"HTTP/1.1" && version != b"HTTP/1.0" {
            return Err(mal("bad HTTP version in status line", self));
        }
        if sl[8] != b' ' || !sl[9..12].iter().all(|b| b.is_ascii_digit()) {
            return Err(mal("bad status code", self));
        }
        let status: u16 =
            std::str::from_utf8(&sl[9..12]).unwrap().parse().unwrap();
        if status < 100 {
            return Err(mal("status below 100", self));
        }
        let reason = if sl.len() > 12 {
            if sl[12] != b' ' {
                return Err(mal("no SP after status code", self));
            }
            let r = &sl[13..];
            if r.iter().any(|b| (*b < 0x20 && *b != b'\t') || *b == 0x7f) {
                return Err(mal("control char in reason phrase", self));
            }
            String::from_utf8_lossy(r).to_string()
        } else {
            // "HTTP/1.1 200" without SP: RFC 9112 requires the SP
            return Err(mal("missing SP after status code", self));
        };
        let mut headers = vec![];
        for l in lines {
            if l.is_empty() {
                return Err(mal("empty header line", self));
            }
            if l[0] == b' ' || l[0] == b'\t' {
                return Err(mal("obs-fold in response header", self));
            }
            let Some(c) = l.iter().position(|b| *b == b':') else {
                return Err(mal("header line without colon", self));
            };
            let name = &l[..c];
            if name.is_empty() || !name.iter().all(|b| is_tchar(*b)) {
                return Err(mal("bad header field name", self));
            }
            let mut v = &l[c + 1..];
            while let [b' ' | b'\t', rest @ ..] = v {
                v = rest;
            }
            while let [rest @ .., b' ' | b'\t'] = v {
                v = rest;
            }
            if v.iter().any(|b| (*b < 0x20 && *b != b'\t') || *b == 0x7f) {
                return Err(mal("control char in header value", self));
            }
            headers.push((
                String::from_utf8_lossy(name).to_ascii_lowercase(),
                v.to_vec(),
            ));
        }
        self.buf.drain(..head_end + 4);
        let mut resp = Resp {
            version: String::from_utf8_lossy(version).to_string(),
            status,
            reason,
            headers,
            body: vec![],
            framing: "none",
            chunks: 0,
        };
        // ---- body
        let te: Vec<String> = resp
            .header_all("transfer-encoding")
            .iter()
            .flat_map(|v| {
                String::from_utf8_lossy(v)
                    .split(',')
                    .map(|s| s.trim().to_ascii_lowercase())
                    .collect::<Vec<_>>()
            })
            .collect();
        let cls = resp.header_all("content-length");
        let mut cl: Option<usize> = None;
        for c in &cls {
            let s = String::from_utf8_lossy(c).to_string();
            if s.is_empty() || !s.bytes().all(|b| b.is_ascii_digit()) {
                return Err(ReadErr::Malformed(
                    format!("bad content-length {s:?}"),
                    head.clone(),
                ));
            }
            let n: usize = s.parse().map_err(|_| {
                ReadErr::Malformed("content-length overflow".into(), head.clone())
            })?;
            if let Some(p) = cl {
                if p != n {
                    return Err(ReadErr::Malformed(
                        "conflicting content-length".into(),
                        head.clone(),
                    ));
                }
            }
            cl = Some(n);
        }
        let no_body = head_request
            || (100..200).contains(&status)
            || status == 204
            || status == 304;
        if (100..200).contains(&status) || status == 204 {
            if !te.is_empty() {
                return Err(ReadErr::Malformed(
                    "transfer-encoding on 1xx/204".into(),
                    head.clone(),
                ));
            }
            if status == 204 && cl.is_some() {
                return Err(ReadErr::Malformed(
                    "content-length on 204".into(),
                    head.clone(),
                ));
            }
        }
        if no_body {
            return Ok(resp);
        }
        if !te.is_empty() {
            if cl.is_some() {
                return Err(ReadErr::Malformed(
                    "both transfer-encoding and content-length".into(),
                    head.clone(),
                ));
            }
            if te.last().map(|s| s.as_str()) != Some("chunked") {
                return Err(ReadErr::Malformed(
                    "final transfer coding is not chunked".into(),
                    head.clone(),
                ));
            }
            resp.framing = "chunked";
            loop {
                // chunk-size [;ext] CRLF
                let line_end = loop {
                    if let Some(p) = find(&self.buf, b"\r\n") {
                        break p;
                    }
                    if self.fill(deadline)? == 0 {
                        return Err(ReadErr::Truncated(resp.body.clone()));
                    }
                };
                let line = self.buf[..line_end].to_vec();
                let size_part =
                    line.split(|b| *b == b';').next().unwrap_or(&[]).to_vec();
                if size_part.is_empty()
                    || !size_part.iter().all(|b| b.is_ascii_hexdigit())
                    || size_part.len() > 16
                {
                    return Err(ReadErr::Malformed(
                        format!(
                            "bad chunk size line {:?}",
                            String::from_utf8_lossy(&line)
                        ),
                        self.buf.clone(),
                    ));
                }
                let n = usize::from_str_radix(
                    std::str::from_utf8(&size_part).unwrap(),
                    16,
                )
                .unwrap();
                self.buf.drain(..line_end + 2);
                if n == 0 {
                    // trailers until empty line
                    loop {
                        let le = loop {
                            if let Some(p) = find(&self.buf, b"\r\n") {
                                break p;
                            }
                            if self.fill(deadline)? == 0 {
                                return Err(ReadErr::Truncated(
                                    resp.body.clone(),
                                ));
                            }
                        };
                        let empty = le == 0;
                        self.buf.drain(..le + 2);
                        if empty {
                            break;
                        }
                    }
                    break;
                }
                while self.buf.len() < n + 2 {
                    if self.fill(deadline)? == 0 {
                        return Err(ReadErr::Truncated(resp.body.clone()));
                    }
                }
                if &self.buf[n..n + 2] != b"\r\n" {
                    return Err(ReadErr::Malformed(
                        "chunk data not followed by CRLF".into(),
                        self.buf.clone(),
                    ));
                }
                resp.body.extend_from_slice(&self.buf[..n]);
                self.buf.drain(..n + 2);
                resp.chunks += 1;
            }
            return Ok(resp);
        }
        if let Some(n) = cl {
            resp.framing = "length";
            while self.buf.len() < n {
                if self.fill(deadline)? == 0 {
                    return Err(ReadErr::Truncated(self.buf.clone()));
                }
            }
            resp.body = self.buf[..n].to_vec();
            self.buf.drain(..n);
            return Ok(resp);
        }
        // neither: body runs to EOF (legal only when the connection closes)
        resp.framing = "eof";
        loop {
            match self.fill(deadline) {
                Ok(0) => break,
                Ok(_) => {}
                Err(ReadErr::Reset(_)) => break,
                Err(e) => return Err(e),
            }
        }
        resp.body = std::mem::take(&mut self.buf);
        Ok(resp)
    }
}

pub fn find(h: &[u8], n: &[u8]) -> Option<usize> {
    if n.is_empty() || h.len() < n.len() {
        return None;
    }
    h.windows(n.len()).position(|w| w == n)
}

/// Split on CRLF; a bare CR or LF inside a line is left in place (and will be
/// rejected by the control-character checks).
fn split_crlf(b: &[u8]) -> Vec<Vec<u8>> {
    let mut out = vec![];
    let mut cur = vec![];
    let mut i = 0;
    while i < b.len() {
        if b[i] == b'\r' && i + 1 < b.len() && b[i + 1] == b'\n' {
            out.push(std::mem::take(&mut cur));
            i += 2;
        } else {
            cur.push(b[i]);
            i += 1;
        }
    }
    out.push(cur);
    out
}

/// Parse a byte string that should consist of zero or more complete responses
/// (used by C18 on whatever a faulty connection received).
pub fn parse_all_responses(
    bytes: &[u8],
    head_flags: &[bool],
) -> Result<Vec<Resp>, String> {
    // feed through a Conn-less parser: reuse by emulating with a cursor
    let mut out = vec![];
    let mut rest = bytes.to_vec();
    let mut idx = 0;
    while !rest.is_empty() {
        let head = head_flags.get(idx).copied().unwrap_or(false);
        match parse_one(&rest, head) {
            Ok((r, used)) => {
                let closes = r.framing == "eof";
                out.push(r);
                rest.drain(..used);
                if closes {
                    break;
                }
            }
            Err(e) => return Err(e),
        }
        idx += 1;
    }
    Ok(out)
}

/// Parse one complete response from a closed byte string; returns the
/// response and the number of bytes it occupied.
pub fn parse_one(bytes: &[u8], head_request: bool) -> Result<(Resp, usize), String> {
    let dummy: SocketAddr = "127.0.0.1:0".parse().unwrap();
    let mut c = Conn {
        stream: None,
        buf: bytes.to_vec(),
        local: dummy,
        peer: dummy,
        timeout: Duration::from_secs(5),
    };
    match c.read_response_within(head_request, Duration::from_secs(5)) {
        Ok(resp) => Ok((resp, bytes.len() - c.buf.len())),
        Err(e) => Err(format!("{e:?}")),
    }
}

// ------------------------------------------------------------ request builder

#[derive(Clone, Debug, Default)]
pub struct Req {
    pub method: String,
    pub target: Vec<u8>,
    pub headers: Vec<(String, Vec<u8>)>,
    pub body: Vec<u8>,
    /// Some(sizes): send the body with chunked transfer coding using these
    /// chunk sizes (cycled); None: content-length
    pub chunked: Option<Vec<usize>>,
    pub no_host: bool,
    pub omit_length: bool,
}

impl Req {
    pub fn new(method: &str, target: &str) -> Req {
        Req {
            method: method.to_string(),
            target: target.as_bytes().to_vec(),
            ..Default::default()
        }
    }
    pub fn raw_target(method: &str, target: &[u8]) -> Req {
        Req {
            method: method.to_string(),
            target: target.to_vec(),
            ..Default::default()
        }
    }
    pub fn header(mut self, n: &str, v: &str) -> Req {
        self.headers.push((n.to_string(), v.as_bytes().to_vec()));
        self
    }
    pub fn header_bytes(mut self, n: &str, v: &[u8]) -> Req {
        self.headers.push((n.to_string(), v.to_vec()));
        self
    }
    pub fn uid(self, uid: u64) -> Req {
        self.header("x-vmon-uid", &uid.to_string())
    }
    pub fn body(mut self, b: &[u8]) -> Req {
        self.body = b.to_vec();
        self
    }
    pub fn json(mut self, v: &serde_json::Value) -> Req {
        self.body = serde_json::to_vec(v).unwrap();
        self.headers.push(("content-type".into(), b"application/json".to_vec()));
        self
    }
    pub fn chunked(mut self, sizes: Vec<usize>) -> Req {
        self.chunked = Some(sizes);
        self
    }

    pub fn encode(&self) -> Vec<u8> {
        let mut out = vec![];
        out.extend_from_slice(self.method.as_bytes());
        out.push(b' ');
        out.extend_from_slice(&self.target);
        out.extend_from_slice(b" HTTP/1.1\r\n");
        if !self.no_host {
            out.extend_from_slice(b"host: vmon\r\n");
        }
        for (n, v) in &self.headers {
            out.extend_from_slice(n.as_bytes());
            out.extend_from_slice(b": ");
            out.extend_from_slice(v);
            out.extend_from_slice(b"\r\n");
        }
        match &self.chunked {
            None => {
                let has_body_semantics = !self.body.is_empty()
                    || matches!(self.method.as_str(), "POST" | "PUT" | "PATCH");
                if has_body_semantics && !self.omit_length {
                    out.extend_from_slice(
                        format!("content-length: {}\r\n", self.body.len())
                            .as_bytes(),
                    );
                }
                out.extend_from_slice(b"\r\n");
                out.extend_from_slice(&self.body);
            }
            Some(sizes) => {
                out.extend_from_slice(b"transfer-encoding: chunked\r\n\r\n");
                let mut off = 0;
                let mut i = 0;
                while off < self.body.len() {
                    let want = if sizes.is_empty() {
                        self.body.len()
                    } else {
                        sizes[i % sizes.len()].max(1)
                    };
                    let n = want.min(self.body.len() - off);
                    out.extend_from_slice(format!("{n:x}\r\n").as_bytes());
                    out.extend_from_slice(&self.body[off..off + n]);
                    out.extend_from_slice(b"\r\n");
                    off += n;
                    i += 1;
                }
                out.extend_from_slice(b"0\r\n\r\n");
            }
        }
        out
    }
}

/// percent-encode `s` as one path segment / query component with a per-byte
/// choice: bytes that must be encoded always are; others are encoded when
/// `choose()` says so.  Hex case also chosen per byte.
pub fn pct_encode_with<F: FnMut() -> u64>(
    s: &[u8],
    must: fn(u8) -> bool,
    mut choose: F,
) -> Vec<u8> {
    let mut out = vec![];
    for &b in s {
        let r = choose();
        if must(b) || r % 4 == 0 {
            let hex: &[u8; 16] = if (r >> 8) & 1 == 0 {
                b"0123456789ABCDEF"
            } else {
                b"0123456789abcdef"
            };
            let hex2: &[u8; 16] = if (r >> 9) & 1 == 0 {
                b"0123456789ABCDEF"
            } else {
                b"0123456789abcdef"
            };
            out.push(b'%');
            out.push(hex[(b >> 4) as usize]);
            out.push(hex2[(b & 15) as usize]);
        } else {
            out.push(b);
        }
    }
    out
}

/// bytes that may appear raw in a path segment (RFC 3986 pchar minus '%')
pub fn must_encode_in_segment(b: u8) -> bool {
    !(b.is_ascii_alphanumeric() || b"-._~!$&'()*+,;=:@".contains(&b))
}

/// bytes that may appear raw in a query component value (we additionally
/// encode '&', '=', '+' and ';' so that the component boundaries are ours)
pub fn must_encode_in_query(b: u8) -> bool {
    !(b.is_ascii_alphanumeric() || b"-._~!$'()*,:@/?".contains(&b))
}
