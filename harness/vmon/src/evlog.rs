//! Append-only event log shared by harness handlers, harness clients and the
//! scenario driver.  The push (under the mutex) is the linearisation point:
//! `seq` order is the order the offline checkers reason about.

use serde_json::{json, Value};
use std::sync::atomic::{AtomicU64, Ordering};
use std::sync::{Arc, Condvar, Mutex};
use std::time::{Duration, Instant};

#[derive(Clone, Debug)]
pub struct Event {
    pub seq: u64,
    pub t_us: u64,
    pub kind: &'static str,
    pub uid: u64,
    pub n: i64,
    pub s: String,
}

impl Event {
    pub fn json(&self) -> Value {
        json!({"seq": self.seq, "t_us": self.t_us, "kind": self.kind,
               "uid": self.uid, "n": self.n, "s": self.s})
    }
}

pub struct EvLogInner {
    events: Mutex<Vec<Event>>,
    cv: Condvar,
    t0: Instant,
}

#[derive(Clone)]
pub struct EvLog(Arc<EvLogInner>);

static UID: AtomicU64 = AtomicU64::new(1);

/// process-wide unique request id
pub fn next_uid() -> u64 {
    UID.fetch_add(1, Ordering::Relaxed)
}

impl Default for EvLog {
    fn default() -> Self {
        Self::new()
    }
}

impl EvLog {
    pub fn new() -> EvLog {
        EvLog(Arc::new(EvLogInner {
            events: Mutex::new(Vec::new()),
            cv: Condvar::new(),
            t0: Instant::now(),
        }))
    }

    pub fn push(&self, kind: &'static str, uid: u64, n: i64, s: &str) -> u64 {
        let mut g = self.0.events.lock().unwrap();
        let seq = g.len() as u64;
        g.push(Event {
            seq,
            t_us: self.0.t0.elapsed().as_micros() as u64,
            kind,
            uid,
            n,
            s: s.to_string(),
        });
        drop(g);
        self.0.cv.notify_all();
        seq
    }

    pub fn snapshot(&self) -> Vec<Event> {
        self.0.events.lock().unwrap().clone()
    }

    pub fn len(&self) -> usize {
        self.0.events.lock().unwrap().len()
    }

    /// Wait until an event satisfying `pred` exists; returns it, or None on
    /// (generous) watchdog expiry — which callers must treat as inconclusive.
    pub fn wait_for<F: Fn(&Event) -> bool>(
        &self,
        pred: F,
        watchdog: Duration,
    ) -> Option<Event> {
        let deadline = Instant::now() + watchdog;
        let mut g = self.0.events.lock().unwrap();
        let mut scanned = 0usize;
        loop {
            while scanned < g.len() {
                if pred(&g[scanned]) {
                    return Some(g[scanned].clone());
                }
                scanned += 1;
            }
            let now = Instant::now();
            if now >= deadline {
                return None;
            }
            let (ng, _) = self.0.cv.wait_timeout(g, deadline - now).unwrap();
            g = ng;
        }
    }

    pub fn count_kind(&self, kind: &str) -> usize {
        self.0.events.lock().unwrap().iter().filter(|e| e.kind == kind).count()
    }
}
