//! C18: hostile or broken traffic cannot take the server down; what it answers
//! is valid HTTP; malformed requests are answered 4xx/5xx.  (fault enumeration)

use crate::client::*;
use crate::evlog::{next_uid, EvLog};
use crate::live::echo_api;
use crate::report::Report;
use crate::rng::Rng;
use crate::srv::{start, Ctx, SrvCfg};
use dropshot::HandlerTaskMode;
use serde_json::{json, Value};
use std::net::SocketAddr;
use std::sync::atomic::{AtomicBool, AtomicU64, Ordering};
use std::sync::{Arc, Mutex};
use std::time::Duration;

#[derive(Clone, Copy, Debug, PartialEq)]
pub enum End {
    /// half-close our side, then read until the server closes
    Fin,
    /// abortive close right after writing, nothing is read
    Rst,
    /// keep the connection open for a while, read what arrives, then close
    Hold,
}

#[derive(Clone, Debug)]
pub struct Fault {
    pub class: String,
    pub bytes: Vec<u8>,
    pub end: End,
    /// malformed by construction: every response must be 4xx/5xx
    pub malformed: bool,
    /// incomplete by construction: a 2xx for the cut request is wrong
    pub no_2xx_after: Option<usize>,
    /// the answer is not HTTP/1.1 (h2 frames): only liveness is judged
    pub skip_grammar: bool,
    pub head_flags: Vec<bool>,
    pub dribble: bool,
}

fn fault(class: &str, bytes: Vec<u8>) -> Fault {
    Fault {
        class: class.to_string(),
        bytes,
        end: End::Fin,
        malformed: false,
        no_2xx_after: None,
        skip_grammar: false,
        head_flags: vec![],
        dribble: false,
    }
}

pub fn templates() -> Vec<(&'static str, Vec<u8>, usize)> {
    // (name, bytes, number of complete requests in it)
    let json_body = br#"{"s":"x","u":1,"i":-1,"f":1.5,"b":true,"e":"red","v":[],"m":{},"nested":{"a":"q","n":3},"uid":0}"#;
    let get = Req::new("GET", "/health").header("x-vmon-uid", "0").encode();
    let post = Req::new("POST", "/json").header("content-type", "application/json").body(json_body).encode();
    let chunked = Req::new("POST", "/raw").header("content-type", "application/octet-stream").body(&[b'z'; 120]).chunked(vec![50]).encode();
    let stream = Req::new("POST", "/stream").body(&[b'y'; 300]).encode();
    let mut pair = Req::new("GET", "/q?s=a&u=1&i=1&f=1&b=true&e=red&uid=0").encode();
    pair.extend(Req::new("PUT", "/p/a/b").encode());
    let upgrade = Req::new("GET", "/health")
        .header("connection", "Upgrade")
        .header("upgrade", "websocket")
        .header("sec-websocket-version", "13")
        .header("sec-websocket-key", "dGhlIHNhbXBsZSBub25jZQ==")
        .encode();
    let multi = Req::new("POST", "/multi")
        .header("content-type", "multipart/form-data; boundary=XX")
        .body(b"--XX\r\nContent-Disposition: form-data; name=\"a\"\r\n\r\nhello\r\n--XX--")
        .encode();
    vec![
        ("get", get, 1),
        ("post-json", post, 1),
        ("post-chunked", chunked, 1),
        ("post-stream", stream, 1),
        ("pipelined-pair", pair, 2),
        ("upgrade", upgrade, 1),
        ("post-multipart", multi, 1),
    ]
}

/// exhaustive truncation faults for the first `n` templates
pub fn truncation_faults(n: usize) -> Vec<Fault> {
    let mut out = vec![];
    for (name, bytes, _) in templates().into_iter().take(n) {
        for cut in 0..bytes.len() {
            for end in [End::Fin, End::Rst, End::Hold] {
                // Hold only on a sparse subset (it costs wall time)
                if end == End::Hold && cut % 23 != 0 {
                    continue;
                }
                let mut f = fault(&format!("truncate|{name}|{:?}", end), bytes[..cut].to_vec());
                f.end = end;
                // which request is cut?  (only the pair has two)
                let first_len = if name == "pipelined-pair" {
                    find(&bytes, b"PUT ").unwrap_or(bytes.len())
                } else {
                    bytes.len()
                };
                f.no_2xx_after = Some(if cut >= first_len { 1 } else { 0 });
                out.push(f);
            }
        }
    }
    out
}

pub fn random_fault(rng: &mut Rng) -> Fault {
    let tpls = templates();
    let pick_tpl = |rng: &mut Rng| {
        let t = rng.pick(&tpls);
        (t.0, t.1.clone(), t.2)
    };
    match rng.below(23) {
        22 => {
            // a Content-Type that is not text at all cannot name the endpoint's media type
            let ct: &[u8] = *rng.pick(&[&b"\xff\xfe"[..], b"application/json\xff", b"text/pl\xe4in", b"application/x-www-form-urlencoded\xc3\x28"]);
            let body = br#"{"s":"x","u":1,"i":-1,"f":1.5,"b":true,"e":"red","v":[],"m":{},"nested":{"a":"q","n":3},"uid":0}"#;
            let mut b = b"POST /json HTTP/1.1\r\nhost: a\r\ncontent-type: ".to_vec();
            b.extend_from_slice(ct);
            b.extend_from_slice(format!("\r\ncontent-length: {}\r\n\r\n", body.len()).as_bytes());
            b.extend_from_slice(body);
            let mut f = fault("non-text-content-type", b);
            f.malformed = true;
            f
        }
        0 => {
            let n = 1 + rng.usize(2000);
            fault("random-bytes", rng.bytes(n))
        }
        1 => {
            // printable garbage line(s)
            let n = 1 + rng.usize(300);
            let mut b: Vec<u8> = (0..n).map(|_| 0x20 + (rng.next() % 0x5f) as u8).collect();
            b.extend_from_slice(b"\r\n\r\n");
            let mut f = fault("garbage-line", b);
            f.malformed = true;
            f
        }
        2 => {
            let (name, mut b, _) = pick_tpl(rng);
            let flips = 1 + rng.usize(3);
            for _ in 0..flips {
                let i = rng.usize(b.len());
                b[i] ^= 1 << rng.below(8);
            }
            fault(&format!("bitflip|{name}"), b)
        }
        3 => {
            let bad: &[u8] = *rng.pick(&[&b"x y: 1"[..], b"x\x00y: 1", b"x(y): 1", b": novalue", b"x\x7f: 1", b"na\xc3\xafve: 1"]);
            let mut b = b"GET /health HTTP/1.1\r\nhost: a\r\n".to_vec();
            b.extend_from_slice(bad);
            b.extend_from_slice(b"\r\n\r\n");
            let mut f = fault("illegal-header-name", b);
            f.malformed = true;
            f
        }
        4 => {
            let bad: &[u8] = *rng.pick(&[&b"x: a\x00b"[..], b"x: a\rb", b"x: a\x01b", b"x: a\nb: c d e\x00"]);
            let mut b = b"GET /health HTTP/1.1\r\nhost: a\r\n".to_vec();
            b.extend_from_slice(bad);
            b.extend_from_slice(b"\r\n\r\n");
            let mut f = fault("illegal-header-value-byte", b);
            f.malformed = true;
            f
        }
        5 => {
            let n = *rng.pick(&[9_000usize, 70_000, 500_000, 1_100_000]);
            let mut b = b"GET /".to_vec();
            b.extend(std::iter::repeat(b'a').take(n));
            b.extend_from_slice(b" HTTP/1.1\r\nhost: a\r\n\r\n");
            // oversized, not malformed: only liveness and response validity are judged
            fault(&format!("long-request-line|{n}"), b)
        }
        6 => {
            let n = *rng.pick(&[9_000usize, 70_000, 500_000, 1_100_000]);
            let mut b = b"GET /health HTTP/1.1\r\nhost: a\r\nx-long: ".to_vec();
            b.extend(std::iter::repeat(b'v').take(n));
            b.extend_from_slice(b"\r\n\r\n");
            fault(&format!("long-header|{n}"), b)
        }
        7 => {
            let n = *rng.pick(&[90usize, 101, 150, 1000]);
            let mut b = b"GET /health HTTP/1.1\r\nhost: a\r\n".to_vec();
            for i in 0..n {
                b.extend_from_slice(format!("x-h{i}: {i}\r\n").as_bytes());
            }
            b.extend_from_slice(b"\r\n");
            fault(&format!("many-headers|{n}"), b)
        }
        8 => {
            let cl: &[u8] = *rng.pick(&[&b"-1"[..], b"18446744073709551616", b"99999999999999999999999", b"1e3", b"0x10", b"+5", b"5 5", b""]);
            let mut b = b"POST /raw HTTP/1.1\r\nhost: a\r\ncontent-length: ".to_vec();
            b.extend_from_slice(cl);
            b.extend_from_slice(b"\r\n\r\nhello");
            let mut f = fault("bad-content-length", b);
            f.malformed = true;
            f
        }
        9 => {
            let b = b"POST /raw HTTP/1.1\r\nhost: a\r\ncontent-length: 5\r\ncontent-length: 6\r\n\r\nhello!".to_vec();
            let mut f = fault("conflicting-content-lengths", b);
            f.malformed = true;
            f
        }
        10 => {
            let b = b"POST /raw HTTP/1.1\r\nhost: a\r\ncontent-length: 5\r\ntransfer-encoding: chunked\r\n\r\n5\r\nhello\r\n0\r\n\r\n".to_vec();
            fault("content-length-and-transfer-encoding", b)
        }
        11 => {
            // (size line, syntactically malformed?)  an overflowing size is oversized, not malformed
            let (sz, bad): (&[u8], bool) = *rng.pick(&[(&b"zz"[..], true), (b"-5", true), (b"FFFFFFFFFFFFFFFFF", false), (b"", true), (b"0x5", true), (b"5g", true)]);
            let mut b = b"POST /raw HTTP/1.1\r\nhost: a\r\ntransfer-encoding: chunked\r\n\r\n".to_vec();
            b.extend_from_slice(sz);
            b.extend_from_slice(b"\r\nhello\r\n0\r\n\r\n");
            let mut f = fault("bad-chunk-size", b);
            f.malformed = bad;
            f
        }
        12 => {
            let b = b"POST /raw HTTP/1.1\r\nhost: a\r\ntransfer-encoding: chunked\r\n\r\n5\r\nhelloXX0\r\n\r\n".to_vec();
            let mut f = fault("chunk-data-not-followed-by-crlf", b);
            f.malformed = true;
            f
        }
        13 => {
            // body longer than announced: the surplus is parsed as a next request
            let b = b"POST /raw HTTP/1.1\r\nhost: a\r\ncontent-length: 3\r\n\r\nhello there".to_vec();
            fault("body-longer-than-announced", b)
        }
        14 => {
            let b = b"GET /health HTTP/1.0\r\n\r\n".to_vec();
            fault("http-1.0", b)
        }
        15 => {
            let v: &[u8] = *rng.pick(&[&b"HTTP/3.7"[..], b"HTTP/1.2", b"HTTP/11", b"HTTX/1.1", b"http/1.1", b""]);
            let mut b = b"GET /health ".to_vec();
            b.extend_from_slice(v);
            b.extend_from_slice(b"\r\nhost: a\r\n\r\n");
            let mut f = fault("unknown-http-version", b);
            // HTTP/1.2 is a legal minor version a server may treat as 1.1
            f.malformed = v != b"HTTP/1.2";
            f
        }
        16 => {
            let mut b = b"PRI * HTTP/2.0\r\n\r\nSM\r\n\r\n".to_vec();
            let n = rng.usize(200);
            b.extend(rng.bytes(n));
            let mut f = fault("h2-preface-then-garbage", b);
            f.skip_grammar = true;
            f
        }
        17 => {
            let mut b = vec![0x16, 0x03, 0x01, 0x02, 0x00, 0x01, 0x00, 0x01, 0xfc, 0x03, 0x03];
            let n = 100 + rng.usize(400);
            b.extend(rng.bytes(n));
            let mut f = fault("tls-client-hello-on-plain-port", b);
            f.malformed = true;
            f
        }
        18 => {
            let (name, b, _) = pick_tpl(rng);
            let mut f = fault(&format!("slow-loris|{name}"), b);
            f.dribble = true;
            f.end = End::Hold;
            f
        }
        19 => {
            let mut f = fault("panicking-handler", Req::new("GET", "/boom").uid(next_uid()).encode());
            f.end = End::Hold;
            f
        }
        20 => {
            let t: &[u8] = *rng.pick(&[&b"http://[::1/health"[..], b"//", b"*", b"/a b", b"/\xff\xfe", b"/%", b"/%zz", b"/a?b#c", b"\\", b"/a\tb"]);
            let mut b = b"GET ".to_vec();
            b.extend_from_slice(t);
            b.extend_from_slice(b" HTTP/1.1\r\nhost: a\r\n\r\n");
            fault("odd-request-target", b)
        }
        _ => {
            // several requests glued together, one of them broken
            let (_, a, _) = pick_tpl(rng);
            let mut b = a;
            b.extend_from_slice(b"BROKEN\r\n\r\n");
            fault("valid-then-garbage", b)
        }
    }
}

struct Shared {
    addr: SocketAddr,
    stop: AtomicBool,
    health_ok: AtomicU64,
}

fn health_check(addr: SocketAddr, conn: &mut Option<Conn>, fresh: bool) -> Result<(), String> {
    if fresh || conn.is_none() {
        *conn = Some(Conn::connect(addr).map_err(|e| format!("connect: {e}"))?);
    }
    let uid = next_uid();
    let req = Req::new("GET", "/health").uid(uid).encode();
    for attempt in 0..2 {
        let c = conn.as_mut().unwrap();
        c.timeout = Duration::from_secs(20);
        let r = c.send(&req).map_err(|e| e.to_string()).and_then(|_| c.read_response(false).map_err(|e| format!("{e:?}")));
        match r {
            Ok(resp) => {
                let ok = resp.status == 200
                    && resp.json().map(|j| j["meta"]["uid"].as_u64() == Some(uid) && j["meta"]["op"] == "health").unwrap_or(false);
                if resp.wants_close() {
                    *conn = None;
                }
                return if ok { Ok(()) } else { Err(format!("health answered {} {:?}", resp.status, String::from_utf8_lossy(&resp.body))) };
            }
            Err(e) if attempt == 0 && !fresh => {
                // a server may close an idle keep-alive connection: retry once on a new one
                let _ = e;
                *conn = Some(Conn::connect(addr).map_err(|e| format!("reconnect: {e}"))?);
            }
            Err(e) => return Err(e.chars().take(200).collect()),
        }
    }
    Err("unreachable".into())
}

pub fn health_check_fresh(addr: SocketAddr) -> Result<(), String> {
    let mut c = None;
    health_check(addr, &mut c, true)
}

pub struct Work {
    pub truncation_templates: usize,
    pub random_faults: usize,
    pub threads: usize,
}

pub fn run(seed: u64, w: &Work) -> Report {
    let mut rep = Report::new(
        "C18",
        "E2-hostile-traffic",
        "fault enumeration against real servers (both task modes): every truncation offset of valid request templates (GET, POST \
         content-length, POST chunked, streaming POST, pipelined pair, upgrade, multipart) followed by FIN / RST / hold; random bytes; bit \
         flips; illegal header names and value bytes; very long request line / header; >100 headers; bad / conflicting / overflowing \
         content-length; bad chunk sizes; body longer than announced; HTTP/1.0; unknown versions; h2 preface + garbage; TLS ClientHello; \
         slow-loris; panicking handler; odd request targets; interleaved with valid traffic on two dedicated keep-alive connections and a \
         fresh-connection health probe after every batch.  Oracle: everything received on a faulty connection parses as complete HTTP/1.1 \
         responses under a strict grammar; malformed-by-construction => every status >= 400; a cut request is never answered 2xx; health \
         probes answered 200 with the right uid; the server future has not terminated; no unexpected panic.  class = fault class x end x mode",
    );
    let mut rng0 = Rng::derive(seed, "c18", 0, 0);
    for mode in [HandlerTaskMode::Detached, HandlerTaskMode::CancelOnDisconnect] {
        let log = EvLog::new();
        let ctx = Ctx::new(log.clone());
        let cfg = SrvCfg { mode, body_max: 4096, versioned: None, workers: 4 };
        let mut srv = match start(echo_api(&[]), ctx, &cfg) {
            Ok(s) => s,
            Err(e) => {
                rep.inconclusive(&format!("server start: {e}"));
                continue;
            }
        };
        let mode_tag = if matches!(mode, HandlerTaskMode::Detached) { "det" } else { "cod" };
        let mut faults = truncation_faults(w.truncation_templates);
        for i in 0..w.random_faults {
            let mut r = Rng::derive(seed, "c18-fault", if mode_tag == "det" { 0 } else { 1 }, i as u64);
            let mut f = random_fault(&mut r);
            if f.end == End::Fin && !f.dribble {
                f.end = *r.pick(&[End::Fin, End::Fin, End::Hold, End::Rst]);
            }
            faults.push(f);
        }
        rng0.shuffle(&mut faults);
        drive(&mut rep, srv.addr, faults, w.threads, mode_tag, seed);
        h2_faults(&mut rep, srv.addr, if w.random_faults > 5000 { 120 } else { 24 }, seed, mode_tag, 4096);
        // the server future must still be pending
        if let (Some(rt), Some(server)) = (srv.rt.as_ref(), srv.server.as_ref()) {
            // (no timer of the server's runtime involved: it may be wedged)
            let wait = server.wait_for_shutdown();
            let finished = Arc::new(AtomicBool::new(false));
            let f2 = finished.clone();
            rt.spawn(async move {
                let _ = wait.await;
                f2.store(true, Ordering::SeqCst);
            });
            std::thread::sleep(Duration::from_millis(50));
            if finished.load(Ordering::SeqCst) {
                rep.violate("C18:server-future-terminated", json!({"mode": mode_tag}));
            }
        }
        let mut c = None;
        if let Err(e) = health_check(srv.addr, &mut c, true) {
            rep.violate("C18:server-not-answering-after-faults", json!({"error": e, "mode": mode_tag, "when": "end of run"}));
        }
        let panics = log.count_kind("H_PANIC");
        rep.count("deliberate_handler_panics", panics as u64);
        rep.count("handler_entries", log.count_kind("H_ENTER") as u64);
        match srv.close() {
            Some(Err(e)) if e.contains(crate::srv::CLOSE_HUNG) => {
                // every client of this run has disconnected and no handler waits for anything
                rep.violate("C18:server-wedged:close-did-not-return", json!({"mode": mode_tag, "close_result": e,
                    "what": "after the fault workload, with every connection closed, graceful shutdown did not finish: some request task never ended"}));
            }
            Some(Err(e)) => rep.violate("C18:server-task-died", json!({"mode": mode_tag, "close_result": e})),
            _ => {}
        }
    }
    rep
}

/// The fault workload against the server at `addr`: `threads` client threads work
/// through `faults`, two dedicated keep-alive connections carry health probes the
/// whole time, and a fresh-connection health probe follows every 25 faults.
pub fn drive(rep: &mut Report, addr: SocketAddr, faults: Vec<Fault>, threads: usize, mode_tag: &'static str, seed: u64) {
        let total = faults.len();
        let queue = Arc::new(Mutex::new(faults));
        let shared = Arc::new(Shared { addr, stop: AtomicBool::new(false), health_ok: AtomicU64::new(0) });
        // dedicated health connections
        let health_threads: Vec<_> = (0..2)
            .map(|hi| {
                let sh = shared.clone();
                std::thread::spawn(move || {
                    let mut rep = Report::new("C18", "E2-hostile-traffic", "");
                    let mut conn: Option<Conn> = None;
                    while !sh.stop.load(Ordering::Relaxed) {
                        match health_check(sh.addr, &mut conn, false) {
                            Ok(()) => {
                                sh.health_ok.fetch_add(1, Ordering::Relaxed);
                            }
                            Err(e) => {
                                rep.violate(
                                    "C18:well-formed-request-on-other-connection-not-served",
                                    json!({"health_connection": hi, "error": e, "mode": mode_tag}),
                                );
                                conn = None;
                                std::thread::sleep(Duration::from_millis(200));
                            }
                        }
                        std::thread::sleep(Duration::from_millis(2));
                    }
                    rep
                })
            })
            .collect();
        let workers: Vec<_> = (0..threads)
            .map(|t| {
                let q = queue.clone();
                let sh = shared.clone();
                std::thread::spawn(move || {
                    let mut rep = Report::new("C18", "E2-hostile-traffic", "");
                    let mut n = 0usize;
                    loop {
                        let Some(f) = q.lock().unwrap().pop() else { break };
                        n += 1;
                        run_fault(&mut rep, sh.addr, &f, mode_tag, seed);
                        if n % 25 == 0 {
                            let mut c = None;
                            if let Err(e) = health_check(sh.addr, &mut c, true) {
                                rep.violate(
                                    "C18:server-not-answering-after-faults",
                                    json!({"error": e, "after_fault": {"class": f.class, "bytes": String::from_utf8_lossy(&f.bytes).chars().take(300).collect::<String>()},
                                           "thread": t, "mode": mode_tag}),
                                );
                            } else {
                                rep.count("fresh_connection_health_probes_ok", 1);
                            }
                        }
                    }
                    rep
                })
            })
            .collect();
        for h in workers {
            rep.merge(h.join().expect("fault thread"));
        }
        shared.stop.store(true, Ordering::Relaxed);
        for h in health_threads {
            rep.merge(h.join().expect("health thread"));
        }
        rep.count("faulty_connections", total as u64);
        rep.count("health_probes_on_dedicated_connections_ok", shared.health_ok.load(Ordering::Relaxed));
}

/// Requests that announce a body size no server could buffer (Content-Length from
/// 2^31 up to 2^64-1 and beyond, or a huge chunk size) and then send little or
/// nothing: whatever the endpoint's extractor does with the announcement, the
/// server must stay up and must not answer 2xx.
pub fn announced_size_faults(rng: &mut Rng, n: usize) -> Vec<Fault> {
    let sizes: &[&str] = &[
        "2147483647", "2147483648", "4294967295", "4294967296", "1099511627776", "140737488355328", "1152921504606846976",
        "4611686018427387904", "9223372036854775807", "9223372036854775808", "18446744073709551615",
    ];
    let eps: &[(&str, &str)] = &[
        ("/json", "application/json"),
        ("/form", "application/x-www-form-urlencoded"),
        ("/raw", "application/octet-stream"),
        ("/stream", "application/octet-stream"),
        ("/multi", "multipart/form-data; boundary=XyZ"),
    ];
    let mut out = vec![];
    for i in 0..n {
        let size = sizes[i % sizes.len()];
        let (path, ct) = eps[(i / sizes.len()) % eps.len()];
        let chunked = rng.chance(1, 5);
        let mut b = format!("POST {path} HTTP/1.1\r\nhost: a\r\ncontent-type: {ct}\r\nx-vmon-uid: 0\r\n").into_bytes();
        if chunked {
            let hex = format!("{:x}", size.parse::<u128>().unwrap_or(u128::MAX).min(u64::MAX as u128));
            b.extend_from_slice(format!("transfer-encoding: chunked\r\n\r\n{hex}\r\n").as_bytes());
        } else {
            b.extend_from_slice(format!("content-length: {size}\r\n\r\n").as_bytes());
        }
        let k = match rng.below(3) {
            0 => 0,
            1 => 1 + rng.usize(64),
            _ => 5000 + rng.usize(4000),
        };
        b.extend(std::iter::repeat(b'{').take(k));
        let mut f = fault(&format!("announced-size|{}{}|{}", if chunked { "chunk-" } else { "" }, size.len(), path), b);
        f.no_2xx_after = Some(0);
        f.end = *rng.pick(&[End::Fin, End::Hold, End::Rst]);
        out.push(f);
    }
    out
}

/// HTTP/2 faults, driven with the h2 crate's client so that single frames can be
/// placed: request bodies larger than the endpoint's limit whose stream is reset
/// (RST_STREAM with various reasons) or whose connection is dropped while the
/// server is still draining them; bodies cut short before END_STREAM; headers
/// without any body frame.  Only liveness is judged: after every group a fresh
/// HTTP/1.1 health probe must be answered.
pub fn h2_faults(rep: &mut Report, addr: SocketAddr, n: usize, seed: u64, mode_tag: &str, limit: usize) {
    let rt = match tokio::runtime::Builder::new_multi_thread().worker_threads(2).enable_all().build() {
        Ok(r) => r,
        Err(e) => {
            rep.inconclusive(&format!("h2 fault client runtime: {e}"));
            return;
        }
    };
    let mut sent = 0u64;
    for i in 0..n {
        let mut rng = Rng::derive(seed, "c18-h2", if mode_tag == "det" { 0 } else { 1 }, i as u64);
        let path = *rng.pick(&["/raw", "/json", "/stream", "/form"]);
        let over = rng.chance(3, 4);
        let total = if over { limit + 1 + rng.usize(3 * limit) } else { 1 + rng.usize(limit.max(2) - 1) };
        let how = *rng.pick(&["rst-internal", "rst-protocol", "rst-cancel", "rst-no-error", "drop-connection", "end-stream-short-of-content-length"]);
        let streams = if rng.chance(1, 4) { 2 + rng.usize(6) } else { 1 };
        let pause = Duration::from_millis(rng.below(60));
        let class = format!("h2|{}|{how}|streams{}|{path}|{mode_tag}", if over { "over-limit" } else { "under-limit" }, streams.min(3));
        let r: Result<(), String> = rt.block_on(async {
            let tcp = tokio::time::timeout(Duration::from_secs(10), tokio::net::TcpStream::connect(addr))
                .await
                .map_err(|_| "connect timeout".to_string())?
                .map_err(|e| format!("connect: {e}"))?;
            let (client, conn) = tokio::time::timeout(Duration::from_secs(10), h2::client::handshake(tcp))
                .await
                .map_err(|_| "h2 handshake timeout".to_string())?
                .map_err(|e| format!("h2 handshake: {e}"))?;
            let conn_task = tokio::spawn(async move {
                let _ = conn.await;
            });
            let mut client = match tokio::time::timeout(Duration::from_secs(10), client.ready()).await {
                Ok(Ok(c)) => c,
                _ => return Err("h2 client not ready".into()),
            };
            let mut open = vec![];
            for _ in 0..streams {
                let mut b = http::Request::builder()
                    .method("POST")
                    .uri(format!("http://{addr}{path}"))
                    .header("content-type", "application/octet-stream")
                    .header("x-vmon-uid", "0");
                if how == "end-stream-short-of-content-length" {
                    b = b.header("content-length", (total + 100).to_string());
                }
                let req = b.body(()).map_err(|e| e.to_string())?;
                let (resp, mut send) = client.send_request(req, false).map_err(|e| format!("send_request: {e}"))?;
                // within the initial flow-control window, so everything goes out at once
                let data = bytes::Bytes::from(vec![b'z'; total.min(60_000)]);
                let _ = send.send_data(data, how == "end-stream-short-of-content-length");
                open.push((resp, send));
            }
            // let the server read (and, over the limit, start draining) before the fault
            tokio::time::sleep(pause).await;
            for (_, send) in open.iter_mut() {
                match how {
                    "rst-internal" => send.send_reset(h2::Reason::INTERNAL_ERROR),
                    "rst-protocol" => send.send_reset(h2::Reason::PROTOCOL_ERROR),
                    "rst-cancel" => send.send_reset(h2::Reason::CANCEL),
                    "rst-no-error" => send.send_reset(h2::Reason::NO_ERROR),
                    _ => {}
                }
            }
            // give the frames time to leave, then drop everything (closes the connection)
            tokio::time::sleep(Duration::from_millis(20)).await;
            for (resp, _) in open {
                let _ = tokio::time::timeout(Duration::from_millis(30), resp).await;
            }
            drop(client);
            conn_task.abort();
            Ok(())
        });
        match r {
            Ok(()) => {
                rep.eval(class);
                sent += 1;
            }
            Err(e) => rep.inconclusive(&format!("h2 fault client: {}", e.chars().take(60).collect::<String>())),
        }
        if i % 6 == 5 || i + 1 == n {
            let mut c = None;
            match health_check(addr, &mut c, true) {
                Ok(()) => rep.count("fresh_connection_health_probes_ok", 1),
                Err(e) => {
                    // bounded progress: a second, patient probe decides
                    std::thread::sleep(Duration::from_secs(2));
                    let mut c = None;
                    if let Err(e2) = health_check(addr, &mut c, true) {
                        rep.violate(
                            "C18:server-not-answering-after-faults",
                            json!({"error": e, "second_probe": e2, "after_fault": {"class": "h2 stream faults", "index": i}, "mode": mode_tag}),
                        );
                        return;
                    }
                }
            }
        }
    }
    rep.count("h2_faulty_connections", sent);
}

fn run_fault(rep: &mut Report, addr: SocketAddr, f: &Fault, mode_tag: &str, seed: u64) {
    let mut c = match Conn::connect(addr) {
        Ok(c) => c,
        Err(e) => {
            rep.inconclusive(&format!("connect: {}", e.kind()));
            return;
        }
    };
    c.timeout = Duration::from_secs(10);
    let class = format!("{}|{:?}|{mode_tag}", f.class.split('|').take(2).collect::<Vec<_>>().join("|"), f.end);
    let sent = if f.dribble {
        let n = f.bytes.len();
        let cuts: Vec<usize> = (1..12).map(|i| i * n / 12).collect();
        c.send_split(&f.bytes, &cuts, Duration::from_millis(40))
    } else {
        c.send(&f.bytes)
    };
    // a send error means the server already closed / reset: still read what it sent
    let _ = sent;
    if f.end == End::Rst {
        c.rst();
        rep.eval(class);
        return;
    }
    if f.end == End::Fin {
        c.shutdown_write();
    }
    let wait = match f.end {
        End::Hold => Duration::from_millis(if f.dribble || f.class.starts_with("panicking") { 1500 } else { 150 }),
        _ => Duration::from_secs(8),
    };
    let (bytes, how) = c.read_to_eof(wait);
    drop(c);
    rep.eval(class);
    let wit = |extra: Value| {
        json!({"seed": seed, "mode": mode_tag, "fault": f.class, "end": format!("{:?}", f.end),
               "sent": String::from_utf8_lossy(&f.bytes[..f.bytes.len().min(400)]), "sent_len": f.bytes.len(),
               "received": String::from_utf8_lossy(&bytes[..bytes.len().min(600)]), "received_len": bytes.len(),
               "read_ended": how, "detail": extra})
    };
    if f.end == End::Fin && how == "timeout" {
        // we half-closed and the server neither answered completely nor closed within 8 s
        rep.inconclusive("server kept a half-closed faulty connection open past the read watchdog");
    }
    if f.skip_grammar || bytes.is_empty() {
        return;
    }
    match parse_all_responses(&bytes, &f.head_flags) {
        Ok(resps) => {
            rep.count("responses_parsed_on_faulty_connections", resps.len() as u64);
            for (i, r) in resps.iter().enumerate() {
                if f.malformed && r.status < 400 {
                    rep.violate(
                        format!("C18:malformed-request-answered-{}xx:{}", r.status / 100, f.class.split('|').next().unwrap_or("")),
                        wit(json!({"status": r.status, "response_index": i})),
                    );
                }
                if let Some(k) = f.no_2xx_after {
                    if i >= k && (200..300).contains(&r.status) {
                        rep.violate(
                            format!("C18:incomplete-request-answered-2xx:{}", f.class.split('|').nth(1).unwrap_or("")),
                            wit(json!({"status": r.status, "response_index": i})),
                        );
                    }
                }
            }
            if rep.want_sample() && !resps.is_empty() {
                rep.sample(wit(json!({"statuses": resps.iter().map(|r| r.status).collect::<Vec<_>>()})));
            }
        }
        Err(e) => {
            // a response cut short because the *server* closed is invalid; if our own
            // hold timer ended the read the tail may simply not have arrived yet
            if how == "timeout" {
                rep.inconclusive("response still incomplete when the hold timer ended");
            } else {
                rep.violate(
                    format!("C18:invalid-http-response:{}", f.class.split('|').next().unwrap_or("")),
                    wit(json!({"parse_error": e.chars().take(300).collect::<String>()})),
                );
            }
        }
    }
}
