//! C05 in process: range membership and conflict ⇔ shared version, exhaustive
//! over the version universe U, plus random versions and tagged exotic classes.

use crate::gen::*;
use crate::model::*;
use crate::report::Report;
use crate::rng::Rng;
use crate::router_engine::{build_api, Real, RouterBox};
use serde_json::json;

fn ep(op: &str, range: MRange) -> MEndpoint {
    MEndpoint {
        opid: op.into(),
        method: "GET".into(),
        segs: vec![TSeg::Lit("p".into())],
        trailing_slash: false,
        range,
        visible: true,
    }
}

pub fn all_ranges(u: &[MVer]) -> Vec<MRange> {
    let mut rs = vec![MRange::All];
    for a in u {
        rs.push(MRange::From(a.clone()));
        rs.push(MRange::Until(a.clone()));
    }
    for (i, a) in u.iter().enumerate() {
        for b in &u[i..] {
            rs.push(MRange::FromUntil(a.clone(), b.clone()));
        }
    }
    rs
}

fn rel(v: &MVer, r: &MRange) -> String {
    // position of v relative to the bounds of r
    let b = r.bounds();
    let mut s = String::new();
    for x in b {
        s.push(match v.prec(&x) {
            std::cmp::Ordering::Less => '<',
            std::cmp::Ordering::Equal => '=',
            std::cmp::Ordering::Greater => '>',
        });
    }
    s
}

fn class_tag(r: &MRange) -> &'static str {
    if !r.nonempty() {
        "empty-range"
    } else if r.has_build() {
        "build-metadata"
    } else {
        ""
    }
}

/// membership of `v` in `r` as the real code sees it, via routing and via the
/// OpenAPI document for version v
fn check_membership(rep: &mut Report, r: &MRange, probes: &[MVer], ctx: &serde_json::Value) {
    let table = vec![ep("only", r.clone())];
    let api = match build_api(&table, &[0]) {
        Ok(a) => a,
        Err((_, msg)) => {
            // a lone endpoint conflicts with nothing
            let sig = match class_tag(r) {
                "" => "C05:lone-endpoint-refused".to_string(),
                t => format!("C05:{t}:lone-endpoint-refused"),
            };
            rep.violate(sig, json!({"range": r.show(), "message": msg, "ctx": ctx}));
            return;
        }
    };
    // document side first (needs &api), then consume into the router
    let mut in_doc = vec![];
    for v in probes {
        let doc = api.openapi("t", v.real()).json();
        let present = match &doc {
            Ok(d) => d["paths"].get("/p").and_then(|p| p.get("get")).is_some(),
            Err(_) => false,
        };
        in_doc.push(present);
    }
    let router = RouterBox::new(api);
    for (v, present) in probes.iter().zip(in_doc) {
        let want = r.contains(v);
        let real = router.lookup(&http::Method::GET, "/p", Some(&v.real()));
        let got = match &real {
            Real::Hit(op, _) if op == "only" => true,
            Real::Status(404, _) => false,
            _ => {
                rep.violate(
                    "C05:membership-probe-unexpected-outcome",
                    json!({"range": r.show(), "version": v.text, "real": format!("{real:?}")}),
                );
                continue;
            }
        };
        let tagged = if !r.nonempty() { "empty-range" } else if v.has_build() { "build-metadata" } else { class_tag(r) };
        rep.eval(format!("member|{}|{}|{}{}", r.kind(), rel(v, r), want, if tagged.is_empty() { String::new() } else { format!("|{tagged}") }));
        if got != want {
            let what = if want { "member-not-served" } else { "non-member-served" };
            let sig = if tagged.is_empty() {
                format!("C05:{}:{}:v{}bound", r.kind(), what, rel(v, r))
            } else {
                format!("C05:{tagged}:{}", what)
            };
            rep.violate(sig, json!({"range": r.show(), "version": v.text, "model_contains": want,
                                    "routed": got, "real": format!("{real:?}"), "ctx": ctx}));
        }
        if present != got {
            rep.violate(
                format!("C05:{}:document-and-routing-disagree", r.kind()),
                json!({"range": r.show(), "version": v.text, "in_document": present, "routed": got}),
            );
        }
        if rep.want_sample() && want {
            rep.sample(json!({"kind": "membership", "range": r.show(), "version": v.text, "served": got, "in_document": present}));
        }
    }
}

/// conflict(r1 then r2) as the real code sees it
fn real_conflict(r1: &MRange, r2: &MRange) -> Result<bool, String> {
    real_conflict_shaped(r1, r2, 0)
}

/// shape 0: both at /p; 1: the first at /p, the second at /p/{w:.*}; 2: the other way
/// round (a request for exactly /p matches the wildcard with an empty remainder, so for
/// that request the two are "the same method and path")
fn real_conflict_shaped(r1: &MRange, r2: &MRange, shape: u8) -> Result<bool, String> {
    let wild = |mut e: MEndpoint| {
        e.segs.push(TSeg::Wild("w".into()));
        e.visible = false;
        e
    };
    let (a, b) = (ep("first", r1.clone()), ep("second", r2.clone()));
    let table = match shape {
        1 => vec![a, wild(b)],
        2 => vec![wild(a), b],
        _ => vec![a, b],
    };
    match build_api(&table, &[0, 1]) {
        Ok(_) => Ok(false),
        Err((1, _)) => Ok(true),
        Err((i, m)) => Err(format!("endpoint {i} refused: {m}")),
    }
}

fn check_conflict(rep: &mut Report, r1: &MRange, r2: &MRange, ctx: &serde_json::Value) {
    let want = r1.intersects(r2);
    // the empty range (F4) takes precedence as a class tag, also when its bound
    // additionally carries build metadata
    let tagged = if !r1.nonempty() || !r2.nonempty() {
        "empty-range"
    } else if r1.has_build() || r2.has_build() {
        "build-metadata"
    } else {
        ""
    };
    let ab = real_conflict(r1, r2);
    let ba = real_conflict(r2, r1);
    let (ab, ba) = match (ab, ba) {
        (Ok(a), Ok(b)) => (a, b),
        (a, b) => {
            rep.violate(
                if tagged.is_empty() { "C05:first-of-pair-refused".to_string() } else { format!("C05:{tagged}:first-of-pair-refused") },
                json!({"r1": r1.show(), "r2": r2.show(), "ab": format!("{a:?}"), "ba": format!("{b:?}")}),
            );
            return;
        }
    };
    // relative order of the bounds, as a class
    let order = {
        let mut s = String::new();
        for x in r1.bounds() {
            for y in r2.bounds() {
                s.push(match x.prec(&y) {
                    std::cmp::Ordering::Less => '<',
                    std::cmp::Ordering::Equal => '=',
                    std::cmp::Ordering::Greater => '>',
                });
            }
        }
        s
    };
    rep.eval(format!("conflict|{}x{}|{order}|{want}{}", r1.kind(), r2.kind(), if tagged.is_empty() { String::new() } else { format!("|{tagged}") }));
    let pair = format!("{}x{}", r1.kind(), r2.kind());
    let pre = if tagged.is_empty() { "C05".to_string() } else { format!("C05:{tagged}") };
    let wit = json!({"first": r1.show(), "second": r2.show(), "model_shares_version": want,
                     "refused_first_then_second": ab, "refused_second_then_first": ba, "ctx": ctx});
    let pair = if tagged.is_empty() { format!(":{pair}") } else { String::new() };
    if ab != ba {
        rep.violate(format!("{pre}:conflict-depends-on-order{pair}"), wit.clone());
    }
    if ab != want {
        let what = if want { "overlap-not-detected" } else { "disjoint-ranges-refused" };
        rep.violate(format!("{pre}:{what}{pair}"), wit.clone());
    } else if ba != want {
        let what = if want { "overlap-not-detected" } else { "disjoint-ranges-refused" };
        let pair = if tagged.is_empty() { format!(":{}x{}", r2.kind(), r1.kind()) } else { String::new() };
        rep.violate(format!("{pre}:{what}{pair}"), wit.clone());
    }
    if rep.want_sample() && want && !r1.is_all() && !r2.is_all() {
        rep.sample(json!({"kind": "conflict", "first": r1.show(), "second": r2.show(), "refused": ab}));
    }
    // the same pair as a route and the wildcard route below it, whichever comes first
    if tagged.is_empty() {
        for (shape, what) in [(1u8, "route-then-wildcard-child"), (2u8, "wildcard-child-then-route")] {
            match real_conflict_shaped(r1, r2, shape) {
                Ok(got) => {
                    rep.eval(format!("conflict|{}x{}|{order}|{want}|{what}", r1.kind(), r2.kind()));
                    if got != want {
                        let w = if want { "overlap-not-detected" } else { "disjoint-ranges-refused" };
                        rep.violate(
                            format!("C05:{w}:{what}"),
                            json!({"first": r1.show(), "second": r2.show(), "model_shares_version": want, "refused": got, "registered": what, "ctx": ctx}),
                        );
                    }
                }
                Err(e) => rep.violate("C05:first-of-pair-refused", json!({"r1": r1.show(), "r2": r2.show(), "shape": what, "error": e})),
            }
        }
    }
}

/// exhaustive over U (sharded over the first range)
pub fn run_exhaustive(shard: u64, nshards: u64) -> Report {
    let mut rep = Report::new(
        "C05",
        "E1-ranges-exhaustive",
        "exhaustive over the ordered universe U of 14 versions (incl. pre-releases): every range of the 4 kinds \
         (134 ranges) x every probe version for membership (through lookup_route and through the OpenAPI document), \
         and every ordered pair of ranges registered on one method/path for conflict; class = (kind(s), relative order of \
         bounds / probe, verdict)",
    );
    rep.exhaustive = Some(true);
    let u = universe();
    let rs = all_ranges(&u);
    let ctx = json!({"engine": "exhaustive"});
    for (i, r1) in rs.iter().enumerate() {
        if i as u64 % nshards != shard {
            continue;
        }
        check_membership(&mut rep, r1, &u, &ctx);
        for r2 in &rs {
            check_conflict(&mut rep, r1, r2, &ctx);
        }
    }
    rep
}

/// random versions / ranges, incl. the tagged build-metadata and empty classes
pub fn run_random(seed: u64, shard: u64, cases: usize) -> Report {
    let mut rep = Report::new(
        "C05",
        "E1-ranges-random",
        "random versions (numeric parts incl. u64::MAX, 0-3 pre-release identifiers numeric/alphanumeric) and ranges; \
         membership at bounds/neighbours and pairwise conflict in both orders; build-metadata versions and the empty \
         range Until(0.0.0-0) only under explicit class tags",
    );
    let u = universe();
    for c in 0..cases {
        let mut rng = Rng::derive(seed, "c05-random", shard, c as u64);
        let ctx = json!({"seed": seed, "shard": shard, "case": c});
        let mut pool: Vec<MVer> = (0..4).map(|_| random_version(&mut rng)).collect();
        for _ in 0..2 {
            pool.push(rng.pick(&u).clone());
        }
        let mut r1 = gen_range(&mut rng, &pool);
        let mut r2 = gen_range(&mut rng, &pool);
        let exotic = rng.below(20);
        if exotic == 0 {
            // build metadata on one bound
            let b = MVer::v(&format!("{}+b{}", rng.pick(&pool).text, rng.below(3)));
            r1 = if rng.bool() { MRange::From(b) } else { MRange::Until(b) };
        } else if exotic == 1 {
            r1 = MRange::Until(MVer::min());
        }
        if rng.chance(1, 4) {
            std::mem::swap(&mut r1, &mut r2);
        }
        let mut probes = pool.clone();
        probes.extend(r1.bounds());
        probes.extend(r2.bounds());
        if exotic == 0 {
            let p = rng.pick(&pool).text.clone();
            probes.push(MVer::v(&format!("{p}+a")));
        }
        // every bound also with build metadata (same precedence, so same membership)
        for b in r1.bounds() {
            if !b.has_build() {
                probes.push(MVer::v(&format!("{}+meta.{}", b.text, rng.below(9))));
            }
        }
        check_membership(&mut rep, &r1, &probes, &ctx);
        check_conflict(&mut rep, &r1, &r2, &ctx);
    }
    rep
}
