//! Turning model endpoints into real dropshot endpoints whose handlers echo
//! what they were given (so that the real `Path<T>` derive / `from_map` code
//! runs and the monitor can see the result).

use crate::model::{MEndpoint, TSeg};
use crate::srv::C;
use dropshot::{
    ApiEndpoint, HttpError, HttpResponseOk, Path, RequestContext,
};
use http::Method;
use schemars::JsonSchema;
use serde::{Deserialize, Serialize};
use serde_json::{json, Value};

pub fn uid_of<X: dropshot::ServerContext>(rqctx: &RequestContext<X>) -> u64 {
    rqctx
        .request
        .headers()
        .get("x-vmon-uid")
        .and_then(|v| v.to_str().ok())
        .and_then(|s| s.parse().ok())
        .unwrap_or(0)
}

macro_rules! pty {
    ($name:ident { $($f:ident : $t:ty),* }) => {
        #[derive(Deserialize, Serialize, JsonSchema, Debug, Clone)]
        pub struct $name { $(pub $f: $t),* }
    };
}

pty!(Px { x: String });
pty!(Py { y: String });
pty!(Pz { z: String });
pty!(Pxy { x: String, y: String });
pty!(Pxz { x: String, z: String });
pty!(Pyz { y: String, z: String });
pty!(Pxyz { x: String, y: String, z: String });
pty!(Pw { w: Vec<String> });
pty!(Pwx { w: Vec<String>, x: String });
pty!(Pwy { w: Vec<String>, y: String });
pty!(Pwz { w: Vec<String>, z: String });
pty!(Pwxy { w: Vec<String>, x: String, y: String });
pty!(Pwxz { w: Vec<String>, x: String, z: String });
pty!(Pwyz { w: Vec<String>, y: String, z: String });
pty!(Pwxyz { w: Vec<String>, x: String, y: String, z: String });

fn echo_value(rqctx: &RequestContext<C>, vars: Value) -> Value {
    let uid = uid_of(rqctx);
    rqctx.context().log.push("H_ENTER", uid, 0, &rqctx.endpoint.operation_id);
    json!({
        "op": rqctx.endpoint.operation_id,
        "vars": vars,
        "method": rqctx.request.method().as_str(),
        "uri": rqctx.request.uri().to_string(),
        "uid": uid,
        "rqid": rqctx.request_id,
        "remote": rqctx.request.remote_addr().to_string(),
        "instance": rqctx.context().instance,
    })
}

pub async fn echo0(
    rqctx: RequestContext<C>,
) -> Result<HttpResponseOk<Value>, HttpError> {
    Ok(HttpResponseOk(echo_value(&rqctx, json!({}))))
}

pub async fn echo<T>(
    rqctx: RequestContext<C>,
    p: Path<T>,
) -> Result<HttpResponseOk<Value>, HttpError>
where
    T: Serialize
        + serde::de::DeserializeOwned
        + JsonSchema
        + Send
        + Sync
        + 'static,
{
    let vars = serde_json::to_value(p.into_inner()).unwrap();
    Ok(HttpResponseOk(echo_value(&rqctx, vars)))
}

pub fn method_of(m: &str) -> Method {
    Method::from_bytes(m.as_bytes()).unwrap()
}

/// key naming the handler's path-parameter struct: sorted variable names,
/// wildcard name first, e.g. "" / "x" / "wxz"
pub fn handler_key(ep: &MEndpoint) -> String {
    let mut names: Vec<String> = ep.var_names();
    names.sort();
    names.concat()
}

/// Build the real endpoint.  `hkey` selects the handler's Path struct (normally
/// `handler_key(ep)`; C02 passes other keys to provoke mismatches).
pub fn make_endpoint(ep: &MEndpoint, hkey: &str) -> Option<ApiEndpoint<C>> {
    let op = ep.opid.clone();
    let m = method_of(&ep.method);
    let ct = "application/json";
    let path = ep.template();
    let v = ep.range.real();
    macro_rules! mk {
        ($t:ty) => {
            ApiEndpoint::new(op, echo::<$t>, m, ct, &path, v)
        };
    }
    let e = match hkey {
        "" => ApiEndpoint::new(op, echo0, m, ct, &path, v),
        "x" => mk!(Px),
        "y" => mk!(Py),
        "z" => mk!(Pz),
        "xy" => mk!(Pxy),
        "xz" => mk!(Pxz),
        "yz" => mk!(Pyz),
        "xyz" => mk!(Pxyz),
        "w" => mk!(Pw),
        "wx" => mk!(Pwx),
        "wy" => mk!(Pwy),
        "wz" => mk!(Pwz),
        "wxy" => mk!(Pwxy),
        "wxz" => mk!(Pwxz),
        "wyz" => mk!(Pwyz),
        "wxyz" => mk!(Pwxyz),
        _ => return None,
    };
    Some(e.visible(ep.visible))
}

/// does the model template only use the variable names the struct family has
/// (x, y, z single; w wildcard)?
pub fn template_supported(ep: &MEndpoint) -> bool {
    ep.segs.iter().all(|s| match s {
        TSeg::Lit(_) => true,
        TSeg::Var(v) => matches!(v.as_str(), "x" | "y" | "z"),
        TSeg::Wild(v) => v == "w",
    })
}
