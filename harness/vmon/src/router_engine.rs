//! E1: in-process monitor for dispatch (C01), path normalisation (C03) and
//! 404/405/Allow (C04).  Random accepted route tables are registered with the
//! real `ApiDescription` in several orders; every probe's real outcome
//! (`lookup_route`) is compared with the reference model's.

use crate::api::{handler_key, make_endpoint, template_supported};
use crate::gen::*;
use crate::model::*;
use crate::panics::catch_quiet;
use crate::report::Report;
use crate::rng::Rng;
use crate::srv::C;
use dropshot::ApiDescription;
use serde_json::json;
use std::collections::BTreeMap;
use std::collections::BTreeSet;

#[derive(Clone, Debug)]
pub struct Work {
    pub tables: usize,
    pub probes: usize,
    pub perms: usize,
    /// add non-canonical method tokens ("get") — F2 class
    pub method_case: bool,
    /// dot-segment / spelling emphasis (C03)
    pub spelling_focus: bool,
    /// also generate tables with an exact route beside a wildcard child (W1)
    pub shadow_class: bool,
}

/// What the real router said, in model terms.
#[derive(Clone, Debug, PartialEq, Eq)]
pub enum Real {
    Hit(String, BTreeMap<String, Binding>),
    Status(u16, BTreeSet<String>),
    Panic(String),
    Unparsed(String),
}

// `HttpRouter<C>` cannot be named, but a helper generic over "whatever
// into_router returns" can still call its inherent methods if we go through a
// closure created where the concrete type is inferred.
pub struct RouterBox {
    lookup: Box<
        dyn Fn(&http::Method, &str, Option<&semver::Version>) -> Real
            + Send
            + Sync,
    >,
    endpoints: Box<
        dyn Fn(Option<&semver::Version>) -> Vec<(String, String, String)>
            + Send
            + Sync,
    >,
}

impl RouterBox {
    pub fn new(api: ApiDescription<C>) -> RouterBox {
        let router = std::sync::Arc::new(api.into_router());
        let r2 = router.clone();
        RouterBox {
            lookup: Box::new(move |m, p, v| {
                let r = catch_quiet(std::panic::AssertUnwindSafe(|| {
                    router.lookup_route(m, p.into(), v)
                }));
                match r {
                    Err(p) => Real::Panic(format!("{} @ {}", p.message, p.location)),
                    Ok(Ok(res)) => {
                        let dbg = format!("{:?}", res.endpoint.variables);
                        match parse_variables_debug(&dbg) {
                            Some(vars) => Real::Hit(res.endpoint.operation_id, vars),
                            None => Real::Unparsed(dbg),
                        }
                    }
                    Ok(Err(e)) => {
                        let mut allow = BTreeSet::new();
                        if let Some(h) = &e.headers {
                            for v in h.get_all(http::header::ALLOW) {
                                for t in String::from_utf8_lossy(v.as_bytes()).split(',') {
                                    let t = t.trim();
                                    if !t.is_empty() {
                                        allow.insert(t.to_string());
                                    }
                                }
                            }
                        }
                        Real::Status(e.status_code.as_u16(), allow)
                    }
                }
            }),
            endpoints: Box::new(move |v| {
                r2.endpoints(v)
                    .map(|(p, m, e)| (p, m, e.operation_id.clone()))
                    .collect()
            }),
        }
    }
    pub fn lookup(
        &self,
        m: &http::Method,
        p: &str,
        v: Option<&semver::Version>,
    ) -> Real {
        (self.lookup)(m, p, v)
    }
    pub fn endpoints(
        &self,
        v: Option<&semver::Version>,
    ) -> Vec<(String, String, String)> {
        (self.endpoints)(v)
    }
}

/// Register `order` (indices into table) into a fresh ApiDescription.
/// Err((index, message)) if the real code refuses one.
pub fn build_api(
    table: &[MEndpoint],
    order: &[usize],
) -> Result<ApiDescription<C>, (usize, String)> {
    let mut api = ApiDescription::<C>::new();
    for &i in order {
        let ep = &table[i];
        let real = make_endpoint(ep, &handler_key(ep))
            .ok_or((i, "unsupported handler key".to_string()))?;
        let r = catch_quiet(std::panic::AssertUnwindSafe(|| api.register(real)));
        match r {
            Ok(Ok(())) => {}
            Ok(Err(e)) => return Err((i, format!("Err: {}", e.message()))),
            Err(p) => return Err((i, format!("panic: {}", p.message))),
        }
    }
    Ok(api)
}

pub fn table_json(table: &[MEndpoint]) -> serde_json::Value {
    json!(table
        .iter()
        .map(|e| json!({"op": e.opid, "method": e.method, "path": e.template(),
                        "versions": e.range.show()}))
        .collect::<Vec<_>>())
}

fn table_shape(table: &[MEndpoint]) -> String {
    let wild = table.iter().any(|e| e.has_wild());
    let depth = table.iter().map(|e| e.segs.len()).max().unwrap_or(0);
    let mut shared = false;
    for (i, a) in table.iter().enumerate() {
        for b in &table[i + 1..] {
            if !a.segs.is_empty() && !b.segs.is_empty() && a.segs[0] == b.segs[0] {
                shared = true;
            }
        }
    }
    let versioned = table.iter().any(|e| !e.range.is_all());
    let same_path_multi = {
        let mut m: BTreeMap<String, usize> = BTreeMap::new();
        for e in table {
            *m.entry(format!("{} {}", e.method, e.doc_template())).or_default() += 1;
        }
        m.values().any(|c| *c > 1)
    };
    format!(
        "n{}w{}d{}s{}v{}m{}",
        table.len().min(9),
        wild as u8,
        depth,
        shared as u8,
        versioned as u8,
        same_path_multi as u8
    )
}

fn req_shape(raw: &[u8]) -> String {
    let enc = raw.contains(&b'%');
    let dbl = raw.windows(2).any(|w| w == b"//");
    let trail = raw.len() > 1 && raw.ends_with(b"/");
    let nseg = raw.split(|b| *b == b'/').filter(|p| !p.is_empty()).count();
    format!("s{}e{}d{}t{}", nseg.min(6), enc as u8, dbl as u8, trail as u8)
}

pub fn dot_spellings() -> Vec<Vec<u8>> {
    let one: [&[u8]; 3] = [b".", b"%2e", b"%2E"];
    let mut v: Vec<Vec<u8>> = one.iter().map(|s| s.to_vec()).collect();
    for a in one {
        for b in one {
            let mut s = a.to_vec();
            s.extend_from_slice(b);
            v.push(s);
        }
    }
    v
}

pub fn run_shard(prop: &str, seed: u64, shard: u64, w: &Work) -> Report {
    let mut rep = Report::new(
        prop,
        "E1-router",
        "random model-accepted route tables registered with the real ApiDescription in several orders; \
         each probe (method, spelled path, version) looked up with the real router and compared with the \
         reference dispatch model; a class is (table shape, request shape, expected outcome) and is \
         non-trivial when the table has >= 2 endpoints",
    );
    let u = universe();
    let values = seg_values();
    for t in 0..w.tables {
        let mut rng = Rng::derive(seed, "router-table", shard, t as u64);
        let versioned = prop == "C05" || rng.chance(2, 3);
        let cfg = TableCfg {
            allow_shadow: w.shadow_class && rng.chance(1, if prop == "C05" { 3 } else { 8 }),
            versioned,
            max_depth: 1 + rng.usize(5),
            wildcards: rng.chance(2, 3),
            n: 2 + rng.usize(14),
        };
        let table = gen_table(&mut rng, &cfg, &u);
        if table.len() < 2 || !table.iter().all(template_supported) {
            continue;
        }
        let versioned = table.iter().any(|e| !e.range.is_all());
        if prop == "C05" && !versioned {
            continue;
        }
        // several registration orders
        let mut routers = vec![];
        let mut refused = false;
        for p in 0..w.perms.max(1) {
            let mut order: Vec<usize> = (0..table.len()).collect();
            if p > 0 {
                rng.shuffle(&mut order);
            }
            match build_api(&table, &order) {
                Ok(api) => routers.push((order, RouterBox::new(api))),
                Err((i, msg)) => {
                    // the conflict model accepted this table: C02's business
                    rep.inconclusive("model-accepted table refused by register (C02 decides)");
                    if prop == "C02" {
                        rep.violate(
                            "C02:accepted-by-model-refused-by-register",
                            json!({"table": table_json(&table), "index": i, "message": msg}),
                        );
                    }
                    refused = true;
                    break;
                }
            }
        }
        if refused {
            continue;
        }
        let tshape = table_shape(&table);
        // probe versions
        let mut vers: Vec<MVer> = u.clone();
        for e in &table {
            vers.extend(e.range.bounds());
        }
        for pi in 0..w.probes {
            let segs = if w.spelling_focus && rng.chance(1, 3) {
                // a path with a dot segment somewhere
                let mut s = gen_request_segments(&mut rng, &table, &values[..12]);
                let i = rng.usize(s.len() + 1);
                s.insert(i, if rng.bool() { b".".to_vec() } else { b"..".to_vec() });
                s
            } else {
                gen_request_segments(&mut rng, &table, &values)
            };
            let raw = spell(&mut rng, &segs, true);
            let mut method = rng.pick(&METHODS).to_string();
            if rng.chance(1, 30) {
                method = "BOGUS".to_string();
            }
            if w.method_case && rng.chance(1, 10) {
                method = method.to_ascii_lowercase();
            }
            let ver = if versioned {
                Some(if rng.chance(9, 10) {
                    rng.pick(&vers).clone()
                } else {
                    random_version(&mut rng)
                })
            } else {
                None
            };
            let expect = dispatch(&table, &method, &raw, ver.as_ref());
            let raw_str = String::from_utf8(raw.clone()).expect("spell() emits ASCII");
            let real_ver = ver.as_ref().map(|v| v.real());
            let m = crate::api::method_of(&method);
            let mut reals: Vec<Real> = routers
                .iter()
                .map(|(_, r)| r.lookup(&m, &raw_str, real_ver.as_ref()))
                .collect();
            let outcome_kind = match &expect {
                Expect::Hit(..) => "hit",
                Expect::Ambiguous(_) => "ambiguous",
                Expect::NotFound => "404",
                Expect::NotAllowed(_) => "405",
                Expect::BadRequest(_) => "400",
            };
            let lower_method = method.chars().any(|c| c.is_ascii_lowercase());
            rep.eval(format!("{tshape}|{}|{outcome_kind}", req_shape(&raw)));
            rep.count(&format!("expect_{outcome_kind}"), 1);
            let witness = |real: &Real, order: &Vec<usize>| {
                json!({
                    "seed": seed, "shard": shard, "table_index": t, "probe_index": pi,
                    "table": table_json(&table), "registration_order": order,
                    "method": method, "path": raw_str,
                    "version": ver.as_ref().map(|v| v.text.clone()),
                    "expected": format!("{expect:?}"), "real": format!("{real:?}"),
                })
            };
            // order independence (C01), judged on the real outcomes alone
            for k in 1..reals.len() {
                if reals[k] != reals[0] {
                    rep.violate(
                        "C01:order-dependent-outcome",
                        json!({"first": witness(&reals[0], &routers[0].0),
                               "other": witness(&reals[k], &routers[k].0)}),
                    );
                    break;
                }
            }
            let real = reals.remove(0);
            let order = &routers[0].0;
            if rep.want_sample() && pi == 0 {
                rep.sample(witness(&real, order));
            }
            if let Real::Panic(msg) = &real {
                rep.violate(
                    format!("{}:lookup-panicked", if matches!(expect, Expect::BadRequest(_)) { "C03" } else { "C01" }),
                    json!({"panic": msg, "case": witness(&real, order)}),
                );
                continue;
            }
            if let Real::Unparsed(d) = &real {
                rep.inconclusive(&format!("could not parse variables debug form: {d}"));
                continue;
            }
            let shadowed = match normalise(&raw) {
                NormPath::Segments(s) => on_shadowed_node(&table, &s),
                NormPath::Bad(_) => false,
            };
            // W1 (DESIGN.md §7): requests that land exactly on a node having both
            // its own handlers and a wildcard child are keyed separately
            let tag = |sig: &str| -> String {
                let s = if shadowed {
                    format!("{}:exact-route-beside-wildcard-child", &sig[..3])
                } else {
                    sig.to_string()
                };
                if prop == "C05" {
                    // the C05 run only has versioned tables and versioned requests: whatever
                    // goes wrong, the request was not handled by the endpoint whose range
                    // contains its version
                    format!("C05:version-routing:{}", &s[4..])
                } else {
                    s
                }
            };
            match &expect {
                Expect::Ambiguous(_) => {
                    rep.inconclusive("request ambiguous in model (C02 decides)");
                }
                Expect::Hit(i, b) => {
                    let want = Real::Hit(table[*i].opid.clone(), b.clone());
                    if real != want {
                        let sig = if lower_method {
                            "C01:method-token-case-folded"
                        } else {
                            match &real {
                                Real::Hit(op, _) if *op != table[*i].opid => "C01:wrong-endpoint",
                                Real::Hit(..) => "C01:wrong-variables",
                                Real::Status(400, _) => "C03:valid-path-refused",
                                _ => "C01:matching-request-not-dispatched",
                            }
                        };
                        rep.violate(tag(sig), witness(&real, order));
                    }
                }
                Expect::NotFound => match &real {
                    Real::Status(404, _) => {}
                    Real::Hit(..) if lower_method => {
                        rep.violate(tag("C04:method-token-case-folded"), witness(&real, order));
                    }
                    Real::Hit(..) => {
                        rep.violate(tag("C01:unmatched-request-dispatched"), witness(&real, order));
                    }
                    Real::Status(405, _) => {
                        rep.violate(tag("C04:405-where-404-expected"), witness(&real, order));
                    }
                    Real::Status(400, _) => {
                        rep.violate(tag("C03:valid-path-refused"), witness(&real, order));
                    }
                    _ => rep.violate(tag("C04:wrong-status-for-unmatched"), witness(&real, order)),
                },
                Expect::NotAllowed(s) => match &real {
                    Real::Status(405, allow) => {
                        if allow != s {
                            let sig = if allow.is_superset(s) {
                                "C04:allow-lists-unserved-method"
                            } else if allow.is_empty() {
                                "C04:allow-missing"
                            } else {
                                "C04:allow-omits-served-method"
                            };
                            rep.violate(tag(sig), witness(&real, order));
                        }
                    }
                    Real::Hit(..) if lower_method => {
                        rep.violate(tag("C04:method-token-case-folded"), witness(&real, order));
                    }
                    Real::Hit(..) => {
                        rep.violate(tag("C01:unmatched-request-dispatched"), witness(&real, order));
                    }
                    Real::Status(404, _) => {
                        rep.violate(tag("C04:404-where-405-expected"), witness(&real, order));
                    }
                    Real::Status(400, _) => {
                        rep.violate(tag("C03:valid-path-refused"), witness(&real, order));
                    }
                    _ => rep.violate(tag("C04:wrong-status-for-unmatched"), witness(&real, order)),
                },
                Expect::BadRequest(why) => match &real {
                    Real::Status(400, _) => {}
                    Real::Hit(_, vars) => {
                        let dotvar = vars.values().any(|b| match b {
                            Binding::One(s) => s == "." || s == "..",
                            Binding::Many(v) => v.iter().any(|s| s == "." || s == ".."),
                        });
                        let sig = if *why == "dot-segment" {
                            if dotvar {
                                "C03:dot-segment-delivered-as-variable"
                            } else {
                                "C03:dot-segment-path-dispatched"
                            }
                        } else {
                            "C03:non-utf8-path-dispatched"
                        };
                        rep.violate(tag(sig), witness(&real, order));
                        if prop == "C01" {
                            // whatever the handler was given, it is not the request's segments
                            // (those name no valid path)
                            rep.violate("C01:variables-differ-from-request-segments:invalid-path-dispatched", witness(&real, order));
                        }
                    }
                    Real::Status(..) => {
                        let sig = if *why == "dot-segment" {
                            "C03:dot-segment-path-not-400"
                        } else {
                            "C03:non-utf8-path-not-400"
                        };
                        rep.violate(tag(sig), witness(&real, order));
                    }
                    _ => {}
                },
            }
            // invariant: no delivered variable is ".", ".." or empty
            if let Real::Hit(_, vars) = &real {
                let bad = vars.values().any(|b| match b {
                    Binding::One(s) => s == "." || s == ".." || s.is_empty(),
                    Binding::Many(v) => {
                        v.iter().any(|s| s == "." || s == ".." || s.is_empty())
                    }
                });
                if bad && !matches!(expect, Expect::BadRequest(_)) {
                    rep.violate("C03:unsafe-variable-value", witness(&real, order));
                }
            }
        }
        rep.count("tables", 1);
        if prop == "C01" && versioned {
            registration_order_probe(&mut rep, &mut rng, &table, &u, seed, shard, t);
        }
    }
    rep
}

/// C01 "never on the order of registration", for the accept/refuse outcome itself:
/// sets that contain (or narrowly avoid) a version overlap between endpoints which
/// share a request path — two or three generations at one template plus a
/// wildcard child whose range overlaps some, all or none of them — are registered
/// in many orders.  Judged on the real outcomes alone: every order must agree on
/// whether the set as a whole is accepted.
pub fn registration_order_probe(rep: &mut Report, rng: &mut Rng, table: &[MEndpoint], u: &[MVer], seed: u64, shard: u64, t: usize) {
    let bases: Vec<&MEndpoint> = table
        .iter()
        .filter(|e| !e.segs.iter().any(|s| matches!(s, TSeg::Wild(_))) && !e.var_names().iter().any(|n| n == "w"))
        .collect();
    if bases.is_empty() || u.len() < 4 {
        return;
    }
    let base = (*rng.pick(&bases)).clone();
    // three increasing cut points
    let mut cuts: Vec<MVer> = vec![];
    for _ in 0..40 {
        let v = rng.pick(u).clone();
        if !cuts.iter().any(|c| !c.lt(&v) && !v.lt(c)) {
            cuts.push(v);
        }
        if cuts.len() == 3 {
            break;
        }
    }
    if cuts.len() < 3 {
        return;
    }
    cuts.sort_by(|a, b| if a.lt(b) { std::cmp::Ordering::Less } else if b.lt(a) { std::cmp::Ordering::Greater } else { std::cmp::Ordering::Equal });
    let (a, b, c) = (cuts[0].clone(), cuts[1].clone(), cuts[2].clone());
    // generations at the template itself (pairwise disjoint)
    let gens: Vec<MRange> = match rng.below(3) {
        0 => vec![MRange::Until(b.clone()), MRange::From(b.clone())],
        1 => vec![MRange::Until(a.clone()), MRange::FromUntil(a.clone(), b.clone()), MRange::From(c.clone())],
        _ => vec![MRange::FromUntil(a.clone(), b.clone()), MRange::FromUntil(b.clone(), c.clone())],
    };
    // the other route sharing request paths with them: the wildcard child (its empty
    // match) or one more generation at the template itself
    let other_range = match rng.below(6) {
        0 => MRange::From(b.clone()),
        1 => MRange::Until(b.clone()),
        2 => MRange::FromUntil(b.clone(), c.clone()),
        3 => MRange::From(c.clone()),
        4 => MRange::Until(a.clone()),
        _ => MRange::All,
    };
    let as_wildcard = rng.chance(3, 4);
    let mut set: Vec<MEndpoint> = vec![];
    for (i, r) in gens.iter().enumerate() {
        let mut e = base.clone();
        e.opid = format!("gen{i}");
        e.range = r.clone();
        set.push(e);
    }
    let mut o = base.clone();
    o.opid = "other".into();
    o.range = other_range;
    if as_wildcard {
        o.segs.push(TSeg::Wild("w".into()));
        o.trailing_slash = false;
    }
    if !template_supported(&o) {
        return;
    }
    set.push(o);
    // bystanders from the table that the model sees no conflict with
    for e in table {
        if set.len() >= 7 {
            break;
        }
        if e.opid != base.opid && template_supported(e) && structural_conflict(&set, e).is_none() && !wildcard_shadow(&set, e) {
            set.push(e.clone());
        }
    }
    let mut outcomes: Vec<(Vec<usize>, Result<(), (usize, String)>)> = vec![];
    let n = set.len();
    for p in 0..8 {
        let mut order: Vec<usize> = (0..n).collect();
        match p {
            0 => {}
            1 => order.reverse(),
            _ => rng.shuffle(&mut order),
        }
        let r = build_api(&set, &order).map(|_| ());
        outcomes.push((order, r));
    }
    let accepted = outcomes.iter().filter(|(_, r)| r.is_ok()).count();
    rep.eval(format!(
        "registration-order|gens{}|{}|{}",
        gens.len(),
        if as_wildcard { "wildcard-child" } else { "same-template" },
        if accepted == 0 { "refused-in-every-order" } else if accepted == outcomes.len() { "accepted-in-every-order" } else { "MIXED" }
    ));
    rep.count("registration_order_sets", 1);
    rep.count(if accepted == 0 { "registration_order_sets_refused_in_every_order" } else { "registration_order_sets_accepted_in_some_order" }, 1);
    if accepted != 0 && accepted != outcomes.len() {
        let acc = outcomes.iter().find(|(_, r)| r.is_ok()).unwrap();
        let refd = outcomes.iter().find(|(_, r)| r.is_err()).unwrap();
        rep.violate(
            "C01:registration-outcome-depends-on-order",
            json!({"seed": seed, "shard": shard, "table_index": t, "set": table_json(&set),
                   "accepted_in_order": acc.0, "refused_in_order": refd.0,
                   "refusal": refd.1.as_ref().err().map(|(i, m)| json!({"endpoint_index": i, "message": m})),
                   "orders_accepting": accepted, "orders_tried": outcomes.len()}),
        );
    }
}

/// C03 metamorphic engine: many spellings of one segment list must all give
/// the same outcome as the canonical spelling.
pub fn run_spellings(seed: u64, shard: u64, cases: usize, per: usize) -> Report {
    let mut rep = Report::new(
        "C03",
        "E1-spellings",
        "a fixed table with literal, variable and wildcard routes; for a random decoded segment list \
         (bytes 0x00-0xFF) `per` spellings (per-byte optional percent-encoding with mixed hex case, 1-3 \
         slashes at each boundary, trailing slashes) are looked up and must equal both the model's \
         outcome and the canonical spelling's; class = (byte classes in the path, outcome)",
    );
    let table = fixed_table();
    let order: Vec<usize> = (0..table.len()).collect();
    let api = build_api(&table, &order).expect("fixed table registers");
    let router = RouterBox::new(api);
    let values = seg_values();
    let get = http::Method::GET;
    for c in 0..cases {
        let mut rng = Rng::derive(seed, "spellings", shard, c as u64);
        // a segment list: literal prefix choice then arbitrary byte strings
        let mut segs: Vec<Vec<u8>> = vec![];
        match rng.below(4) {
            0 => segs.push(b"lit".to_vec()),
            1 => segs.push(b"v".to_vec()),
            2 => segs.push(b"w".to_vec()),
            _ => {}
        }
        for _ in 0..rng.usize(4) {
            if rng.chance(1, 2) {
                segs.push(rng.pick(&values).clone());
            } else {
                let n = 1 + rng.usize(4);
                segs.push((0..n).map(|_| rng.next() as u8).collect());
            }
        }
        // long paths: very many segments below the wildcard route (sometimes with a dot
        // segment far from the start), and - for any path - very long runs of slashes
        let deep = rng.chance(1, 10);
        if deep {
            segs = vec![b"w".to_vec()];
            for _ in 0..(40 + rng.usize(300)) {
                segs.push(rng.pick(&values[..12]).clone());
            }
            if rng.chance(1, 3) {
                let at = 1 + rng.usize(segs.len());
                segs.insert(at, if rng.bool() { b"..".to_vec() } else { b".".to_vec() });
            }
            if rng.chance(1, 4) {
                let at = 1 + rng.usize(segs.len());
                segs.insert(at, vec![0xff, b'a']);
            }
        }
        let slash_runs = deep || rng.chance(1, 10);
        let canon = canonical_spelling(&segs);
        let expect = dispatch(&table, "GET", &canon, None);
        let canon_real =
            router.lookup(&get, std::str::from_utf8(&canon).unwrap(), None);
        let byteclass = {
            let mut s = BTreeSet::new();
            for seg in &segs {
                for b in seg {
                    s.insert(match b {
                        0..=0x1f | 0x7f => "ctl",
                        b'/' => "slash",
                        b'%' => "pct",
                        b'.' => "dot",
                        0x80..=0xff => "hi",
                        b'a'..=b'z' | b'A'..=b'Z' | b'0'..=b'9' => "alnum",
                        _ => "punct",
                    });
                }
            }
            s.into_iter().collect::<Vec<_>>().join("+")
        };
        for k in 0..per {
            let mut raw = spell(&mut rng, &segs, true);
            if slash_runs && k % 2 == 1 {
                // a run of 100-400 extra slashes at one of the boundaries (or at the end)
                let at: Vec<usize> = raw.iter().enumerate().filter(|(_, b)| **b == b'/').map(|(i, _)| i).collect();
                let pos = if rng.chance(1, 4) { raw.len() } else { *rng.pick(&at) };
                let run = vec![b'/'; 100 + rng.usize(300)];
                raw.splice(pos..pos, run);
            }
            let raw_str = String::from_utf8(raw.clone()).unwrap();
            let real = router.lookup(&get, &raw_str, None);
            let kind = match &expect {
                Expect::Hit(..) => "hit",
                Expect::BadRequest(_) => "400",
                Expect::NotFound => "404",
                Expect::NotAllowed(_) => "405",
                Expect::Ambiguous(_) => "amb",
            };
            rep.eval(format!("{byteclass}|n{}|{kind}{}", segs.len().min(40), if slash_runs && k % 2 == 1 { "|slash-run" } else { "" }));
            let wit = json!({"seed": seed, "shard": shard, "case": c, "k": k,
                "segments": segs.iter().map(|s| String::from_utf8_lossy(s).to_string()).collect::<Vec<_>>(),
                "segments_hex": segs.iter().map(|s| s.iter().map(|b| format!("{b:02x}")).collect::<String>()).collect::<Vec<_>>(),
                "spelling": raw_str, "canonical": String::from_utf8_lossy(&canon),
                "expected": format!("{expect:?}"), "real": format!("{real:?}"),
                "canonical_real": format!("{canon_real:?}")});
            if k == 0 && rep.want_sample() {
                rep.sample(wit.clone());
            }
            if real != canon_real {
                rep.violate("C03:spelling-changes-outcome", wit.clone());
            }
            let ok = match (&expect, &real) {
                (Expect::Hit(i, b), Real::Hit(op, vars)) => {
                    *op == table[*i].opid && vars == b
                }
                (Expect::BadRequest(_), Real::Status(400, _)) => true,
                (Expect::NotFound, Real::Status(404, _)) => true,
                (Expect::NotAllowed(_), Real::Status(405, _)) => true,
                _ => false,
            };
            if !ok {
                let sig = match (&expect, &real) {
                    (Expect::BadRequest("dot-segment"), Real::Hit(..)) => {
                        "C03:dot-segment-delivered-as-variable"
                    }
                    (Expect::BadRequest("dot-segment"), _) => "C03:dot-segment-path-not-400",
                    (Expect::BadRequest(_), Real::Hit(..)) => "C03:non-utf8-path-dispatched",
                    (Expect::BadRequest(_), _) => "C03:non-utf8-path-not-400",
                    (Expect::Hit(..), Real::Hit(..)) => "C03:segment-decoded-wrongly",
                    (Expect::Hit(..), Real::Status(400, _)) => "C03:valid-path-refused",
                    _ => "C03:normalisation-changes-routing",
                };
                rep.violate(sig, wit);
            }
        }
    }
    rep
}

/// Exhaustive: every dot-segment spelling at every position of paths of
/// length <= 3 over the fixed table.
pub fn run_dot_enumeration() -> Report {
    let mut rep = Report::new(
        "C03",
        "E1-dots",
        "exhaustive: each of the 12 spellings of '.'/'..' ({.,%2e,%2E} and all 9 pairs) at every position \
         of every path of <= 3 segments over {lit,v,w,a}; must be 400; class = (spelling, position, length)",
    );
    rep.exhaustive = Some(true);
    let table = fixed_table();
    let order: Vec<usize> = (0..table.len()).collect();
    let router = RouterBox::new(build_api(&table, &order).expect("fixed table"));
    let firsts: [&str; 4] = ["lit", "v", "w", "a"];
    let get = http::Method::GET;
    for len in 1..=3usize {
        // all paths of length len over firsts, then substitute
        let total = firsts.len().pow(len as u32);
        for code in 0..total {
            let mut segs: Vec<String> = vec![];
            let mut c = code;
            for _ in 0..len {
                segs.push(firsts[c % firsts.len()].to_string());
                c /= firsts.len();
            }
            for pos in 0..len {
                for (si, sp) in dot_spellings().iter().enumerate() {
                    let mut s = segs.clone();
                    s[pos] = String::from_utf8(sp.clone()).unwrap();
                    let path = format!("/{}", s.join("/"));
                    let real = router.lookup(&get, &path, None);
                    rep.eval(format!("sp{si}|pos{pos}|len{len}"));
                    if !matches!(real, Real::Status(400, _)) {
                        let sig = match &real {
                            Real::Hit(..) => "C03:dot-segment-delivered-as-variable",
                            _ => "C03:dot-segment-path-not-400",
                        };
                        rep.violate(sig, json!({"path": path, "real": format!("{real:?}")}));
                    } else if rep.want_sample() {
                        rep.sample(json!({"path": path, "real": "400"}));
                    }
                }
            }
        }
    }
    rep
}

/// /lit/{x}, /v/{x}/{y}, /w/{w:.*}, / (GET)
pub fn fixed_table() -> Vec<MEndpoint> {
    let mk = |op: &str, segs: Vec<TSeg>| MEndpoint {
        opid: op.into(),
        method: "GET".into(),
        segs,
        trailing_slash: false,
        range: MRange::All,
        visible: true,
    };
    vec![
        mk("root", vec![]),
        mk("lit1", vec![TSeg::Lit("lit".into()), TSeg::Var("x".into())]),
        mk(
            "v2",
            vec![TSeg::Lit("v".into()), TSeg::Var("x".into()), TSeg::Var("y".into())],
        ),
        mk("wild", vec![TSeg::Lit("w".into()), TSeg::Wild("w".into())]),
    ]
}
