//! C06: the OpenAPI document for version v lists exactly what is served at v;
//! references resolve; generation is deterministic and order-independent.

use crate::api::*;
use crate::gen::*;
use crate::model::*;
use crate::panics::catch_quiet;
use crate::report::Report;
use crate::rng::{fnv1a, Rng};
use crate::router_engine::{table_json, Real, RouterBox};
use crate::srv::C;
use dropshot::{
    ApiDescription, ApiEndpoint, ErrorStatusCode, HttpError, HttpResponseCreated,
    HttpResponseError, HttpResponseHeaders, HttpResponseOk, Path, Query,
    RequestContext, TagConfig, TagDetails, TypedBody,
};
use schemars::JsonSchema;
use serde::{Deserialize, Serialize};
use serde_json::{json, Value};
use std::collections::{BTreeMap, BTreeSet, HashMap};

#[derive(Serialize, Deserialize, JsonSchema, Clone, Debug)]
pub enum Kind {
    A,
    B,
}
#[derive(Serialize, Deserialize, JsonSchema, Clone, Debug)]
pub struct Part {
    pub id: u32,
    pub kind: Kind,
}
#[derive(Serialize, Deserialize, JsonSchema, Clone, Debug)]
pub struct Widget {
    pub name: String,
    pub parts: Vec<Part>,
    pub parent: Option<Box<Widget>>,
}
#[derive(Serialize, Deserialize, JsonSchema, Clone, Debug)]
pub struct Gadget {
    pub widget: Widget,
    pub extra: BTreeMap<String, Part>,
}
#[derive(Serialize, Deserialize, JsonSchema, Clone, Debug)]
pub struct QueryK {
    pub kind: Option<Kind>,
    pub n: Option<u8>,
}
#[derive(Serialize, Deserialize, JsonSchema, Clone, Debug)]
pub struct Hdrs {
    #[serde(rename = "x-tra")]
    pub x_tra: String,
}
/// header / parameter types that reach another named type only transitively
#[derive(Serialize, Deserialize, JsonSchema, Clone, Debug)]
pub enum CacheState {
    Hit,
    Miss,
}
#[derive(Serialize, Deserialize, JsonSchema, Clone, Debug)]
pub struct CacheStatus(pub CacheState);
#[derive(Serialize, Deserialize, JsonSchema, Clone, Debug)]
pub struct Hdrs2 {
    #[serde(rename = "x-cache")]
    pub cache: CacheStatus,
    #[serde(rename = "x-opt")]
    pub opt: Option<String>,
}
#[derive(Serialize, Deserialize, JsonSchema, Clone, Debug)]
pub struct WrappedKind(pub Kind);
#[derive(Serialize, Deserialize, JsonSchema, Clone, Debug)]
pub struct QueryW {
    pub wk: Option<WrappedKind>,
}
#[derive(Debug, Serialize, JsonSchema)]
pub struct MyErr {
    pub msg: String,
    pub detail: Part,
    #[serde(skip)]
    pub status: Option<u16>,
}
impl std::fmt::Display for MyErr {
    fn fmt(&self, f: &mut std::fmt::Formatter) -> std::fmt::Result {
        f.write_str(&self.msg)
    }
}
impl From<HttpError> for MyErr {
    fn from(e: HttpError) -> Self {
        MyErr {
            msg: e.external_message,
            detail: Part { id: 0, kind: Kind::A },
            status: Some(e.status_code.as_u16()),
        }
    }
}
impl HttpResponseError for MyErr {
    fn status_code(&self) -> ErrorStatusCode {
        ErrorStatusCode::from_u16(self.status.unwrap_or(500)).unwrap()
    }
}
pub mod other {
    use super::*;
    /// a second error type with the same name: exercises response-name disambiguation
    #[derive(Debug, Serialize, JsonSchema)]
    pub struct MyErr {
        pub code: u32,
    }
    impl std::fmt::Display for MyErr {
        fn fmt(&self, f: &mut std::fmt::Formatter) -> std::fmt::Result {
            write!(f, "{}", self.code)
        }
    }
    impl From<HttpError> for MyErr {
        fn from(_: HttpError) -> Self {
            MyErr { code: 1 }
        }
    }
    impl HttpResponseError for MyErr {
        fn status_code(&self) -> ErrorStatusCode {
            ErrorStatusCode::INTERNAL_SERVER_ERROR
        }
    }
}

macro_rules! flavored {
    ($name:ident, $name0:ident, ($($arg:ident : $t:ty),*), $ret:ty, $err:ty, $body:expr) => {
        pub async fn $name<P>(_rqctx: RequestContext<C>, _p: Path<P>, $($arg: $t),*) -> Result<$ret, $err>
        where P: serde::de::DeserializeOwned + JsonSchema + Send + Sync + 'static {
            $(let _ = &$arg;)*
            $body
        }
        pub async fn $name0(_rqctx: RequestContext<C>, $($arg: $t),*) -> Result<$ret, $err> {
            $(let _ = &$arg;)*
            $body
        }
    };
}

fn gadget() -> Gadget {
    Gadget {
        widget: Widget { name: "w".into(), parts: vec![], parent: None },
        extra: BTreeMap::new(),
    }
}

flavored!(f_typed, f_typed0, (b: TypedBody<Widget>), HttpResponseCreated<Gadget>, HttpError,
    Ok(HttpResponseCreated(gadget())));
flavored!(f_query, f_query0, (q: Query<QueryK>), HttpResponseOk<Vec<Part>>, HttpError,
    Ok(HttpResponseOk(vec![])));
flavored!(f_hdrs, f_hdrs0, (), HttpResponseHeaders<HttpResponseOk<Part>, Hdrs>, HttpError,
    Ok(HttpResponseHeaders::new(HttpResponseOk(Part { id: 1, kind: Kind::B }), Hdrs { x_tra: "v".into() })));
flavored!(f_hdrs2, f_hdrs20, (), HttpResponseHeaders<HttpResponseOk<u32>, Hdrs2>, HttpError,
    Ok(HttpResponseHeaders::new(HttpResponseOk(7), Hdrs2 { cache: CacheStatus(CacheState::Hit), opt: None })));
flavored!(f_queryw, f_queryw0, (q: Query<QueryW>), HttpResponseOk<u8>, HttpError,
    Ok(HttpResponseOk(1)));
flavored!(f_err, f_err0, (), HttpResponseOk<Kind>, MyErr,
    Ok(HttpResponseOk(Kind::A)));
flavored!(f_err2, f_err20, (b: TypedBody<Gadget>), HttpResponseOk<Widget>, other::MyErr,
    Ok(HttpResponseOk(gadget().widget)));

#[derive(Clone, Debug)]
pub struct DocEp {
    pub ep: MEndpoint,
    pub flavor: u8,
    pub tags: Vec<String>,
    pub deprecated: bool,
}

fn make(d: &DocEp) -> Option<ApiEndpoint<C>> {
    let ep = &d.ep;
    let op = ep.opid.clone();
    let m = method_of(&ep.method);
    let ct = "application/json";
    let path = ep.template();
    let v = ep.range.real();
    let key = handler_key(ep);
    macro_rules! fl {
        ($f:ident, $f0:ident) => {
            match key.as_str() {
                "" => ApiEndpoint::new(op, $f0, m, ct, &path, v),
                "x" => ApiEndpoint::new(op, $f::<Px>, m, ct, &path, v),
                "xy" => ApiEndpoint::new(op, $f::<Pxy>, m, ct, &path, v),
                "y" => ApiEndpoint::new(op, $f::<Py>, m, ct, &path, v),
                _ => return make_endpoint(ep, &key).map(|e| decorate(e, d)),
            }
        };
    }
    let e = match d.flavor {
        1 => fl!(f_typed, f_typed0),
        2 => fl!(f_query, f_query0),
        3 => fl!(f_hdrs, f_hdrs0),
        4 => fl!(f_err, f_err0),
        5 => fl!(f_err2, f_err20),
        6 => fl!(f_hdrs2, f_hdrs20),
        7 => fl!(f_queryw, f_queryw0),
        _ => return make_endpoint(ep, &key).map(|e| decorate(e, d)),
    };
    Some(decorate(e, d))
}

fn decorate(mut e: ApiEndpoint<C>, d: &DocEp) -> ApiEndpoint<C> {
    e = e.visible(d.ep.visible).deprecated(d.deprecated);
    for t in &d.tags {
        e = e.tag(t);
    }
    e
}

fn build(eps: &[DocEp], order: &[usize], tagcfg: bool) -> Result<ApiDescription<C>, String> {
    let mut api = ApiDescription::<C>::new();
    if tagcfg {
        let mut tags = HashMap::new();
        tags.insert("t1".to_string(), TagDetails { description: Some("first".into()), external_docs: None });
        tags.insert("zz".to_string(), TagDetails { description: None, external_docs: None });
        api = api.tag_config(TagConfig { allow_other_tags: true, policy: dropshot::EndpointTagPolicy::Any, tags });
    }
    for &i in order {
        let e = make(&eps[i]).ok_or("unsupported")?;
        match catch_quiet(std::panic::AssertUnwindSafe(|| api.register(e))) {
            Ok(Ok(())) => {}
            Ok(Err(e)) => return Err(format!("Err: {}", e.message())),
            Err(p) => return Err(format!("panic: {}", p.message)),
        }
    }
    Ok(api)
}

fn render(api: &ApiDescription<C>, v: &MVer) -> Result<Vec<u8>, String> {
    let mut out = Vec::new();
    let r = catch_quiet(std::panic::AssertUnwindSafe(|| {
        api.openapi("vmon", v.real()).write(&mut out).map_err(|e| e.to_string())
    }));
    match r {
        Ok(Ok(())) => Ok(out),
        Ok(Err(e)) => Err(format!("error: {e}")),
        Err(p) => Err(format!("panic: {} @ {}", p.message, p.location)),
    }
}

fn resolve_pointer<'a>(doc: &'a Value, r: &str) -> Option<&'a Value> {
    let p = r.strip_prefix('#')?;
    let mut cur = doc;
    for tok in p.split('/').skip(1) {
        let tok = tok.replace("~1", "/").replace("~0", "~");
        cur = match cur {
            Value::Object(m) => m.get(&tok)?,
            Value::Array(a) => a.get(tok.parse::<usize>().ok()?)?,
            _ => return None,
        };
    }
    Some(cur)
}

fn collect_refs(v: &Value, out: &mut Vec<String>) {
    match v {
        Value::Object(m) => {
            for (k, x) in m {
                if k == "$ref" {
                    if let Value::String(s) = x {
                        out.push(s.clone());
                    }
                }
                collect_refs(x, out);
            }
        }
        Value::Array(a) => a.iter().for_each(|x| collect_refs(x, out)),
        _ => {}
    }
}

pub fn gen_doc_table(rng: &mut Rng, u: &[MVer]) -> (Vec<DocEp>, bool) {
    let cfg = TableCfg {
        allow_shadow: false,
        versioned: rng.chance(3, 4),
        max_depth: 1 + rng.usize(4),
        wildcards: rng.chance(1, 2),
        n: 2 + rng.usize(12),
    };
    let table = gen_table(rng, &cfg, u);
    let tagpool = ["t1", "t2", "alpha", "zz", "Alpha", "ALPHA", "T2"];
    let eps = table
        .into_iter()
        .map(|mut ep| {
            // (extension methods cannot be published either: OpenAPI path items have no
            // slot for them and gen_openapi refuses them)
            // (the macros force wildcard endpoints to be unpublished; a hand-built ApiEndpoint
            // may publish one, and is then listed under `{name}`)
            ep.visible = (!ep.has_wild() || rng.chance(1, 4)) && !rng.chance(1, 5) && ep.method != "Purge";
            let mut tags = vec![];
            for _ in 0..rng.usize(3) {
                let t = rng.pick(&tagpool).to_string();
                if !tags.contains(&t) {
                    tags.push(t);
                }
            }
            DocEp { ep, flavor: rng.below(10) as u8, tags, deprecated: rng.chance(1, 5) }
        })
        .collect();
    (eps, rng.bool())
}

fn instantiate(e: &MEndpoint) -> String {
    let mut segs: Vec<Vec<u8>> = vec![];
    for s in &e.segs {
        match s {
            TSeg::Lit(l) => segs.push(l.as_bytes().to_vec()),
            TSeg::Var(_) => segs.push(b"v1".to_vec()),
            TSeg::Wild(_) => segs.push(b"r1".to_vec()),
        }
    }
    String::from_utf8(canonical_spelling(&segs)).unwrap()
}

/// hash of every rendering of one table (used for the cross-process check)
pub fn table_hashes(seed: u64, shard: u64, t: u64) -> Vec<(String, u64)> {
    let u = universe();
    let mut rng = Rng::derive(seed, "c06-table", shard, t);
    let (eps, tagcfg) = gen_doc_table(&mut rng, &u);
    let order: Vec<usize> = (0..eps.len()).collect();
    let mut out = vec![];
    if let Ok(api) = build(&eps, &order, tagcfg) {
        for v in &u {
            if let Ok(b) = render(&api, v) {
                out.push((v.text.clone(), fnv1a(&b)));
            }
        }
    }
    out
}

pub fn run(seed: u64, shard: u64, tables: usize, perms: usize, cross_process: usize) -> Report {
    let mut rep = Report::new(
        "C06",
        "E1-openapi",
        "random accepted tables decorated with visibility, deprecation, tags (with/without TagConfig) and typed request/response/\
         error/header/query types (shared and recursive $refs, two error types of the same name); for every version in U plus range \
         bounds the document's operation set is compared with the model's {published e : v in range(e)}, every documented operation \
         is looked up in the real router, unpublished in-range endpoints are looked up too, all $ref are resolved, and the bytes are \
         compared across two renderings, across registration orders and (sampled) across processes; class = (table shape, #visible \
         in range, #hidden in range, #out of range)",
    );
    let u = universe();
    for t in 0..tables {
        let mut rng = Rng::derive(seed, "c06-table", shard, t as u64);
        let (mut eps, tagcfg) = gen_doc_table(&mut rng, &u);
        if eps.len() < 2 {
            continue;
        }
        // near-conflict sets (not on the tables a child process regenerates): one more
        // generation of an endpoint already in the table, with a range drawn without
        // regard to the ranges already there.  Whether such a set is accepted is C02's
        // business; IF it is accepted (in whatever order), the documents must still list
        // every published endpoint in range — which they cannot when two share a version.
        let mut near_conflict = false;
        if !(shard == 0 && t < cross_process) {
            let mut hr = Rng::derive(seed, "c06-near-conflict", shard, t as u64);
            if hr.chance(1, 3) {
                let bi = hr.usize(eps.len());
                let mut x = DocEp { ep: eps[bi].ep.clone(), flavor: eps[bi].flavor, tags: eps[bi].tags.clone(), deprecated: eps[bi].deprecated };
                x.ep.opid = format!("{}_again", x.ep.opid);
                x.ep.range = loop {
                    let r = gen_range(&mut hr, &u);
                    if r.nonempty() && !matches!(r, MRange::All) {
                        break r;
                    }
                };
                if !x.ep.has_wild() && x.ep.method != "Purge" {
                    x.ep.visible = true;
                    eps[bi].ep.visible = true;
                }
                eps.push(x);
                near_conflict = true;
            }
        }
        let table: Vec<MEndpoint> = eps.iter().map(|d| d.ep.clone()).collect();
        let mut order0: Vec<usize> = (0..eps.len()).collect();
        let mut built = build(&eps, &order0, tagcfg);
        if near_conflict && built.is_err() {
            // any accepting order will do
            let mut hr = Rng::derive(seed, "c06-near-conflict-order", shard, t as u64);
            for k in 0..6 {
                let mut o: Vec<usize> = (0..eps.len()).collect();
                if k == 0 {
                    o.rotate_right(1);
                } else {
                    hr.shuffle(&mut o);
                }
                if let Ok(a) = build(&eps, &o, tagcfg) {
                    order0 = o;
                    built = Ok(a);
                    break;
                }
            }
            if built.is_err() {
                rep.eval(format!("near-conflict-set|refused-in-every-order|n{}", eps.len().min(9)));
                rep.count("near_conflict_sets_refused", 1);
                continue;
            }
        }
        if near_conflict {
            rep.count("near_conflict_sets_accepted", 1);
        }
        let api0 = match built {
            Ok(a) => a,
            Err(e) => {
                rep.inconclusive(&format!("model-accepted table refused (C02 decides): {}", &e[..e.len().min(40)]));
                continue;
            }
        };
        let mut apis = vec![];
        for _ in 1..perms.max(1) {
            let mut o = order0.clone();
            rng.shuffle(&mut o);
            match build(&eps, &o, tagcfg) {
                Ok(a) => apis.push((o, a)),
                Err(_) => rep.inconclusive("permuted table refused (C02 decides)"),
            }
        }
        let versioned = table.iter().any(|e| !e.range.is_all());
        let mut vers: Vec<MVer> = u.clone();
        for e in &table {
            vers.extend(e.range.bounds());
        }
        if rng.chance(1, 2) {
            vers.push(random_version(&mut rng));
        }
        let mut docs: Vec<(MVer, Vec<u8>)> = vec![];
        for v in &vers {
            let wit = |extra: Value| {
                json!({"seed": seed, "shard": shard, "table_index": t, "version": v.text, "tag_config": tagcfg,
                       "table": eps.iter().map(|d| json!({"op": d.ep.opid, "method": d.ep.method, "path": d.ep.template(),
                            "versions": d.ep.range.show(), "visible": d.ep.visible, "flavor": d.flavor, "tags": d.tags,
                            "deprecated": d.deprecated})).collect::<Vec<_>>(),
                       "detail": extra})
            };
            let bytes = match render(&api0, v) {
                Ok(b) => b,
                Err(e) => {
                    rep.violate("C06:document-generation-failed", wit(json!({"error": e})));
                    continue;
                }
            };
            // twice
            match render(&api0, v) {
                Ok(b2) if b2 == bytes => {}
                Ok(_) => rep.violate("C06:two-renderings-differ", wit(json!({}))),
                Err(e) => rep.violate("C06:document-generation-failed", wit(json!({"error": e}))),
            }
            // other orders
            for (o, a) in &apis {
                match render(a, v) {
                    Ok(b2) if b2 == bytes => {}
                    Ok(b2) => rep.violate(
                        "C06:document-depends-on-registration-order",
                        wit(json!({"order": o, "len_a": bytes.len(), "len_b": b2.len()})),
                    ),
                    Err(e) => rep.violate("C06:document-generation-failed", wit(json!({"error": e, "order": o}))),
                }
            }
            let doc: Value = match serde_json::from_slice(&bytes) {
                Ok(d) => d,
                Err(e) => {
                    rep.violate("C06:document-is-not-json", wit(json!({"error": e.to_string()})));
                    continue;
                }
            };
            // operation set
            let mut got: BTreeSet<(String, String, String)> = BTreeSet::new();
            let mut dup = false;
            if let Some(paths) = doc["paths"].as_object() {
                for (p, item) in paths {
                    if let Some(item) = item.as_object() {
                        for (m, opv) in item {
                            let opid = opv["operationId"].as_str().unwrap_or("").to_string();
                            let norm = if p.len() > 1 { p.trim_end_matches('/').to_string() } else { p.clone() };
                            if !got.insert((m.to_uppercase(), norm, opid)) {
                                dup = true;
                            }
                        }
                    }
                }
            }
            let want: BTreeSet<(String, String, String)> = table
                .iter()
                .filter(|e| e.visible && e.range.contains(v))
                .map(|e| (e.method.clone(), e.doc_template(), e.opid.clone()))
                .collect();
            let nvis = want.len();
            let nhid = table.iter().filter(|e| !e.visible && e.range.contains(v)).count();
            let nout = table.iter().filter(|e| !e.range.contains(v)).count();
            let class = format!("n{}|vis{}|hid{}|out{}|tc{}", table.len().min(9), nvis.min(5), nhid.min(3), nout.min(4), tagcfg as u8);
            if nhid >= 1 && nout >= 1 {
                rep.eval(class);
            } else {
                rep.eval_trivial();
            }
            if dup {
                rep.violate("C06:operation-listed-twice", wit(json!({})));
            }
            if got != want {
                let missing: Vec<_> = want.difference(&got).cloned().collect();
                let extra: Vec<_> = got.difference(&want).cloned().collect();
                let sig = if !extra.is_empty() {
                    let e = &extra[0];
                    match table.iter().find(|t| t.opid == e.2) {
                        Some(te) if !te.visible => "C06:unpublished-endpoint-documented",
                        Some(te) if !te.range.contains(v) => "C06:out-of-range-endpoint-documented",
                        Some(_) => "C06:operation-documented-under-wrong-method-or-path",
                        None => "C06:unknown-operation-documented",
                    }
                } else {
                    "C06:served-endpoint-missing-from-document"
                };
                rep.violate(sig, wit(json!({"missing": missing, "extra": extra})));
            }
            docs.push((v.clone(), bytes));
            // references
            let mut refs = vec![];
            collect_refs(&doc, &mut refs);
            rep.count("refs_resolved", refs.len() as u64);
            for r in refs {
                if resolve_pointer(&doc, &r).is_none() {
                    rep.violate("C06:dangling-reference", wit(json!({"ref": r})));
                    break;
                }
            }
        }
        // routing side: consume api0
        let router = RouterBox::new(api0);
        for v in &vers {
            let rv = if versioned { Some(v.real()) } else { None };
            for e in &table {
                if !e.range.contains(v) {
                    continue;
                }
                let path = instantiate(e);
                let real = router.lookup(&method_of(&e.method), &path, rv.as_ref());
                let ok = matches!(&real, Real::Hit(op, _) if *op == e.opid);
                rep.count(if e.visible { "documented_ops_routed" } else { "unpublished_ops_routed" }, 1);
                if !ok {
                    let sig = if e.visible {
                        "C06:documented-operation-not-served"
                    } else {
                        "C06:unpublished-endpoint-not-served"
                    };
                    rep.violate(sig, json!({"seed": seed, "shard": shard, "table_index": t, "version": v.text,
                        "endpoint": {"op": e.opid, "method": e.method, "path": e.template(), "versions": e.range.show()},
                        "probe": path, "real": format!("{real:?}"), "table": table_json(&table)}));
                }
            }
        }
        if rep.want_sample() {
            if let Some((v, b)) = docs.first() {
                rep.sample(json!({"table": table_json(&table), "version": v.text, "document_bytes": b.len(),
                    "visible": table.iter().filter(|e| e.visible).count()}));
            }
        }
        // cross-process determinism (hash-order dependence): a child process
        // regenerates the same tables with fresh HashMap seeds
        if shard == 0 && t < cross_process {
            let mine: Vec<(String, u64)> = docs
                .iter()
                .filter(|(v, _)| u.iter().any(|x| x.text == v.text))
                .map(|(v, b)| (v.text.clone(), fnv1a(b)))
                .collect();
            let mine_u: BTreeMap<String, u64> = mine.into_iter().collect();
            let exe = std::env::current_exe().unwrap();
            let out = std::process::Command::new(exe)
                .args(["c06-hash", "--seed", &seed.to_string(), "--table", &t.to_string()])
                .output();
            match out {
                Ok(o) if o.status.success() => {
                    let txt = String::from_utf8_lossy(&o.stdout).to_string();
                    for line in txt.lines() {
                        let mut it = line.split_whitespace();
                        if let (Some(v), Some(h)) = (it.next(), it.next()) {
                            if let (Some(m), Ok(h)) = (mine_u.get(v), h.parse::<u64>()) {
                                rep.count("cross_process_comparisons", 1);
                                if *m != h {
                                    rep.violate(
                                        "C06:document-differs-between-processes",
                                        json!({"seed": seed, "table_index": t, "version": v, "table": table_json(&table)}),
                                    );
                                }
                            }
                        }
                    }
                }
                _ => rep.inconclusive("child process for cross-process comparison failed"),
            }
        }
        rep.count("tables", 1);
    }
    rep
}
