//! E2 for routing: the same reference dispatch model as router_engine, but
//! through a real server (versioned by header) with echo handlers, concurrent
//! keep-alive connections, and the event log as witness that no handler ran
//! for requests that must be refused.  Serves C01, C03, C04 and C05 (header
//! policy).

use crate::api::{handler_key, make_endpoint, template_supported};
use crate::client::*;
use crate::evlog::{next_uid, EvLog};
use crate::gen::*;
use crate::model::*;
use crate::report::Report;
use crate::rng::Rng;
use crate::router_engine::table_json;
use crate::srv::{start, Ctx, SrvCfg, C};
use dropshot::{ApiDescription, HandlerTaskMode};
use serde_json::{json, Value};
use std::collections::BTreeMap;
use std::collections::BTreeSet;

pub const VHDR: &str = "x-vmon-api-version";
const MAXV: &str = "18446744073709551615.18446744073709551615.18446744073709551615";

fn build(table: &[MEndpoint]) -> Option<ApiDescription<C>> {
    let order: Vec<usize> = (0..table.len()).collect();
    build_in_order(table, &order)
}

fn build_in_order(table: &[MEndpoint], order: &[usize]) -> Option<ApiDescription<C>> {
    let mut api = ApiDescription::<C>::new();
    for ep in order.iter().map(|i| &table[*i]) {
        let e = make_endpoint(ep, &handler_key(ep))?;
        crate::panics::catch_quiet(std::panic::AssertUnwindSafe(|| api.register(e))).ok()?.ok()?;
    }
    Some(api)
}

fn bindings_from_echo(v: &Value) -> BTreeMap<String, Binding> {
    let mut m = BTreeMap::new();
    if let Some(o) = v.as_object() {
        for (k, x) in o {
            match x {
                Value::String(s) => {
                    m.insert(k.clone(), Binding::One(s.clone()));
                }
                Value::Array(a) => {
                    m.insert(
                        k.clone(),
                        Binding::Many(a.iter().map(|s| s.as_str().unwrap_or("").to_string()).collect()),
                    );
                }
                _ => {}
            }
        }
    }
    m
}

/// raw spelling that may leave non-pchar bytes unencoded (live only)
fn spell_raw(rng: &mut Rng, segs: &[Vec<u8>]) -> (Vec<u8>, bool) {
    let mut out = vec![];
    let mut rawish = false;
    for s in segs {
        out.push(b'/');
        for &b in s {
            let must = must_encode_in_segment(b);
            // bytes that can never appear raw in a request line
            let never_raw = b <= 0x20 || b == 0x7f || b == b'/' || b == b'%' || b == b'?' || b == b'#';
            if must && (never_raw || rng.chance(2, 3)) {
                out.extend_from_slice(format!("%{b:02X}").as_bytes());
            } else {
                if must {
                    rawish = true;
                }
                out.push(b);
            }
        }
    }
    if segs.is_empty() {
        out.push(b'/');
    }
    (out, rawish)
}

pub struct Work {
    pub tables: usize,
    pub probes: usize,
    pub threads: usize,
}

pub fn run(prop: &str, seed: u64, w: &Work) -> Report {
    let mut rep = Report::new(
        prop,
        "E2-live-router",
        "random accepted tables served by a real versioned server (version from a header) with echo handlers; probes \
         (method, spelled path incl. some raw non-pchar bytes, version header) sent on concurrent keep-alive connections; status, Allow \
         set, echoed operation id and typed Path<T> values compared with the reference dispatch model; the event log must show exactly \
         one handler entry for dispatched requests and none for refused ones; class = (table shape, expected outcome, method)",
    );
    let u = universe();
    let values = seg_values();
    for t in 0..w.tables {
        let mut rng = Rng::derive(seed, "live-router-table", 0, t as u64);
        let cfg = TableCfg {
            allow_shadow: false,
            versioned: true,
            max_depth: 1 + rng.usize(4),
            wildcards: rng.chance(2, 3),
            n: 3 + rng.usize(10),
        };
        let table = gen_table(&mut rng, &cfg, &u);
        if table.len() < 2 || !table.iter().all(template_supported) {
            continue;
        }
        let Some(api) = build(&table) else {
            rep.inconclusive("model-accepted table refused (C02 decides)");
            continue;
        };
        // Whether a server WITHOUT a version policy accepts this (versioned) API must not
        // depend on the order of registration (if it started in some order, dispatch
        // without a version would pick whichever slice was registered first).
        if table.iter().any(|e| !e.range.is_all()) {
            let n = table.len();
            let mut orders: Vec<Vec<usize>> = vec![(0..n).collect(), (0..n).rev().collect()];
            // an unrestricted endpoint last / a restricted endpoint last
            for want_all_last in [true, false] {
                if let Some(k) = (0..n).find(|i| table[*i].range.is_all() == want_all_last) {
                    let mut o: Vec<usize> = (0..n).filter(|i| *i != k).collect();
                    rng.shuffle(&mut o);
                    o.push(k);
                    orders.push(o);
                }
            }
            let mut outcomes = vec![];
            for o in &orders {
                let Some(api) = build_in_order(&table, o) else { continue };
                let ctx = Ctx::new(EvLog::new());
                let r = start(api, ctx, &SrvCfg { mode: HandlerTaskMode::Detached, body_max: 1024, versioned: None, workers: 1 });
                outcomes.push((o.clone(), r.is_ok()));
            }
            rep.count("unversioned_start_attempts", outcomes.len() as u64);
            if outcomes.iter().any(|x| x.1) && outcomes.iter().any(|x| !x.1) {
                rep.violate(
                    "C01:server-start-depends-on-registration-order",
                    json!({"seed": seed, "table_index": t, "table": table_json(&table),
                           "orders_and_whether_an_unversioned_server_started": outcomes}),
                );
            }
        }
        let log = EvLog::new();
        let ctx = Ctx::new(log.clone());
        let scfg = SrvCfg {
            mode: if rng.bool() { HandlerTaskMode::Detached } else { HandlerTaskMode::CancelOnDisconnect },
            body_max: 1024,
            versioned: Some((VHDR.to_string(), MAXV.to_string())),
            workers: *rng.pick(&[1usize, 2, 4]),
        };
        let mut srv = match start(api, ctx, &scfg) {
            Ok(s) => s,
            Err(e) => {
                rep.inconclusive(&format!("server start: {e}"));
                continue;
            }
        };
        let addr = srv.addr;
        let mut vers: Vec<MVer> = u.clone();
        for e in &table {
            vers.extend(e.range.bounds());
        }
        let table_arc = std::sync::Arc::new(table.clone());
        let vers = std::sync::Arc::new(vers);
        let values = std::sync::Arc::new(values.clone());
        let per = w.probes / w.threads.max(1);
        let hs: Vec<_> = (0..w.threads)
            .map(|th| {
                let table = table_arc.clone();
                let vers = vers.clone();
                let values = values.clone();
                let prop = prop.to_string();
                std::thread::spawn(move || {
                    let mut rep = Report::new(&prop, "E2-live-router", "");
                    let mut expected_enters: Vec<(u64, Option<String>)> = vec![];
                    let mut conn: Option<Conn> = None;
                    for p in 0..per {
                        let mut rng = Rng::derive(seed, "live-router-probe", (t * 1000 + th) as u64, p as u64);
                        let segs = gen_request_segments(&mut rng, &table, &values);
                        let (raw, rawish) = if rng.chance(1, 6) {
                            spell_raw(&mut rng, &segs)
                        } else {
                            (spell(&mut rng, &segs, true), false)
                        };
                        let method = if rng.chance(1, 30) { "BOGUS".to_string() } else { rng.pick(&METHODS).to_string() };
                        let ver = if rng.chance(9, 10) { rng.pick(&vers).clone() } else { random_version(&mut rng) };
                        let expect = dispatch(&table, &method, &raw, Some(&ver));
                        let uid = next_uid();
                        let req = Req::raw_target(&method, &raw).uid(uid).header(VHDR, &ver.text);
                        if conn.is_none() {
                            conn = Conn::connect(addr).ok();
                        }
                        let Some(c) = conn.as_mut() else {
                            rep.inconclusive("connect failed");
                            continue;
                        };
                        if c.send(&req.encode()).is_err() {
                            conn = None;
                            rep.inconclusive("send failed on keep-alive connection");
                            continue;
                        }
                        let resp = match c.read_response(method == "HEAD") {
                            Ok(r) => r,
                            Err(ReadErr::Closed) | Err(ReadErr::Reset(_)) => {
                                conn = None;
                                rep.inconclusive("connection closed before response");
                                continue;
                            }
                            Err(ReadErr::Timeout(_)) => {
                                conn = None;
                                rep.inconclusive("response watchdog");
                                continue;
                            }
                            Err(e) => {
                                conn = None;
                                rep.violate(
                                    format!("{prop}:invalid-response-to-routing-probe"),
                                    json!({"error": format!("{e:?}").chars().take(300).collect::<String>(),
                                           "method": method, "path": String::from_utf8_lossy(&raw)}),
                                );
                                continue;
                            }
                        };
                        if resp.wants_close() {
                            conn = None;
                        }
                        let kind = match &expect {
                            Expect::Hit(..) => "hit",
                            Expect::Ambiguous(_) => "ambiguous",
                            Expect::NotFound => "404",
                            Expect::NotAllowed(_) => "405",
                            Expect::BadRequest(_) => "400",
                        };
                        rep.eval(format!("n{}|{kind}|{method}|raw{}", table.len().min(9), rawish as u8));
                        let wit = |extra: Value| {
                            json!({"seed": seed, "table_index": t, "thread": th, "probe": p, "table": table_json(&table),
                                   "method": method, "path": String::from_utf8_lossy(&raw), "version": ver.text,
                                   "expected": format!("{expect:?}"), "status": resp.status,
                                   "allow": resp.header_str("allow"), "body": String::from_utf8_lossy(&resp.body).chars().take(300).collect::<String>(),
                                   "detail": extra})
                        };
                        // bytes outside pchar sent raw: the HTTP layer may refuse the request line
                        if rawish && resp.status == 400 {
                            expected_enters.push((uid, None));
                            rep.count("raw_bytes_refused_by_http_layer", 1);
                            continue;
                        }
                        match &expect {
                            Expect::Ambiguous(_) => rep.inconclusive("ambiguous in model"),
                            Expect::Hit(i, b) => {
                                let op = table[*i].opid.clone();
                                expected_enters.push((uid, Some(op.clone())));
                                if resp.status != 200 {
                                    let sig = match resp.status {
                                        400 => "C03:valid-path-refused",
                                        _ => "C01:matching-request-not-dispatched",
                                    };
                                    rep.violate(sig, wit(json!({})));
                                } else if method != "HEAD" {
                                    match resp.json() {
                                        Some(j) => {
                                            if j["op"].as_str() != Some(op.as_str()) {
                                                rep.violate("C01:wrong-endpoint", wit(json!({"echo": j})));
                                            } else if bindings_from_echo(&j["vars"]) != *b {
                                                rep.violate("C01:wrong-variables", wit(json!({"echo": j})));
                                            } else if j["uid"].as_u64() != Some(uid) {
                                                rep.violate("C01:response-belongs-to-another-request", wit(json!({"echo": j})));
                                            }
                                        }
                                        None => rep.violate("C01:echo-not-json", wit(json!({}))),
                                    }
                                }
                            }
                            Expect::NotFound => {
                                expected_enters.push((uid, None));
                                match resp.status {
                                    404 => {}
                                    200 => rep.violate("C01:unmatched-request-dispatched", wit(json!({}))),
                                    405 => rep.violate("C04:405-where-404-expected", wit(json!({}))),
                                    400 => rep.violate("C03:valid-path-refused", wit(json!({}))),
                                    _ => rep.violate("C04:wrong-status-for-unmatched", wit(json!({}))),
                                }
                            }
                            Expect::NotAllowed(s) => {
                                expected_enters.push((uid, None));
                                match resp.status {
                                    405 => {
                                        let allow: BTreeSet<String> = resp
                                            .header_all("allow")
                                            .iter()
                                            .flat_map(|v| {
                                                String::from_utf8_lossy(v)
                                                    .split(',')
                                                    .map(|t| t.trim().to_string())
                                                    .filter(|t| !t.is_empty())
                                                    .collect::<Vec<_>>()
                                            })
                                            .collect();
                                        if allow != *s {
                                            let sig = if allow.is_empty() {
                                                "C04:allow-missing"
                                            } else if allow.is_superset(s) {
                                                "C04:allow-lists-unserved-method"
                                            } else {
                                                "C04:allow-omits-served-method"
                                            };
                                            rep.violate(sig, wit(json!({"allow_set": allow})));
                                        }
                                    }
                                    200 => rep.violate("C01:unmatched-request-dispatched", wit(json!({}))),
                                    404 => rep.violate("C04:404-where-405-expected", wit(json!({}))),
                                    400 => rep.violate("C03:valid-path-refused", wit(json!({}))),
                                    _ => rep.violate("C04:wrong-status-for-unmatched", wit(json!({}))),
                                }
                            }
                            Expect::BadRequest(why) => {
                                expected_enters.push((uid, None));
                                if resp.status != 400 {
                                    let sig = match (*why, resp.status) {
                                        ("dot-segment", 200) => "C03:dot-segment-delivered-as-variable",
                                        ("dot-segment", _) => "C03:dot-segment-path-not-400",
                                        (_, 200) => "C03:non-utf8-path-dispatched",
                                        _ => "C03:non-utf8-path-not-400",
                                    };
                                    rep.violate(sig, wit(json!({})));
                                }
                            }
                        }
                        if rep.want_sample() && p % 50 == 0 {
                            rep.sample(wit(json!({})));
                        }
                    }
                    (rep, expected_enters)
                })
            })
            .collect();
        let mut expected: Vec<(u64, Option<String>)> = vec![];
        for h in hs {
            let (r, e) = h.join().expect("probe thread");
            rep.merge(r);
            expected.extend(e);
        }
        let _ = srv.close();
        // history check: handler entries per uid
        let mut enters: BTreeMap<u64, Vec<String>> = BTreeMap::new();
        for e in log.snapshot() {
            if e.kind == "H_ENTER" {
                enters.entry(e.uid).or_default().push(e.s.clone());
            }
        }
        rep.count("handler_entries", enters.values().map(|v| v.len() as u64).sum());
        for (uid, want) in expected {
            let got = enters.get(&uid).cloned().unwrap_or_default();
            match want {
                Some(op) => {
                    if got.len() > 1 {
                        rep.violate("C01:handler-entered-twice-for-one-request", json!({"uid": uid, "entries": got}));
                    } else if got.len() == 1 && got[0] != op {
                        rep.violate("C01:wrong-endpoint", json!({"uid": uid, "entered": got, "expected": op, "via": "event log"}));
                    }
                }
                None => {
                    if !got.is_empty() {
                        rep.violate(
                            format!("{}:handler-ran-for-refused-request", if prop == "C03" { "C03" } else { "C04" }),
                            json!({"uid": uid, "entered": got, "table": table_json(&table)}),
                        );
                    }
                }
            }
        }
        rep.count("live_tables", 1);
    }
    rep
}

// ------------------------------------------------------------------ C05 header policy

pub fn run_header_policy(seed: u64, rounds: usize) -> Report {
    let mut rep = Report::new(
        "C05",
        "E2-header-policy",
        "versioned servers (ClientSpecifiesVersionInHeader, max version drawn from U) whose GET /v is registered once per slice of U \
         (until U0, [Ui,Ui+1), from Ulast) so that the echoed operation id is the version bucket; plus a server whose endpoints are all \
         unrestricted; header values: every v in U (also with build metadata and pre-releases around bounds), versions above max, \
         missing, empty, 1, 1.0, v1.0.0, 01.0.0, non-ASCII, over-long, two header lines; expected: routed exactly at the named version \
         or 4xx without a handler entry; class = (header class, relation to max, server kind)",
    );
    let u = universe();
    for r in 0..rounds {
        let mut rng = Rng::derive(seed, "c05-header", 0, r as u64);
        let maxv = rng.pick(&u[3..]).clone();
        let sliced = r % 2 == 0;
        let mut table: Vec<MEndpoint> = vec![];
        let mk = |op: String, range: MRange| MEndpoint {
            opid: op,
            method: "GET".into(),
            segs: vec![TSeg::Lit("v".into())],
            trailing_slash: false,
            range,
            visible: true,
        };
        if sliced {
            table.push(mk("b0".into(), MRange::Until(u[0].clone())));
            for i in 0..u.len() - 1 {
                table.push(mk(format!("b{}", i + 1), MRange::FromUntil(u[i].clone(), u[i + 1].clone())));
            }
            table.push(mk(format!("b{}", u.len()), MRange::From(u[u.len() - 1].clone())));
        } else {
            table.push(mk("all".into(), MRange::All));
            let mut other = mk("all-put".into(), MRange::All);
            other.method = "PUT".into();
            table.push(other);
        }
        let Some(api) = build(&table) else {
            rep.violate("C05:slice-table-refused", json!({"table": table_json(&table)}));
            continue;
        };
        let log = EvLog::new();
        let ctx = Ctx::new(log.clone());
        let scfg = SrvCfg {
            mode: HandlerTaskMode::Detached,
            body_max: 1024,
            versioned: Some((VHDR.to_string(), maxv.text.clone())),
            workers: 2,
        };
        let mut srv = match start(api, ctx, &scfg) {
            Ok(s) => s,
            Err(e) => {
                rep.inconclusive(&format!("server start: {e}"));
                continue;
            }
        };
        // header cases: (class, header lines, Some(version) if it names a version)
        let mut cases: Vec<(String, Vec<Vec<u8>>, Option<MVer>)> = vec![];
        for v in &u {
            cases.push(("plain".into(), vec![v.text.as_bytes().to_vec()], Some(v.clone())));
            cases.push(("ows".into(), vec![format!("  {} \t", v.text).into_bytes()], Some(v.clone())));
            let b = MVer::v(&format!("{}+build.7", v.text));
            cases.push(("build-metadata".into(), vec![b.text.as_bytes().to_vec()], Some(b)));
        }
        for _ in 0..10 {
            let v = random_version(&mut rng);
            cases.push(("random".into(), vec![v.text.as_bytes().to_vec()], Some(v)));
        }
        cases.push(("missing".into(), vec![], None));
        for (c, bad) in [
            ("empty", &b""[..]),
            ("major-only", b"1"),
            ("major-minor", b"1.0"),
            ("v-prefix", b"v1.0.0"),
            ("leading-zero", b"01.0.0"),
            ("non-ascii", b"1.0.0-\xc3\xa9"),
            ("latin1", b"\xe9"),
            ("garbage", b"latest"),
            ("negative", b"-1.0.0"),
            ("four-parts", b"1.0.0.0"),
            ("empty-prerelease", b"1.0.0-"),
            ("comma-list", b"1.0.0, 2.0.0"),
        ] {
            cases.push((c.to_string(), vec![bad.to_vec()], None));
        }
        cases.push(("over-long".into(), vec![format!("1.0.0-{}", "a".repeat(5000)).into_bytes()], Some(MVer::v(&format!("1.0.0-{}", "a".repeat(5000))))));
        let mut conn: Option<Conn> = None;
        for (class, lines, named) in cases {
            for method in ["GET", "PUT"] {
                let uid = next_uid();
                let mut req = Req::new(method, "/v").uid(uid);
                for l in &lines {
                    req = req.header_bytes(VHDR, l);
                }
                if conn.is_none() {
                    conn = Conn::connect(srv.addr).ok();
                }
                let Some(c) = conn.as_mut() else {
                    rep.inconclusive("connect");
                    continue;
                };
                if c.send(&req.encode()).is_err() {
                    conn = None;
                    rep.inconclusive("send failed");
                    continue;
                }
                let resp = match c.read_response(false) {
                    Ok(r) => r,
                    Err(e) => {
                        conn = None;
                        rep.inconclusive(&format!("no response: {}", format!("{e:?}").chars().take(40).collect::<String>()));
                        continue;
                    }
                };
                if resp.wants_close() {
                    conn = None;
                }
                let entered: Vec<String> = log
                    .snapshot()
                    .iter()
                    .filter(|e| e.kind == "H_ENTER" && e.uid == uid)
                    .map(|e| e.s.clone())
                    .collect();
                let rel = match &named {
                    Some(v) if v.le(&maxv) => "le-max",
                    Some(_) => "gt-max",
                    None => "unparsable",
                };
                rep.eval(format!("{class}|{rel}|{}|{method}", if sliced { "sliced" } else { "unrestricted" }));
                let wit = json!({"seed": seed, "round": r, "max_version": maxv.text, "sliced_table": sliced, "method": method,
                    "header_lines": lines.iter().map(|l| String::from_utf8_lossy(l).chars().take(80).collect::<String>()).collect::<Vec<_>>(),
                    "status": resp.status, "body": String::from_utf8_lossy(&resp.body).chars().take(200).collect::<String>(),
                    "handler_entries": entered});
                let tag = if class == "build-metadata" || class == "over-long" { format!("{class}:") } else { String::new() };
                match (&named, rel) {
                    (Some(v), "le-max") => {
                        let want = dispatch(&table, method, b"/v", Some(v));
                        match want {
                            Expect::Hit(i, _) => {
                                let got_op = resp.json().and_then(|j| j["op"].as_str().map(|s| s.to_string()));
                                if resp.status != 200 || got_op.as_deref() != Some(table[i].opid.as_str()) {
                                    let sig = if resp.status == 200 {
                                        format!("C05:{tag}header-version-routed-at-another-version")
                                    } else {
                                        format!("C05:{tag}supported-version-refused")
                                    };
                                    rep.violate(sig, json!({"expected_op": table[i].opid, "got_op": got_op, "case": wit}));
                                }
                            }
                            Expect::NotAllowed(_) => {
                                if resp.status != 405 || !entered.is_empty() {
                                    rep.violate(format!("C05:{tag}header-version-routed-at-another-version"), json!({"expected": "405", "case": wit}));
                                }
                            }
                            _ => {}
                        }
                    }
                    _ => {
                        // newer than supported, missing or unparsable: 4xx and no handler
                        if !(400..500).contains(&resp.status) {
                            rep.violate(format!("C05:{tag}bad-version-header-not-4xx:{class}:{rel}"), wit.clone());
                        }
                        if !entered.is_empty() {
                            rep.violate(format!("C05:{tag}handler-ran-despite-bad-version-header:{class}:{rel}"), wit.clone());
                        }
                    }
                }
                if rep.want_sample() && (class == "plain" || class == "missing") && method == "GET" {
                    rep.sample(wit);
                }
            }
        }
        let _ = srv.close();
    }
    rep
}
