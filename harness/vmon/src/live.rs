//! The "echo API": a real dropshot API whose handlers report exactly what
//! they were given.  Shared by the live engines (C09, C10, C11, C18, C01-live).

use crate::api::uid_of;
use crate::rng::fnv1a;
use crate::srv::C;
use dropshot::{
    ApiDescription, ApiEndpoint, ApiEndpointVersions, HttpError, HttpResponseOk,
    MultipartBody, PaginationParams, Path, Query, RequestContext, StreamingBody,
    TypedBody, UntypedBody, WhichPage,
};
use futures::StreamExt;
use http::Method;
use schemars::JsonSchema;
use serde::{Deserialize, Serialize};
use serde_json::{json, Value};
use std::collections::BTreeMap;

#[derive(Deserialize, Serialize, JsonSchema, Clone, Debug, PartialEq)]
#[serde(rename_all = "lowercase")]
pub enum Color {
    Red,
    Green,
    Blue,
}
#[derive(Deserialize, Serialize, JsonSchema, Clone, Debug)]
pub struct PathS {
    pub a: String,
    pub b: String,
}
#[derive(Deserialize, Serialize, JsonSchema, Clone, Debug)]
pub struct PathN {
    pub u: u64,
    pub i: i64,
    pub f: f64,
    pub flag: bool,
    pub e: Color,
}
#[derive(Deserialize, Serialize, JsonSchema, Clone, Debug)]
pub struct PathW {
    pub rest: Vec<String>,
}
/// two variables and then a wildcard: registered (for another method) directly below
/// the `paths` endpoint, so that endpoint's node has a wildcard child
#[derive(Deserialize, Serialize, JsonSchema, Clone, Debug)]
pub struct PathSW {
    pub a: String,
    pub b: String,
    pub rest: Vec<String>,
}
#[derive(Deserialize, Serialize, JsonSchema, Clone, Debug)]
pub struct QAll {
    pub s: String,
    pub u: u64,
    pub i: i64,
    pub f: f64,
    pub b: bool,
    pub e: Color,
    pub o: Option<String>,
    #[serde(default)]
    pub d: u32,
    pub uid: u64,
}
#[derive(Deserialize, Serialize, JsonSchema, Clone, Debug)]
pub struct InnerJ {
    pub a: String,
    pub n: i32,
}
#[derive(Deserialize, Serialize, JsonSchema, Clone, Debug)]
pub struct BodyJ {
    pub s: String,
    pub u: u64,
    pub i: i64,
    pub f: f64,
    pub b: bool,
    pub e: Color,
    pub o: Option<String>,
    pub v: Vec<String>,
    pub m: BTreeMap<String, String>,
    pub nested: InnerJ,
    pub uid: u64,
}
#[derive(Deserialize, Serialize, JsonSchema, Clone, Debug)]
pub struct BodyF {
    pub s: String,
    pub u: u64,
    pub i: i64,
    pub b: bool,
    pub e: Color,
    pub o: Option<String>,
    pub uid: u64,
}
/// scan parameters of the paginated echo endpoint (first-page requests)
#[derive(Deserialize, Serialize, JsonSchema, Clone, Debug)]
pub struct ScanP {
    pub s: String,
    pub o: Option<String>,
    pub n: Option<u32>,
    pub uid: u64,
}
#[derive(Deserialize, Serialize, JsonSchema, Clone, Debug)]
pub struct PageSel {
    pub last: String,
}
#[derive(Deserialize, Serialize, JsonSchema, Clone, Debug)]
pub struct QUid {
    pub uid: Option<u64>,
}

fn hex(b: &[u8]) -> String {
    b.iter().map(|x| format!("{x:02x}")).collect()
}

/// pushes H_END when the handler ends in any way (return, error, panic, drop)
pub struct EndGuard {
    log: crate::evlog::EvLog,
    uid: u64,
}
impl Drop for EndGuard {
    fn drop(&mut self) {
        self.log.push("H_END", self.uid, 0, "");
    }
}

/// common part of every echo + H_ENTER event; optional seeded sleep
async fn enter(rqctx: &RequestContext<C>) -> ((u64, EndGuard), Value) {
    let uid = uid_of(rqctx);
    rqctx.context().log.push("H_ENTER", uid, 0, &rqctx.endpoint.operation_id);
    let guard = EndGuard { log: rqctx.context().log.clone(), uid };
    if let Some(us) = rqctx
        .request
        .headers()
        .get("x-vmon-sleep-us")
        .and_then(|v| v.to_str().ok())
        .and_then(|s| s.parse::<u64>().ok())
    {
        if us > 0 {
            tokio::time::sleep(std::time::Duration::from_micros(us)).await;
        } else {
            tokio::task::yield_now().await;
        }
    }
    let meta = json!({
        "op": rqctx.endpoint.operation_id,
        "method": rqctx.request.method().as_str(),
        "uri": rqctx.request.uri().to_string(),
        "uid": uid,
        "rqid": rqctx.request_id,
        "remote": rqctx.request.remote_addr().to_string(),
        "instance": rqctx.context().instance,
        "limit": rqctx.request_body_max_bytes(),
    });
    ((uid, guard), meta)
}

fn done(rqctx: &RequestContext<C>, uid: (u64, EndGuard), meta: Value, args: Value) -> Result<HttpResponseOk<Value>, HttpError> {
    rqctx.context().log.push("H_DONE", uid.0, 0, "");
    Ok(HttpResponseOk(json!({"meta": meta, "args": args})))
}

pub async fn h_paths(rqctx: RequestContext<C>, p: Path<PathS>, q: Query<QUid>) -> Result<HttpResponseOk<Value>, HttpError> {
    let (uid, meta) = enter(&rqctx).await;
    let args = json!({"path": serde_json::to_value(p.into_inner()).unwrap(), "query_uid": q.into_inner().uid});
    done(&rqctx, uid, meta, args)
}
pub async fn h_pathn(rqctx: RequestContext<C>, p: Path<PathN>) -> Result<HttpResponseOk<Value>, HttpError> {
    let (uid, meta) = enter(&rqctx).await;
    let p = p.into_inner();
    let args = json!({"path": {"u": p.u, "i": p.i, "f_bits": p.f.to_bits(), "flag": p.flag, "e": p.e}});
    done(&rqctx, uid, meta, args)
}
pub async fn h_pathw(rqctx: RequestContext<C>, p: Path<PathW>) -> Result<HttpResponseOk<Value>, HttpError> {
    let (uid, meta) = enter(&rqctx).await;
    let args = json!({"path": serde_json::to_value(p.into_inner()).unwrap()});
    done(&rqctx, uid, meta, args)
}
pub async fn h_pathsw(rqctx: RequestContext<C>, p: Path<PathSW>) -> Result<HttpResponseOk<Value>, HttpError> {
    let (uid, meta) = enter(&rqctx).await;
    let args = json!({"path": serde_json::to_value(p.into_inner()).unwrap()});
    done(&rqctx, uid, meta, args)
}
pub async fn h_query(rqctx: RequestContext<C>, q: Query<QAll>) -> Result<HttpResponseOk<Value>, HttpError> {
    let (uid, meta) = enter(&rqctx).await;
    let q = q.into_inner();
    let args = json!({"query": {"s": q.s, "u": q.u, "i": q.i, "f_bits": q.f.to_bits(), "b": q.b, "e": q.e, "o": q.o, "d": q.d, "uid": q.uid}});
    done(&rqctx, uid, meta, args)
}
pub async fn h_json(rqctx: RequestContext<C>, b: TypedBody<BodyJ>) -> Result<HttpResponseOk<Value>, HttpError> {
    let (uid, meta) = enter(&rqctx).await;
    let b = b.into_inner();
    let args = json!({"body": {"s": b.s, "u": b.u, "i": b.i, "f_bits": b.f.to_bits(), "b": b.b, "e": b.e, "o": b.o,
        "v": b.v, "m": b.m, "nested": {"a": b.nested.a, "n": b.nested.n}, "uid": b.uid}});
    done(&rqctx, uid, meta, args)
}
pub async fn h_form(rqctx: RequestContext<C>, b: TypedBody<BodyF>) -> Result<HttpResponseOk<Value>, HttpError> {
    let (uid, meta) = enter(&rqctx).await;
    let args = json!({"body": serde_json::to_value(b.into_inner()).unwrap()});
    done(&rqctx, uid, meta, args)
}
pub async fn h_raw(rqctx: RequestContext<C>, b: UntypedBody) -> Result<HttpResponseOk<Value>, HttpError> {
    let (uid, meta) = enter(&rqctx).await;
    let bytes = b.as_bytes();
    rqctx.context().log.push("H_BYTES", uid.0, bytes.len() as i64, "buffered");
    let args = json!({"len": bytes.len(), "hash": fnv1a(bytes).to_string(),
        "hex": if bytes.len() <= 256 { Some(hex(bytes)) } else { None }});
    done(&rqctx, uid, meta, args)
}
pub async fn h_stream(rqctx: RequestContext<C>, b: StreamingBody) -> Result<HttpResponseOk<Value>, HttpError> {
    let (uid, meta) = enter(&rqctx).await;
    let stream = b.into_stream();
    tokio::pin!(stream);
    let mut total: usize = 0;
    let mut h: u64 = 0xcbf2_9ce4_8422_2325;
    let mut err: Option<HttpError> = None;
    let mut after_err = 0usize;
    while let Some(item) = stream.next().await {
        match item {
            Ok(chunk) => {
                if err.is_some() {
                    // bytes delivered after the stream reported an error
                    after_err += chunk.len();
                }
                total += chunk.len();
                for x in chunk.iter() {
                    h ^= u64::from(*x);
                    h = h.wrapping_mul(0x0000_0100_0000_01B3);
                }
                rqctx.context().log.push("H_BYTES", uid.0, total as i64, "stream");
            }
            Err(e) => {
                if err.is_none() {
                    err = Some(e);
                }
            }
        }
    }
    if after_err > 0 {
        rqctx.context().log.push("H_BYTES_AFTER_ERR", uid.0, after_err as i64, "");
    }
    if let Some(e) = err {
        rqctx.context().log.push("H_STREAM_ERR", uid.0, total as i64, "");
        return Err(e);
    }
    let args = json!({"len": total, "hash": h.to_string()});
    done(&rqctx, uid, meta, args)
}
pub async fn h_multi(rqctx: RequestContext<C>, b: MultipartBody) -> Result<HttpResponseOk<Value>, HttpError> {
    let (uid, meta) = enter(&rqctx).await;
    let mut mp = b.content;
    let mut fields = vec![];
    let mut total = 0usize;
    loop {
        match mp.next_field().await {
            Ok(Some(f)) => {
                let name = f.name().map(|s| s.to_string());
                let file = f.file_name().map(|s| s.to_string());
                let ct = f.content_type().map(|m| m.to_string());
                match f.bytes().await {
                    Ok(bytes) => {
                        total += bytes.len();
                        rqctx.context().log.push("H_BYTES", uid.0, total as i64, "multipart");
                        fields.push(json!({"name": name, "file": file, "ct": ct, "len": bytes.len(),
                            "hash": fnv1a(&bytes).to_string(),
                            "hex": if bytes.len() <= 256 { Some(hex(&bytes)) } else { None }}));
                    }
                    Err(e) => {
                        return Err(HttpError::for_bad_request(None, format!("multipart field: {e}")));
                    }
                }
            }
            Ok(None) => break,
            Err(e) => return Err(HttpError::for_bad_request(None, format!("multipart: {e}"))),
        }
    }
    let args = json!({"fields": fields, "total": total});
    done(&rqctx, uid, meta, args)
}
pub async fn h_pag(
    rqctx: RequestContext<C>,
    q: Query<PaginationParams<ScanP, PageSel>>,
) -> Result<HttpResponseOk<Value>, HttpError> {
    let (uid, meta) = enter(&rqctx).await;
    let q = q.into_inner();
    let args = match &q.page {
        WhichPage::First(scan) => json!({"which": "first", "scan": {"s": scan.s, "o": scan.o, "n": scan.n, "uid": scan.uid}}),
        WhichPage::Next(sel) => json!({"which": "next", "selector": {"last": sel.last}}),
    };
    done(&rqctx, uid, meta, args)
}
pub async fn h_health(rqctx: RequestContext<C>) -> Result<HttpResponseOk<Value>, HttpError> {
    let (uid, meta) = enter(&rqctx).await;
    done(&rqctx, uid, meta, json!({}))
}
pub async fn h_panic(rqctx: RequestContext<C>) -> Result<HttpResponseOk<Value>, HttpError> {
    let (uid, _meta) = enter(&rqctx).await;
    rqctx.context().log.push("H_PANIC", uid.0, 0, "");
    let _g = crate::panics::expected_panic_guard();
    panic!("vmon: deliberate handler panic uid={}", uid.0);
}

/// The echo API.  Body endpoints are registered once without an override and
/// once per entry of `overrides` under `<path>-o<n>`.
pub fn echo_api(overrides: &[usize]) -> ApiDescription<C> {
    let mut api = ApiDescription::<C>::new();
    let all = ApiEndpointVersions::all;
    let j = "application/json";
    let mut reg = |e: ApiEndpoint<C>| api.register(e).expect("echo api registers");
    reg(ApiEndpoint::new("paths".into(), h_paths, Method::PUT, j, "/p/{a}/{b}", all()));
    reg(ApiEndpoint::new("pathn".into(), h_pathn, Method::GET, j, "/pn/{u}/{i}/{f}/{flag}/{e}", all()));
    reg(ApiEndpoint::new("pathw".into(), h_pathw, Method::GET, j, "/w/{rest:.*}", all()).visible(false));
    reg(ApiEndpoint::new("pathsw".into(), h_pathsw, Method::DELETE, j, "/p/{a}/{b}/{rest:.*}", all()).visible(false));
    reg(ApiEndpoint::new("query".into(), h_query, Method::GET, j, "/q", all()));
    reg(ApiEndpoint::new("pag".into(), h_pag, Method::GET, j, "/pag", all()));
    reg(ApiEndpoint::new("health".into(), h_health, Method::GET, j, "/health", all()));
    reg(ApiEndpoint::new("boom".into(), h_panic, Method::GET, j, "/boom", all()));
    let mut lims: Vec<Option<usize>> = vec![None];
    lims.extend(overrides.iter().map(|n| Some(*n)));
    for lim in lims {
        let sfx = match lim {
            None => String::new(),
            Some(n) => format!("-o{n}"),
        };
        let with = |e: ApiEndpoint<C>| match lim {
            None => e,
            Some(n) => e.request_body_max_bytes(n),
        };
        reg(with(ApiEndpoint::new(format!("json{sfx}"), h_json, Method::POST, j, &format!("/json{sfx}"), all())));
        reg(with(ApiEndpoint::new(format!("form{sfx}"), h_form, Method::POST, "application/x-www-form-urlencoded", &format!("/form{sfx}"), all())));
        reg(with(ApiEndpoint::new(format!("raw{sfx}"), h_raw, Method::POST, j, &format!("/raw{sfx}"), all())));
        reg(with(ApiEndpoint::new(format!("stream{sfx}"), h_stream, Method::POST, j, &format!("/stream{sfx}"), all())));
        reg(with(ApiEndpoint::new(format!("multi{sfx}"), h_multi, Method::POST, "multipart/form-data", &format!("/multi{sfx}"), all())));
    }
    api
}
